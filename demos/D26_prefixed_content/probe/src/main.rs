//! Demonstration for the C04 finding "read_content matches the end tag by a constant, unqualified name".
//! usage: probe <file.scxml>...   (prints OK / Err / PANIC per file)
use rufsm::scxml_reader::parse_from_xml;

fn main() {
    for f in std::env::args().skip(1) {
        let xml = std::fs::read_to_string(&f).unwrap();
        let r = std::panic::catch_unwind(move || parse_from_xml(xml));
        match r {
            Ok(Ok(fsm)) => println!("{f}: OK states={} root-script-region={}", fsm.states.len(), fsm.script),
            Ok(Err(e)) => println!("{f}: Err {e}"),
            Err(_) => println!("{f}: PANIC"),
        }
    }
}
