// Demonstration of lock-order inversion E->P (start_fsm) vs P->E (Datamodel::send -> send_to_session).
use rufsm::actions::ActionWrapper;
use rufsm::datamodel::GlobalDataArc;
use rufsm::event_io_processor::{EventIOProcessor, ExternalQueueContainer};
use rufsm::fsm::{self, Event, FinishMode, SessionId};
use rufsm::fsm_executor::FsmExecutor;
use rufsm::scxml_reader;
use std::sync::{Arc, Mutex};
use std::time::Duration;

#[derive(Debug)]
struct Slow { q: ExternalQueueContainer, ms: u64 }
const TYPES: &[&str] = &["slow"];
impl EventIOProcessor for Slow {
    fn get_location(&self, id: SessionId) -> String { format!("slow{}", id) }
    fn get_types(&self) -> &[&str] { std::thread::sleep(Duration::from_millis(self.ms)); TYPES }
    fn get_external_queues(&mut self) -> &mut ExternalQueueContainer { &mut self.q }
    fn get_copy(&self) -> Box<dyn EventIOProcessor> { Box::new(Slow { q: self.q.clone(), ms: self.ms }) }
    fn send(&mut self, _g: &GlobalDataArc, _t: &str, _e: Event) -> bool { true }
    fn shutdown(&mut self) {}
}
const DOC: &str = r#"<scxml initial="s" datamodel="rfsm-expression">
 <state id="s">
  <transition event="go"><send targetexpr="'#_scxml_' + _sessionid" event="x"/></transition>
  <transition event="x" target="done"/>
 </state>
 <final id="done"/>
</scxml>"#;
fn main() {
    let first = std::env::args().nth(1).unwrap_or("first".into()) == "first";
    let executor = FsmExecutor::new_without_io_processor();
    {
        let mut st = executor.state.lock().unwrap();
        let slow: Arc<Mutex<Box<dyn EventIOProcessor>>> = Arc::new(Mutex::new(Box::new(Slow { q: ExternalQueueContainer::new(), ms: 700 })));
        if first { st.processors.insert(0, slow); } else { st.processors.push(slow); }
    }
    let s1 = fsm::start_fsm_with_data_and_finish_mode(scxml_reader::parse_from_xml(DOC.to_string()).unwrap(), ActionWrapper::new(), Box::new(executor.clone()), &Vec::new(), FinishMode::KEEP_CONFIGURATION);
    let s1_thread = s1.thread.unwrap();
    let s1_sender = s1.sender.clone();
    std::thread::sleep(Duration::from_millis(300)); // let S1 reach its idle point
    let ex2 = executor.clone();
    let (atx, arx) = std::sync::mpsc::channel();
    std::thread::spawn(move || { // thread A: starts a second session, holds E while iterating processors
        let s2 = fsm::start_fsm_with_data_and_finish_mode(scxml_reader::parse_from_xml(DOC.to_string()).unwrap(), ActionWrapper::new(), Box::new(ex2), &Vec::new(), FinishMode::KEEP_CONFIGURATION);
        let _ = atx.send(s2.session_id);
    });
    std::thread::sleep(Duration::from_millis(150)); // A is now inside start_fsm holding E
    let _ = s1_sender.send(Box::new(Event::new_simple("go"))); // S1: Datamodel::send takes P(scxml), G1, then wants E
    let (jtx, jrx) = std::sync::mpsc::channel();
    std::thread::spawn(move || { let _ = s1_thread.join(); let _ = jtx.send(()); });
    let a_done = arx.recv_timeout(Duration::from_secs(5)).is_ok();
    let s1_done = jrx.recv_timeout(Duration::from_secs(5)).is_ok();
    println!("slow processor {}: starter thread finished={} session1 finished={}  => {}", if first {"FIRST"} else {"LAST"}, a_done, s1_done, if !a_done && !s1_done {"DEADLOCK"} else {"ok"});
    std::process::exit(0);
}
