use rufsm::datamodel::create_global_data_arc;
use rufsm::datamodel::expression_engine::RFsmExpressionDatamodel;
use rufsm::expression_engine::parser::ExpressionParser;
fn main() {
    let args: Vec<String> = std::env::args().skip(1).collect();
    let ec = RFsmExpressionDatamodel::new(create_global_data_arc());
    RFsmExpressionDatamodel::add_internal_functions_to_wrapper(&mut ec.global_data.lock().unwrap().actions);
    for s in args {
        let s = if s.starts_with("@nest") { let n: usize = s[5..].parse().unwrap(); format!("{}1{}", "(".repeat(n), ")".repeat(n)) }
                else if s.starts_with("@chain") { let n: usize = s[6..].parse().unwrap(); let mut t = String::from("1"); for _ in 0..n { t.push_str("+1"); } t }
                else { s };
        let rs = ExpressionParser::execute_str(s.as_str(), &mut ec.global_data.lock().unwrap());
        let shown = if s.len() > 60 { format!("{}...", &s[..60]) } else { s.clone() };
        match rs { Ok(r) => println!("{} => Ok {}", shown, r), Err(e) => println!("{} => Err {}", shown, e) }
    }
}
