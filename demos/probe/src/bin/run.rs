// run an scxml file with events given on the command line: run <file> <timeout_ms> [event ...]; prints final configuration
use rufsm::actions::ActionWrapper;
use rufsm::fsm::{self, Event, FinishMode};
use rufsm::fsm_executor::FsmExecutor;
use rufsm::scxml_reader;
use std::time::Duration;
fn main() {
    let args: Vec<String> = std::env::args().skip(1).collect();
    let xml = std::fs::read_to_string(&args[0]).unwrap();
    let timeout: u64 = args[1].parse().unwrap();
    let fsm = scxml_reader::parse_from_xml(xml).unwrap();
    let executor = FsmExecutor::new_without_io_processor();
    let state = executor.state.clone();
    let session = fsm::start_fsm_with_data_and_finish_mode(fsm, ActionWrapper::new(), Box::new(executor), &Vec::new(), FinishMode::KEEP_CONFIGURATION);
    for e in &args[2..] {
        if let Some(ms) = e.strip_prefix("sleep:") { std::thread::sleep(Duration::from_millis(ms.parse().unwrap())); continue; }
        let _ = session.sender.send(Box::new(Event::new_simple(e)));
    }
    let sid = session.session_id;
    let th = session.thread.unwrap();
    let (tx, rx) = std::sync::mpsc::channel();
    std::thread::spawn(move || { let r = th.join(); let _ = tx.send(r.is_ok()); });
    match rx.recv_timeout(Duration::from_millis(timeout)) {
        Ok(ok) => println!("JOINED thread_ok={}", ok),
        Err(_) => { println!("TIMEOUT (session still running or wedged)"); }
    }
    match state.arc.try_lock() {
        Ok(st) => match st.sessions.get(&sid) { Some(s) => match s.global_data.try_lock() { Ok(g) => println!("FINAL {:?}", g.final_configuration), Err(e) => println!("G lock: {:?}", e.to_string()) }, None => println!("no session") },
        Err(e) => println!("E lock: {}", e),
    }
    std::process::exit(0);
}
