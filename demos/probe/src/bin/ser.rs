use rufsm::scxml_reader;
use rufsm::serializer::default_protocol_reader::DefaultProtocolReader;
use rufsm::serializer::default_protocol_writer::DefaultProtocolWriter;
use rufsm::serializer::fsm_reader::FsmReader;
use rufsm::serializer::fsm_writer::FsmWriter;
use rufsm::serializer::protocol_writer::ProtocolWriter;
use std::io::Write;
struct Short(Vec<u8>, usize);
impl Write for Short { fn write(&mut self, b: &[u8]) -> std::io::Result<usize> { let n = b.len().min(self.1); self.0.extend_from_slice(&b[..n]); Ok(n) } fn flush(&mut self) -> std::io::Result<()> { Ok(()) } }
fn main() {
    std::panic::set_hook(Box::new(|_| {}));
    let long = "x".repeat(5000);
    let xml = format!("<scxml initial='s0' datamodel='ecmascript' binding='late'><script>var a='{}';</script><state id='s0'><onentry><log expr=\"'hi'\"/><send idlocation='x' event='e' delay='1s'/></onentry><transition event='go' cond='true' target='end'/></state><final id='end'/></scxml>", long);
    let fsm = scxml_reader::parse_from_xml(xml).unwrap();
    let mut w: FsmWriter<Vec<u8>> = FsmWriter::new(Box::new(DefaultProtocolWriter::new(Vec::new())));
    w.write(&fsm); w.close();
    let buf = w.get_writer().clone();
    println!("image bytes {} writer_error={}", buf.len(), w.writer.has_error());
    let mut r = FsmReader::new(Box::new(DefaultProtocolReader::new(&buf[..])));
    let back = r.read().unwrap();
    let script_len = |f: &rufsm::fsm::Fsm| -> usize { format!("{:?}", f.executableContent.get(&f.script).unwrap()).len() };
    println!("script debug len original {} reloaded {}", script_len(&fsm), script_len(&back));
    {
        use rufsm::datamodel::ToAny; use rufsm::executable_content::SendParameters;
        let names = |f: &rufsm::fsm::Fsm| -> Vec<String> { let mut v = Vec::new(); for c in f.executableContent.values() { for e in c { if let Some(sp) = (**e).as_any().downcast_ref::<SendParameters>() { v.push(sp.parent_state_name.clone()); } } } v };
        println!("send.parent_state_name original {:?} reloaded {:?}", names(&fsm), names(&back));
    }
    let (mut ok, mut err, mut pan) = (0, 0, 0);
    let mut first_ok = None;
    for n in 0..buf.len() {
        let pre = buf[..n].to_vec();
        let res = std::panic::catch_unwind(move || { let mut r = FsmReader::new(Box::new(DefaultProtocolReader::new(&pre[..]))); r.read().is_ok() });
        match res { Ok(true) => { ok += 1; if first_ok.is_none() { first_ok = Some(n); } }, Ok(false) => err += 1, Err(_) => pan += 1 }
    }
    println!("prefixes: total {} -> Ok {} Err {} panic {} first_ok_prefix={:?}", buf.len(), ok, err, pan, first_ok);
    // short writes
    let mut w2: FsmWriter<Short> = FsmWriter::new(Box::new(DefaultProtocolWriter::new(Short(Vec::new(), 3))));
    w2.write(&fsm); w2.close();
    println!("short-writer: emitted {} bytes vs {} ; has_error={}", w2.get_writer().0.len(), buf.len(), w2.writer.has_error());
}
