// Demonstration of lock-order inversion G->P (Fsm::invoke holds parent's G over start_fsm, which locks every P)
// vs P->G (delayed-send timer closure locks P, then the processor's send locks the owner's G).
use rufsm::actions::ActionWrapper;
use rufsm::datamodel::GlobalDataArc;
use rufsm::event_io_processor::{EventIOProcessor, ExternalQueueContainer};
use rufsm::fsm::{self, Event, FinishMode, SessionId};
use rufsm::fsm_executor::FsmExecutor;
use rufsm::scxml_reader;
use std::sync::{Arc, Mutex};
use std::time::Duration;

#[derive(Debug)]
struct Slow { q: ExternalQueueContainer, ms: u64, g_first: bool }
const TYPES: &[&str] = &["slow"];
impl EventIOProcessor for Slow {
    fn get_location(&self, id: SessionId) -> String { format!("slow{}", id) }
    fn get_types(&self) -> &[&str] { TYPES }
    fn get_external_queues(&mut self) -> &mut ExternalQueueContainer { &mut self.q }
    fn get_copy(&self) -> Box<dyn EventIOProcessor> { Box::new(Slow { q: self.q.clone(), ms: self.ms, g_first: self.g_first }) }
    // like the SCXML processor, it looks at the sender's global data - only later
    fn send(&mut self, g: &GlobalDataArc, _t: &str, e: Event) -> bool {
        if self.g_first {
            { let mut gl = g.lock().unwrap(); gl.externalQueue.enqueue(Box::new(e)); }
            std::thread::sleep(Duration::from_millis(self.ms)); // still holding P, but not waiting for G
        } else {
            std::thread::sleep(Duration::from_millis(self.ms)); // holding P ...
            let mut gl = g.lock().unwrap();                      // ... then wanting G
            gl.externalQueue.enqueue(Box::new(e));
        }
        true
    }
    fn shutdown(&mut self) {}
}
const DOC: &str = r#"<scxml initial="s" datamodel="rfsm-expression">
 <state id="s">
  <onentry><send type="slow" event="tick" delay="100ms"/></onentry>
  <transition event="go" target="inv"/>
  <transition event="tick"/>
 </state>
 <state id="inv">
  <invoke type="scxml" id="child"><content><scxml initial="c" datamodel="null"><final id="c"/></scxml></content></invoke>
  <transition event="tick" target="done"/>
  <transition event="done.invoke.child" target="done"/>
 </state>
 <final id="done"/>
</scxml>"#;
fn main() {
    let g_first = std::env::args().nth(1).unwrap_or("p_then_g".into()) == "g_first";
    let executor = FsmExecutor::new_without_io_processor();
    executor.state.lock().unwrap().processors.push(Arc::new(Mutex::new(Box::new(Slow { q: ExternalQueueContainer::new(), ms: 800, g_first }))));
    let s1 = fsm::start_fsm_with_data_and_finish_mode(scxml_reader::parse_from_xml(DOC.to_string()).unwrap(), ActionWrapper::new(), Box::new(executor.clone()), &Vec::new(), FinishMode::KEEP_CONFIGURATION);
    let th = s1.thread.unwrap();
    std::thread::sleep(Duration::from_millis(300)); // timer fired at 100ms: timer thread holds P(slow), sleeping inside send
    let _ = s1.sender.send(Box::new(Event::new_simple("go"))); // session: enters 'inv', Fsm::invoke holds G and wants P(slow)
    let (jtx, jrx) = std::sync::mpsc::channel();
    std::thread::spawn(move || { let _ = th.join(); let _ = jtx.send(()); });
    let done = jrx.recv_timeout(Duration::from_secs(6)).is_ok();
    println!("processor order {}: parent session finished={} => {}", if g_first {"G-then-release, then hold P"} else {"hold P, then G"}, done, if done {"ok"} else {"DEADLOCK (session thread in invoke holds G wants P; timer thread holds P wants G)"});
    std::process::exit(0);
}
