//! rfsm-facts: rustc_private fact extractor for the /verif static checks.
//!
//! Used as RUSTC_WORKSPACE_WRAPPER under `cargo +nightly check`. For the crate named in
//! RFSM_FACTS_CRATE (default `rufsm`) it writes one JSON fact file (RFSM_FACTS_OUT) holding
//! resolved HIR trees, MIR control-flow graphs with resolved callees, guard-typed locals,
//! the trait-item -> impl-item map, ADT layouts and const initialisers.
//! It never changes the compilation result.
#![feature(rustc_private)]
extern crate rustc_abi;
extern crate rustc_ast;
extern crate rustc_driver;
extern crate rustc_hir;
extern crate rustc_index;
extern crate rustc_interface;
extern crate rustc_middle;
extern crate rustc_span;

use rustc_driver::Compilation;
use rustc_hir as hir;
use rustc_hir::def::{DefKind, Res};
use rustc_hir::def_id::{DefId, LocalDefId};
use rustc_middle::mir::{
    self, AggregateKind, BasicBlock, Body, Local, Operand, Place, ProjectionElem, Rvalue,
    StatementKind, TerminatorKind,
};
use rustc_middle::ty::{self, Ty, TyCtxt, TypeckResults};
use rustc_span::Span;
use std::fmt::Write as _;

// ------------------------------------------------------------------------------------------
// JSON helpers (zero dependencies)
// ------------------------------------------------------------------------------------------

fn esc(s: &str, out: &mut String) {
    out.push('"');
    for c in s.chars() {
        match c {
            '"' => out.push_str("\\\""),
            '\\' => out.push_str("\\\\"),
            '\n' => out.push_str("\\n"),
            '\r' => out.push_str("\\r"),
            '\t' => out.push_str("\\t"),
            c if (c as u32) < 0x20 => {
                let _ = write!(out, "\\u{:04x}", c as u32);
            }
            c => out.push(c),
        }
    }
    out.push('"');
}

fn js(s: &str) -> String {
    let mut o = String::new();
    esc(s, &mut o);
    o
}

fn jlist(items: &[String]) -> String {
    format!("[{}]", items.join(","))
}

// ------------------------------------------------------------------------------------------
// common
// ------------------------------------------------------------------------------------------

fn span_json<'tcx>(tcx: TyCtxt<'tcx>, sp: Span) -> String {
    // [lo, hi, ctxt, line, col, endline, "file", macro-backtrace...]
    let sm = tcx.sess.source_map();
    let cs = sp.source_callsite();
    let l = sm.lookup_char_pos(cs.lo());
    let h = sm.lookup_char_pos(cs.hi());
    let mut macs: Vec<String> = Vec::new();
    if sp.from_expansion() {
        for e in sp.macro_backtrace() {
            match e.kind {
                rustc_span::ExpnKind::Macro(_, name) => macs.push(js(name.as_str())),
                rustc_span::ExpnKind::Desugaring(d) => macs.push(js(&format!("desugar:{:?}", d))),
                rustc_span::ExpnKind::AstPass(_) => macs.push(js("astpass")),
                rustc_span::ExpnKind::Root => {}
            }
        }
    }
    format!(
        "[{},{},{},{},{},{},{},{}]",
        sp.lo().0,
        sp.hi().0,
        js(&format!("{:?}", sp.ctxt())),
        l.line,
        l.col.0,
        h.line,
        js(&format!("{}", l.file.name.prefer_local_unconditionally())),
        jlist(&macs)
    )
}

fn guard_class<'tcx>(tcx: TyCtxt<'tcx>, ty: Ty<'tcx>, depth: usize, through_ref: bool) -> Option<String> {
    if depth > 6 {
        return None;
    }
    match ty.kind() {
        ty::Adt(adt, args) => {
            let p = tcx.def_path_str(adt.did());
            if p.ends_with("MutexGuard") {
                return args.types().next().map(|t| format!("{}", t));
            }
            for a in args.types() {
                if let Some(c) = guard_class(tcx, a, depth + 1, through_ref) {
                    return Some(c);
                }
            }
            None
        }
        ty::Ref(_, t, _) if through_ref => guard_class(tcx, *t, depth + 1, through_ref),
        ty::Tuple(ts) => {
            for t in ts.iter() {
                if let Some(c) = guard_class(tcx, t, depth + 1, through_ref) {
                    return Some(c);
                }
            }
            None
        }
        _ => None,
    }
}

// ------------------------------------------------------------------------------------------
// HIR
// ------------------------------------------------------------------------------------------

struct H<'a, 'tcx> {
    tcx: TyCtxt<'tcx>,
    tr: &'a TypeckResults<'tcx>,
}

impl<'a, 'tcx> H<'a, 'tcx> {
    fn res(&self, r: Res) -> String {
        match r {
            Res::Local(id) => format!(
                "{{\"k\":\"local\",\"b\":{},\"n\":{}}}",
                id.local_id.as_u32(),
                js(self.tcx.hir_name(id).as_str())
            ),
            Res::Def(k, d) => format!(
                "{{\"k\":\"def\",\"dk\":{},\"p\":{}}}",
                js(&format!("{:?}", k)),
                js(&self.tcx.def_path_str(d))
            ),
            Res::SelfCtor(d) | Res::SelfTyAlias { alias_to: d, .. } => {
                format!("{{\"k\":\"def\",\"dk\":\"SelfCtor\",\"p\":{}}}", js(&self.tcx.def_path_str(d)))
            }
            o => format!("{{\"k\":\"res\",\"v\":{}}}", js(&format!("{:?}", o))),
        }
    }

    fn pat(&self, p: &hir::Pat<'tcx>) -> String {
        match p.kind {
            hir::PatKind::Binding(mode, id, ident, sub) => {
                let ty = self.tr.node_type_opt(p.hir_id).map(|t| format!("{}", t)).unwrap_or_default();
                format!(
                    "{{\"k\":\"bind\",\"b\":{},\"n\":{},\"ty\":{},\"byref\":{}{}}}",
                    id.local_id.as_u32(),
                    js(ident.name.as_str()),
                    js(&ty),
                    matches!(mode.0, hir::ByRef::Yes(..)),
                    match sub {
                        Some(s) => format!(",\"sub\":{}", self.pat(s)),
                        None => String::new(),
                    }
                )
            }
            hir::PatKind::TupleStruct(ref q, pats, _) => {
                let r = self.tr.qpath_res(q, p.hir_id);
                let ps: Vec<String> = pats.iter().map(|s| self.pat(s)).collect();
                format!("{{\"k\":\"pts\",\"r\":{},\"a\":{}}}", self.res(r), jlist(&ps))
            }
            hir::PatKind::Tuple(pats, _) => {
                let ps: Vec<String> = pats.iter().map(|s| self.pat(s)).collect();
                format!("{{\"k\":\"ptup\",\"a\":{}}}", jlist(&ps))
            }
            hir::PatKind::Ref(s, ..) => self.pat(s),
            hir::PatKind::Box(s) | hir::PatKind::Deref(s) => self.pat(s),
            hir::PatKind::Expr(pe) => match pe.kind {
                hir::PatExprKind::Lit { lit, negated } => {
                    format!("{{\"k\":\"plit\",\"v\":{},\"neg\":{}}}", js(&format!("{:?}", lit.node)), negated)
                }
                hir::PatExprKind::Path(ref q) => {
                    let r = self.tr.qpath_res(q, pe.hir_id);
                    format!("{{\"k\":\"ppath\",\"r\":{}}}", self.res(r))
                }
                _ => "{\"k\":\"pother\"}".to_string(),
            },
            hir::PatKind::Or(ps) => {
                let ps: Vec<String> = ps.iter().map(|s| self.pat(s)).collect();
                format!("{{\"k\":\"por\",\"a\":{}}}", jlist(&ps))
            }
            hir::PatKind::Wild => "{\"k\":\"wild\"}".to_string(),
            hir::PatKind::Struct(ref q, fields, _) => {
                let r = self.tr.qpath_res(q, p.hir_id);
                let fs: Vec<String> = fields
                    .iter()
                    .map(|f| format!("[{},{}]", js(f.ident.name.as_str()), self.pat(f.pat)))
                    .collect();
                format!("{{\"k\":\"pstruct\",\"r\":{},\"f\":{}}}", self.res(r), jlist(&fs))
            }
            hir::PatKind::Range(..) => "{\"k\":\"prange\"}".to_string(),
            hir::PatKind::Slice(a, m, b) => {
                let mut ps: Vec<String> = a.iter().map(|s| self.pat(s)).collect();
                if let Some(m) = m {
                    ps.push(self.pat(m));
                }
                ps.extend(b.iter().map(|s| self.pat(s)));
                format!("{{\"k\":\"pslice\",\"a\":{}}}", jlist(&ps))
            }
            _ => "{\"k\":\"pother\"}".to_string(),
        }
    }

    fn block(&self, b: &hir::Block<'tcx>) -> String {
        let mut items: Vec<String> = Vec::new();
        for s in b.stmts {
            match s.kind {
                hir::StmtKind::Let(l) => {
                    let mut o = format!("{{\"k\":\"let\",\"pat\":{}", self.pat(l.pat));
                    if let Some(i) = l.init {
                        let _ = write!(o, ",\"init\":{}", self.expr(i));
                    }
                    if let Some(e) = l.els {
                        let _ = write!(o, ",\"els\":{}", self.block(e));
                    }
                    let _ = write!(o, ",\"s\":{}}}", span_json(self.tcx, s.span));
                    items.push(o);
                }
                hir::StmtKind::Expr(e) => items.push(self.expr(e)),
                hir::StmtKind::Semi(e) => items.push(self.expr(e)),
                hir::StmtKind::Item(_) => {}
            }
        }
        let tail = match b.expr {
            Some(e) => format!(",\"tail\":{}", self.expr(e)),
            None => String::new(),
        };
        format!("{{\"k\":\"block\",\"st\":{}{},\"s\":{}}}", jlist(&items), tail, span_json(self.tcx, b.span))
    }

    fn exprs(&self, es: &[hir::Expr<'tcx>]) -> String {
        let v: Vec<String> = es.iter().map(|e| self.expr(e)).collect();
        jlist(&v)
    }

    fn expr(&self, e: &hir::Expr<'tcx>) -> String {
        let sp = span_json(self.tcx, e.span);
        let ty = || self.tr.expr_ty_opt(e).map(|t| format!("{}", t)).unwrap_or_default();
        let aty = || self.tr.expr_ty_adjusted_opt(e).map(|t| format!("{}", t)).unwrap_or_default();
        match e.kind {
            hir::ExprKind::Call(f, args) => {
                // resolved callee path if f is a path to a fn
                let callee = if let hir::ExprKind::Path(ref q) = f.kind {
                    match self.tr.qpath_res(q, f.hir_id) {
                        Res::Def(_, d) => Some(self.tcx.def_path_str(d)),
                        Res::SelfCtor(d) => Some(self.tcx.def_path_str(d)),
                        _ => None,
                    }
                } else {
                    None
                };
                format!(
                    "{{\"k\":\"call\",\"p\":{},\"f\":{},\"a\":{},\"ty\":{},\"s\":{}}}",
                    callee.map(|c| js(&c)).unwrap_or("null".to_string()),
                    self.expr(f),
                    self.exprs(args),
                    js(&ty()),
                    sp
                )
            }
            hir::ExprKind::MethodCall(seg, recv, args, fsp) => {
                let d = self
                    .tr
                    .type_dependent_def_id(e.hir_id)
                    .map(|d| self.tcx.def_path_str(d))
                    .unwrap_or(format!("?{}", seg.ident.name));
                let rty = self.tr.expr_ty_adjusted_opt(recv).map(|t| format!("{}", t)).unwrap_or_default();
                format!(
                    "{{\"k\":\"mcall\",\"p\":{},\"m\":{},\"r\":{},\"rty\":{},\"a\":{},\"ty\":{},\"s\":{},\"fs\":{}}}",
                    js(&d),
                    js(seg.ident.name.as_str()),
                    self.expr(recv),
                    js(&rty),
                    self.exprs(args),
                    js(&ty()),
                    sp,
                    span_json(self.tcx, fsp)
                )
            }
            hir::ExprKind::Path(ref q) => {
                let r = self.tr.qpath_res(q, e.hir_id);
                format!("{{\"k\":\"path\",\"r\":{},\"ty\":{},\"s\":{}}}", self.res(r), js(&ty()), sp)
            }
            hir::ExprKind::Field(b, id) => format!(
                "{{\"k\":\"field\",\"e\":{},\"n\":{},\"bty\":{},\"ty\":{},\"s\":{}}}",
                self.expr(b),
                js(id.name.as_str()),
                js(&self.tr.expr_ty_adjusted_opt(b).map(|t| format!("{}", t)).unwrap_or_default()),
                js(&ty()),
                sp
            ),
            hir::ExprKind::AddrOf(_, m, i) => format!(
                "{{\"k\":\"ref\",\"mut\":{},\"e\":{},\"s\":{}}}",
                matches!(m, hir::Mutability::Mut),
                self.expr(i),
                sp
            ),
            hir::ExprKind::Unary(op, i) => {
                let d = self.tr.type_dependent_def_id(e.hir_id).map(|d| self.tcx.def_path_str(d));
                format!(
                    "{{\"k\":\"un\",\"op\":{},\"e\":{},\"p\":{},\"ty\":{},\"s\":{}}}",
                    js(&format!("{:?}", op)),
                    self.expr(i),
                    d.map(|d| js(&d)).unwrap_or("null".into()),
                    js(&ty()),
                    sp
                )
            }
            hir::ExprKind::Binary(op, a, b) => {
                let d = self.tr.type_dependent_def_id(e.hir_id).map(|d| self.tcx.def_path_str(d));
                format!(
                    "{{\"k\":\"bin\",\"op\":{},\"l\":{},\"r\":{},\"p\":{},\"lty\":{},\"ty\":{},\"s\":{}}}",
                    js(&format!("{:?}", op.node)),
                    self.expr(a),
                    self.expr(b),
                    d.map(|d| js(&d)).unwrap_or("null".into()),
                    js(&self.tr.expr_ty_opt(a).map(|t| format!("{}", t)).unwrap_or_default()),
                    js(&ty()),
                    sp
                )
            }
            hir::ExprKind::Lit(l) => {
                let v = match l.node {
                    rustc_ast::LitKind::Str(s, _) => format!("{{\"str\":{}}}", js(s.as_str())),
                    rustc_ast::LitKind::Int(n, _) => format!("{{\"int\":{}}}", js(&format!("{}", n.get()))),
                    rustc_ast::LitKind::Bool(b) => format!("{{\"bool\":{}}}", b),
                    rustc_ast::LitKind::Char(c) => format!("{{\"char\":{}}}", js(&c.to_string())),
                    rustc_ast::LitKind::Byte(b) => format!("{{\"int\":{}}}", js(&format!("{}", b))),
                    rustc_ast::LitKind::Float(s, _) => format!("{{\"float\":{}}}", js(s.as_str())),
                    ref o => format!("{{\"other\":{}}}", js(&format!("{:?}", o))),
                };
                format!("{{\"k\":\"lit\",\"v\":{},\"ty\":{},\"s\":{}}}", v, js(&ty()), sp)
            }
            hir::ExprKind::If(c, t, el) => {
                let mut o = format!("{{\"k\":\"if\",\"c\":{},\"t\":{}", self.expr(c), self.expr(t));
                if let Some(x) = el {
                    let _ = write!(o, ",\"e\":{}", self.expr(x));
                }
                let _ = write!(o, ",\"s\":{}}}", sp);
                o
            }
            hir::ExprKind::Match(s, arms, src) => {
                let av: Vec<String> = arms
                    .iter()
                    .map(|a| {
                        let mut o = format!("{{\"pat\":{}", self.pat(a.pat));
                        if let Some(g) = a.guard {
                            let _ = write!(o, ",\"guard\":{}", self.expr(g));
                        }
                        let _ = write!(o, ",\"body\":{},\"s\":{}}}", self.expr(a.body), span_json(self.tcx, a.span));
                        o
                    })
                    .collect();
                format!(
                    "{{\"k\":\"match\",\"src\":{},\"e\":{},\"arms\":{},\"ty\":{},\"s\":{}}}",
                    js(&format!("{:?}", src)),
                    self.expr(s),
                    jlist(&av),
                    js(&ty()),
                    sp
                )
            }
            hir::ExprKind::Loop(b, label, src, _) => format!(
                "{{\"k\":\"loop\",\"src\":{},\"label\":{},\"id\":{},\"body\":{},\"s\":{}}}",
                js(&format!("{:?}", src)),
                label.map(|l| js(l.ident.name.as_str())).unwrap_or("null".into()),
                e.hir_id.local_id.as_u32(),
                self.block(b),
                sp
            ),
            hir::ExprKind::Block(b, label) => {
                if let Some(l) = label {
                    format!(
                        "{{\"k\":\"lblock\",\"label\":{},\"id\":{},\"body\":{},\"s\":{}}}",
                        js(l.ident.name.as_str()),
                        e.hir_id.local_id.as_u32(),
                        self.block(b),
                        sp
                    )
                } else {
                    self.block(b)
                }
            }
            hir::ExprKind::Assign(l, r, _) => {
                format!("{{\"k\":\"assign\",\"l\":{},\"r\":{},\"s\":{}}}", self.expr(l), self.expr(r), sp)
            }
            hir::ExprKind::AssignOp(op, l, r) => format!(
                "{{\"k\":\"assignop\",\"op\":{},\"l\":{},\"r\":{},\"s\":{}}}",
                js(&format!("{:?}", op.node)),
                self.expr(l),
                self.expr(r),
                sp
            ),
            hir::ExprKind::Closure(c) => {
                let body = self.tcx.hir_body(c.body);
                let ps: Vec<String> = body.params.iter().map(|p| self.pat(p.pat)).collect();
                // typeck results of a closure are those of its parent body
                format!(
                    "{{\"k\":\"closure\",\"p\":{},\"params\":{},\"body\":{},\"move\":{},\"s\":{}}}",
                    js(&self.tcx.def_path_str(c.def_id.to_def_id())),
                    jlist(&ps),
                    self.expr(body.value),
                    matches!(c.capture_clause, hir::CaptureBy::Value { .. }),
                    sp
                )
            }
            hir::ExprKind::Ret(v) => match v {
                Some(v) => format!("{{\"k\":\"ret\",\"e\":{},\"s\":{}}}", self.expr(v), sp),
                None => format!("{{\"k\":\"ret\",\"s\":{}}}", sp),
            },
            hir::ExprKind::Break(dest, v) => {
                let tgt = dest.target_id.ok().map(|h| h.local_id.as_u32().to_string()).unwrap_or("null".into());
                match v {
                    Some(v) => format!("{{\"k\":\"break\",\"to\":{},\"e\":{},\"s\":{}}}", tgt, self.expr(v), sp),
                    None => format!("{{\"k\":\"break\",\"to\":{},\"s\":{}}}", tgt, sp),
                }
            }
            hir::ExprKind::Continue(dest) => {
                let tgt = dest.target_id.ok().map(|h| h.local_id.as_u32().to_string()).unwrap_or("null".into());
                format!("{{\"k\":\"continue\",\"to\":{},\"s\":{}}}", tgt, sp)
            }
            hir::ExprKind::DropTemps(i) => self.expr(i),
            hir::ExprKind::Use(i, _) => self.expr(i),
            hir::ExprKind::Cast(i, _) => format!(
                "{{\"k\":\"cast\",\"e\":{},\"from\":{},\"ty\":{},\"s\":{}}}",
                self.expr(i),
                js(&self.tr.expr_ty_opt(i).map(|t| format!("{}", t)).unwrap_or_default()),
                js(&ty()),
                sp
            ),
            hir::ExprKind::Type(i, _) => self.expr(i),
            hir::ExprKind::Index(a, b, _) => format!(
                "{{\"k\":\"index\",\"e\":{},\"i\":{},\"bty\":{},\"ity\":{},\"ty\":{},\"s\":{}}}",
                self.expr(a),
                self.expr(b),
                js(&self.tr.expr_ty_adjusted_opt(a).map(|t| format!("{}", t)).unwrap_or_default()),
                js(&self.tr.expr_ty_opt(b).map(|t| format!("{}", t)).unwrap_or_default()),
                js(&ty()),
                sp
            ),
            hir::ExprKind::Struct(q, fields, base) => {
                let r = self.tr.qpath_res(q, e.hir_id);
                let fs: Vec<String> = fields
                    .iter()
                    .map(|f| format!("[{},{}]", js(f.ident.name.as_str()), self.expr(f.expr)))
                    .collect();
                let b = match base {
                    hir::StructTailExpr::Base(b) => format!(",\"base\":{}", self.expr(b)),
                    _ => String::new(),
                };
                format!(
                    "{{\"k\":\"struct\",\"r\":{},\"f\":{}{},\"ty\":{},\"s\":{}}}",
                    self.res(r),
                    jlist(&fs),
                    b,
                    js(&ty()),
                    sp
                )
            }
            hir::ExprKind::Tup(es) => format!("{{\"k\":\"tup\",\"a\":{},\"s\":{}}}", self.exprs(es), sp),
            hir::ExprKind::Array(es) => format!("{{\"k\":\"array\",\"a\":{},\"s\":{}}}", self.exprs(es), sp),
            hir::ExprKind::Repeat(v, _) => format!("{{\"k\":\"repeat\",\"e\":{},\"s\":{}}}", self.expr(v), sp),
            hir::ExprKind::Let(l) => format!(
                "{{\"k\":\"letx\",\"pat\":{},\"init\":{},\"s\":{}}}",
                self.pat(l.pat),
                self.expr(l.init),
                sp
            ),
            hir::ExprKind::ConstBlock(_) => format!("{{\"k\":\"other\",\"w\":\"constblock\",\"s\":{}}}", sp),
            hir::ExprKind::Become(i) => format!("{{\"k\":\"ret\",\"e\":{},\"s\":{}}}", self.expr(i), sp),
            hir::ExprKind::Yield(i, _) => format!("{{\"k\":\"yield\",\"e\":{},\"s\":{}}}", self.expr(i), sp),
            _ => {
                let _ = aty;
                format!("{{\"k\":\"other\",\"s\":{}}}", sp)
            }
        }
    }
}

// ------------------------------------------------------------------------------------------
// MIR
// ------------------------------------------------------------------------------------------

struct M<'a, 'tcx> {
    tcx: TyCtxt<'tcx>,
    body: &'a Body<'tcx>,
    did: DefId,
}

impl<'a, 'tcx> M<'a, 'tcx> {
    fn place(&self, p: &Place<'tcx>) -> String {
        let mut parts: Vec<String> = vec![format!("{}", p.local.as_usize())];
        let mut pty = mir::PlaceTy::from_ty(self.body.local_decls[p.local].ty);
        for elem in p.projection.iter() {
            let s = match elem {
                ProjectionElem::Deref => "*".to_string(),
                ProjectionElem::Field(f, _) => {
                    let name = match pty.ty.kind() {
                        ty::Adt(adt, _) => {
                            let v = match pty.variant_index {
                                Some(vi) => adt.variant(vi),
                                None => {
                                    if adt.is_enum() {
                                        // field of enum without downcast cannot happen
                                        adt.variant(rustc_abi::VariantIdx::from_usize(0))
                                    } else {
                                        adt.non_enum_variant()
                                    }
                                }
                            };
                            let owner = self.tcx.def_path_str(adt.did());
                            v.fields
                                .get(f)
                                .map(|fd| format!(".{}#{}", fd.name, owner))
                                .unwrap_or(format!(".{}", f.as_usize()))
                        }
                        _ => format!(".{}", f.as_usize()),
                    };
                    name
                }
                ProjectionElem::Index(l) => format!("[_{}]", l.as_usize()),
                ProjectionElem::ConstantIndex { offset, .. } => format!("[c{}]", offset),
                ProjectionElem::Subslice { .. } => "[..]".to_string(),
                ProjectionElem::Downcast(name, vi) => {
                    format!("as:{}", name.map(|n| n.to_string()).unwrap_or(format!("{}", vi.as_usize())))
                }
                _ => "?".to_string(),
            };
            parts.push(s);
            pty = pty.projection_ty(self.tcx, elem);
        }
        if parts.len() == 1 {
            parts[0].clone()
        } else {
            let head = parts[0].clone();
            let rest: Vec<String> = parts[1..].iter().map(|s| js(s)).collect();
            format!("[{},{}]", head, rest.join(","))
        }
    }

    fn operand(&self, o: &Operand<'tcx>) -> String {
        match o {
            Operand::Copy(p) => format!("{{\"cp\":{}}}", self.place(p)),
            Operand::Move(p) => format!("{{\"mv\":{}}}", self.place(p)),
            Operand::Constant(c) => {
                let cty = c.const_.ty();
                let mut extra = String::new();
                if let ty::FnDef(d, _) = cty.kind() {
                    extra = format!(",\"fn\":{}", js(&self.tcx.def_path_str(*d)));
                }
                if let ty::Closure(d, _) = cty.kind() {
                    extra = format!(",\"closure\":{}", js(&self.tcx.def_path_str(*d)));
                }
                // small scalar value
                let mut val = String::new();
                if cty.is_integral() || cty.is_bool() || cty.is_char() {
                    let env = ty::TypingEnv::post_analysis(self.tcx, self.did);
                    if let Some(s) = c.const_.try_eval_scalar_int(self.tcx, env) {
                        let size = s.size();
                        let v: u128 = s.to_bits(size);
                        if cty.is_signed() {
                            let bits = size.bits();
                            let sv: i128 = if bits == 128 { v as i128 } else {
                                let shift = 128 - bits as u32;
                                ((v << shift) as i128) >> shift
                            };
                            val = format!(",\"v\":{}", js(&format!("{}", sv)));
                        } else {
                            val = format!(",\"v\":{}", js(&format!("{}", v)));
                        }
                    }
                }
                format!("{{\"c\":{},\"ty\":{}{}{}}}", js(&format!("{}", c.const_)), js(&format!("{}", cty)), extra, val)
            }
            #[allow(unreachable_patterns)]
            _ => "{\"c\":\"?\"}".to_string(),
        }
    }

    /// Closures / fn items whose reference was coerced (`&{closure}` -> `&dyn Fn(..)`) or copied into `local`.
    fn dyn_closure_of(&self, body: &mir::Body<'tcx>, local: Local, depth: u32) -> Vec<String> {
        let tcx = self.tcx;
        let mut out: Vec<String> = Vec::new();
        if depth == 0 {
            return out;
        }
        let name_of = |t: ty::Ty<'tcx>| -> Option<String> {
            let mut t = t;
            while let ty::Ref(_, i, _) = t.kind() {
                t = *i;
            }
            match t.kind() {
                ty::Closure(d, _) => Some(tcx.def_path_str(*d)),
                ty::FnDef(d, _) => Some(tcx.def_path_str(*d)),
                _ => None,
            }
        };
        for data in body.basic_blocks.iter() {
            for st in &data.statements {
                if let StatementKind::Assign(b) = &st.kind {
                    let (place, rv) = &**b;
                    if place.local != local || !place.projection.is_empty() {
                        continue;
                    }
                    let src: Option<&mir::Operand<'tcx>> = match rv {
                        Rvalue::Cast(_, o, _) => Some(o),
                        Rvalue::Use(o, ..) => Some(o),
                        _ => None,
                    };
                    if let Some(o) = src {
                        if let Some(n) = name_of(o.ty(&body.local_decls, tcx)) {
                            out.push(n);
                        } else if let Some(p) = o.place() {
                            if p.projection.is_empty() {
                                out.extend(self.dyn_closure_of(body, p.local, depth - 1));
                            }
                        }
                    }
                    if let Rvalue::Ref(_, _, p) = rv {
                        if let Some(n) = name_of(p.ty(&body.local_decls, tcx).ty) {
                            out.push(n);
                        }
                    }
                }
            }
        }
        out
    }

    fn rvalue(&self, rv: &Rvalue<'tcx>) -> String {
        match rv {
            Rvalue::Use(o, ..) => format!("{{\"k\":\"use\",\"ops\":[{}]}}", self.operand(o)),
            Rvalue::Ref(_, bk, p) => format!(
                "{{\"k\":\"ref\",\"mut\":{},\"p\":{}}}",
                matches!(bk, mir::BorrowKind::Mut { .. }),
                self.place(p)
            ),
            Rvalue::RawPtr(_, p) => format!("{{\"k\":\"rawptr\",\"p\":{}}}", self.place(p)),
            Rvalue::Cast(ck, o, t) => format!(
                "{{\"k\":\"cast\",\"ck\":{},\"ops\":[{}],\"ty\":{}}}",
                js(&format!("{:?}", ck)),
                self.operand(o),
                js(&format!("{}", t))
            ),
            Rvalue::BinaryOp(op, b) => {
                let (l, r) = &**b;
                format!("{{\"k\":\"bin\",\"op\":{},\"ops\":[{},{}]}}", js(&format!("{:?}", op)), self.operand(l), self.operand(r))
            }
            Rvalue::UnaryOp(op, o) => {
                format!("{{\"k\":\"un\",\"op\":{},\"ops\":[{}]}}", js(&format!("{:?}", op)), self.operand(o))
            }
            Rvalue::Discriminant(p) => format!("{{\"k\":\"disc\",\"p\":{}}}", self.place(p)),
            Rvalue::Aggregate(kind, fields) => {
                let ops: Vec<String> = fields.iter().map(|o| self.operand(o)).collect();
                let (what, name) = match &**kind {
                    AggregateKind::Adt(d, vi, _, _, _) => {
                        let adt = self.tcx.adt_def(*d);
                        let v = adt.variant(*vi);
                        ("adt", format!("{}::{}", self.tcx.def_path_str(*d), v.name))
                    }
                    AggregateKind::Closure(d, _) => ("closure", self.tcx.def_path_str(*d)),
                    AggregateKind::Tuple => ("tuple", String::new()),
                    AggregateKind::Array(_) => ("array", String::new()),
                    _ => ("other", String::new()),
                };
                format!("{{\"k\":\"agg\",\"what\":{},\"name\":{},\"ops\":{}}}", js(what), js(&name), jlist(&ops))
            }
            Rvalue::Repeat(o, _) => format!("{{\"k\":\"repeat\",\"ops\":[{}]}}", self.operand(o)),
            Rvalue::CopyForDeref(p) => format!("{{\"k\":\"use\",\"ops\":[{{\"cp\":{}}}]}}", self.place(p)),
            Rvalue::ThreadLocalRef(d) => format!("{{\"k\":\"tls\",\"p\":{}}}", js(&self.tcx.def_path_str(*d))),
            _ => "{\"k\":\"other\"}".to_string(),
        }
    }

    fn emit(&self, out: &mut String) {
        let tcx = self.tcx;
        let body = self.body;
        // locals
        let mut names: Vec<Option<String>> = vec![None; body.local_decls.len()];
        for vdi in &body.var_debug_info {
            if let mir::VarDebugInfoContents::Place(p) = &vdi.value {
                if p.projection.is_empty() {
                    names[p.local.as_usize()] = Some(vdi.name.to_string());
                }
            }
        }
        out.push_str("\"locals\":[");
        for (i, (l, d)) in body.local_decls.iter_enumerated().enumerate() {
            if i > 0 {
                out.push(',');
            }
            let g = guard_class(tcx, d.ty, 0, false);
            let gr = guard_class(tcx, d.ty, 0, true);
            let _ = write!(
                out,
                "{{\"ty\":{},\"n\":{},\"g\":{},\"gr\":{}}}",
                js(&format!("{}", d.ty)),
                names[l.as_usize()].as_ref().map(|n| js(n)).unwrap_or("null".into()),
                g.map(|g| js(&g)).unwrap_or("null".into()),
                gr.map(|g| js(&g)).unwrap_or("null".into())
            );
        }
        let _ = write!(out, "],\"argc\":{},", body.arg_count);
        // upvar guard classes (closures)
        let mut up: Vec<String> = Vec::new();
        if body.local_decls.len() > 1 {
            let t = body.local_decls[Local::from_usize(1)].ty;
            let ct = match t.kind() {
                ty::Ref(_, inner, _) => *inner,
                _ => t,
            };
            if let ty::Closure(_, cargs) = ct.kind() {
                if tcx.def_kind(self.did) == DefKind::Closure {
                    for ut in cargs.as_closure().upvar_tys() {
                        up.push(format!(
                            "{{\"ty\":{},\"gr\":{}}}",
                            js(&format!("{}", ut)),
                            guard_class(tcx, ut, 0, true).map(|g| js(&g)).unwrap_or("null".into())
                        ));
                    }
                }
            }
        }
        let _ = write!(out, "\"upvars\":{},", jlist(&up));
        out.push_str("\"blocks\":[");
        for (bi, (_bb, data)) in body.basic_blocks.iter_enumerated().enumerate() {
            if bi > 0 {
                out.push(',');
            }
            out.push_str("{\"st\":[");
            let mut first = true;
            for st in &data.statements {
                let s = match &st.kind {
                    StatementKind::Assign(b) => {
                        let (place, rv) = &**b;
                        Some(format!(
                            "{{\"k\":\"assign\",\"d\":{},\"rv\":{},\"s\":{}}}",
                            self.place(place),
                            self.rvalue(rv),
                            span_json(tcx, st.source_info.span)
                        ))
                    }
                    StatementKind::StorageDead(l) => Some(format!("{{\"k\":\"dead\",\"l\":{}}}", l.as_usize())),
                    StatementKind::SetDiscriminant { place, variant_index } => Some(format!(
                        "{{\"k\":\"setdisc\",\"d\":{},\"v\":{}}}",
                        self.place(place),
                        variant_index.as_usize()
                    )),
                    _ => None,
                };
                if let Some(s) = s {
                    if !first {
                        out.push(',');
                    }
                    first = false;
                    out.push_str(&s);
                }
            }
            let _ = write!(out, "],\"cleanup\":{},\"t\":", data.is_cleanup);
            let term = data.terminator();
            let tsp = span_json(tcx, term.source_info.span);
            let bbn = |b: &BasicBlock| b.as_usize().to_string();
            let unw = |u: &mir::UnwindAction| match u {
                mir::UnwindAction::Cleanup(b) => b.as_usize().to_string(),
                _ => "null".to_string(),
            };
            let t = match &term.kind {
                TerminatorKind::Goto { target } => format!("{{\"k\":\"goto\",\"t\":{}}}", bbn(target)),
                TerminatorKind::SwitchInt { discr, targets } => {
                    let vals: Vec<String> =
                        targets.iter().map(|(v, b)| format!("[{},{}]", js(&format!("{}", v)), b.as_usize())).collect();
                    format!(
                        "{{\"k\":\"switch\",\"op\":{},\"vals\":{},\"else\":{},\"s\":{}}}",
                        self.operand(discr),
                        jlist(&vals),
                        targets.otherwise().as_usize(),
                        tsp
                    )
                }
                TerminatorKind::Return => "{\"k\":\"ret\"}".to_string(),
                TerminatorKind::Unreachable => "{\"k\":\"unreachable\"}".to_string(),
                TerminatorKind::UnwindResume => "{\"k\":\"resume\"}".to_string(),
                TerminatorKind::UnwindTerminate(_) => "{\"k\":\"abort\"}".to_string(),
                TerminatorKind::Drop { place, target, unwind, .. } => format!(
                    "{{\"k\":\"drop\",\"p\":{},\"ty\":{},\"t\":{},\"u\":{},\"s\":{}}}",
                    self.place(place),
                    js(&format!("{}", place.ty(&body.local_decls, tcx).ty)),
                    bbn(target),
                    unw(unwind),
                    tsp
                ),
                TerminatorKind::Assert { cond, expected, msg, target, unwind } => {
                    let kind = match &**msg {
                        mir::AssertKind::BoundsCheck { .. } => "bounds".to_string(),
                        mir::AssertKind::Overflow(op, ..) => format!("overflow:{:?}", op),
                        mir::AssertKind::OverflowNeg(_) => "overflow:Neg".to_string(),
                        mir::AssertKind::DivisionByZero(_) => "divzero".to_string(),
                        mir::AssertKind::RemainderByZero(_) => "remzero".to_string(),
                        mir::AssertKind::MisalignedPointerDereference { .. } => "misaligned".to_string(),
                        mir::AssertKind::NullPointerDereference => "nullptr".to_string(),
                        _ => "other".to_string(),
                    };
                    format!(
                        "{{\"k\":\"assert\",\"cond\":{},\"exp\":{},\"msg\":{},\"t\":{},\"u\":{},\"s\":{}}}",
                        self.operand(cond),
                        expected,
                        js(&kind),
                        bbn(target),
                        unw(unwind),
                        tsp
                    )
                }
                TerminatorKind::Call { func, args, destination, target, unwind, fn_span, .. } => {
                    let fty = func.ty(&body.local_decls, tcx);
                    let mut clos: Vec<String> = Vec::new();
                    let mut argtys: Vec<String> = Vec::new();
                    for a in args.iter() {
                        let at0 = a.node.ty(&body.local_decls, tcx);
                        argtys.push(js(&format!("{}", at0)));
                        let at = match at0.kind() {
                            ty::Ref(_, i, _) => *i,
                            _ => at0,
                        };
                        if let ty::Closure(cd, _) = at.kind() {
                            clos.push(js(&tcx.def_path_str(*cd)));
                        }
                        if let ty::FnDef(fd, _) = at.kind() {
                            clos.push(js(&tcx.def_path_str(*fd)));
                        }
                        // `f(&|x| ..)` where f takes `&dyn Fn(..)`: the closure reference was unsize-coerced into a local first
                        if let ty::Dynamic(..) = at.kind() {
                            if let Some(p) = a.node.place() {
                                if p.projection.is_empty() {
                                    for c in self.dyn_closure_of(body, p.local, 4) {
                                        let c = js(&c);
                                        if !clos.contains(&c) {
                                            clos.push(c);
                                        }
                                    }
                                }
                            }
                        }
                    }
                    let ops: Vec<String> = args.iter().map(|a| self.operand(&a.node)).collect();
                    let (name, raw, disp, targs, diverges) = if let ty::FnDef(cdid, cargs) = fty.kind() {
                        let typing_env = ty::TypingEnv::post_analysis(tcx, self.did);
                        let resolved = ty::Instance::try_resolve(tcx, typing_env, *cdid, cargs).ok().flatten();
                        let (name, disp) = match resolved {
                            Some(i) => match i.def {
                                ty::InstanceKind::Virtual(d, _) => (tcx.def_path_str(d), "dyn"),
                                _ => (tcx.def_path_str(i.def_id()), "static"),
                            },
                            None => (tcx.def_path_str(*cdid), "unresolved"),
                        };
                        let raw = tcx.def_path_str(*cdid);
                        let ta: Vec<String> = cargs.types().map(|t| js(&format!("{}", t))).collect();
                        let sig = tcx.fn_sig(*cdid).instantiate_identity().skip_binder();
                        let div = sig.output().is_never();
                        (name, raw, disp, ta, div)
                    } else {
                        (format!("<indirect:{}>", fty), String::new(), "indirect", Vec::new(), false)
                    };
                    format!(
                        "{{\"k\":\"call\",\"f\":{},\"raw\":{},\"disp\":{},\"targs\":{},\"args\":{},\"argtys\":{},\"d\":{},\"dty\":{},\"t\":{},\"u\":{},\"clos\":{},\"div\":{},\"s\":{},\"fs\":{}}}",
                        js(&name),
                        js(&raw),
                        js(disp),
                        jlist(&targs),
                        jlist(&ops),
                        jlist(&argtys),
                        self.place(destination),
                        js(&format!("{}", destination.ty(&body.local_decls, tcx).ty)),
                        target.as_ref().map(|t| bbn(t)).unwrap_or("null".into()),
                        unw(unwind),
                        jlist(&clos),
                        diverges,
                        tsp,
                        span_json(tcx, *fn_span)
                    )
                }
                TerminatorKind::FalseEdge { real_target, .. } => format!("{{\"k\":\"goto\",\"t\":{}}}", bbn(real_target)),
                TerminatorKind::FalseUnwind { real_target, .. } => format!("{{\"k\":\"goto\",\"t\":{}}}", bbn(real_target)),
                TerminatorKind::Yield { resume, .. } => format!("{{\"k\":\"goto\",\"t\":{},\"yield\":true}}", bbn(resume)),
                TerminatorKind::CoroutineDrop => "{\"k\":\"ret\"}".to_string(),
                TerminatorKind::InlineAsm { .. } => "{\"k\":\"unreachable\"}".to_string(),
                TerminatorKind::TailCall { .. } => "{\"k\":\"ret\"}".to_string(),
            };
            out.push_str(&t);
            out.push('}');
        }
        out.push(']');
    }
}

// ------------------------------------------------------------------------------------------
// driver
// ------------------------------------------------------------------------------------------

struct Cb;

fn impl_info<'tcx>(tcx: TyCtxt<'tcx>, did: DefId) -> (String, String) {
    // (self type, trait) of the impl a method belongs to
    let mut cur = did;
    loop {
        match tcx.opt_parent(cur) {
            Some(p) => {
                if let DefKind::Impl { .. } = tcx.def_kind(p) {
                    let self_ty = format!("{}", tcx.type_of(p).instantiate_identity().skip_norm_wip());
                    let tr = tcx
                        .impl_opt_trait_ref(p)
                        .map(|t| tcx.def_path_str(t.skip_binder().def_id))
                        .unwrap_or_default();
                    return (self_ty, tr);
                }
                if let DefKind::Trait = tcx.def_kind(p) {
                    return (String::new(), tcx.def_path_str(p));
                }
                if matches!(tcx.def_kind(p), DefKind::Mod) {
                    return (String::new(), String::new());
                }
                cur = p;
            }
            None => return (String::new(), String::new()),
        }
    }
}

impl rustc_driver::Callbacks for Cb {
    fn after_analysis<'tcx>(&mut self, _c: &rustc_interface::interface::Compiler, tcx: TyCtxt<'tcx>) -> Compilation {
        let want = std::env::var("RFSM_FACTS_CRATE").unwrap_or("rufsm".into());
        let crate_name = tcx.crate_name(rustc_hir::def_id::LOCAL_CRATE).to_string();
        let wants: Vec<&str> = want.split(',').collect();
        if !wants.iter().any(|w| *w == crate_name) {
            return Compilation::Continue;
        }
        let outdir = match std::env::var("RFSM_FACTS_OUT") {
            Ok(o) => o,
            Err(_) => return Compilation::Continue,
        };
        let mut out = String::with_capacity(32 << 20);
        let _ = write!(out, "{{\"crate\":{},\n", js(&crate_name));

        // ---- trait item -> impl items
        out.push_str("\"impls\":[");
        let mut first = true;
        for trait_did in tcx.all_traits_including_private() {
            if !trait_did.is_local() {
                continue;
            }
            for impl_did in tcx.all_impls(trait_did) {
                if !impl_did.is_local() {
                    continue;
                }
                for item in tcx.associated_items(impl_did).in_definition_order() {
                    if let Some(t) = item.trait_item_def_id() {
                        if !first {
                            out.push(',');
                        }
                        first = false;
                        let _ = write!(out, "[{},{}]", js(&tcx.def_path_str(t)), js(&tcx.def_path_str(item.def_id)));
                    }
                }
            }
            for item in tcx.associated_items(trait_did).in_definition_order() {
                if item.defaultness(tcx).has_value() && matches!(item.kind, ty::AssocKind::Fn { .. }) {
                    if !first {
                        out.push(',');
                    }
                    first = false;
                    let _ = write!(out, "[{},{}]", js(&tcx.def_path_str(item.def_id)), js(&tcx.def_path_str(item.def_id)));
                }
            }
        }
        out.push_str("],\n");

        // ---- ADTs
        out.push_str("\"types\":[");
        let mut first = true;
        for id in tcx.hir_free_items() {
            let did = id.owner_id.to_def_id();
            let kind = tcx.def_kind(did);
            if !matches!(kind, DefKind::Struct | DefKind::Enum) {
                continue;
            }
            let adt = tcx.adt_def(did);
            if !first {
                out.push(',');
            }
            first = false;
            let _ = write!(out, "{{\"p\":{},\"kind\":{},\"variants\":[", js(&tcx.def_path_str(did)), js(&format!("{:?}", kind)));
            for (vi, v) in adt.variants().iter_enumerated() {
                if vi.as_usize() > 0 {
                    out.push(',');
                }
                let discr = if adt.is_enum() {
                    format!("{}", adt.discriminant_for_variant(tcx, vi).val)
                } else {
                    "0".to_string()
                };
                let fs: Vec<String> = v
                    .fields
                    .iter()
                    .map(|f| {
                        format!(
                            "[{},{}]",
                            js(f.name.as_str()),
                            js(&format!("{}", tcx.type_of(f.did).instantiate_identity().skip_norm_wip()))
                        )
                    })
                    .collect();
                let _ = write!(out, "{{\"n\":{},\"discr\":{},\"f\":{}}}", js(v.name.as_str()), js(&discr), jlist(&fs));
            }
            out.push_str("]}");
        }
        out.push_str("],\n");

        // ---- bodies
        out.push_str("\"fns\":[");
        let mut first = true;
        let mut consts: Vec<String> = Vec::new();
        for ldid in tcx.hir_body_owners() {
            let ldid: LocalDefId = ldid;
            let did = ldid.to_def_id();
            let kind = tcx.def_kind(did);
            match kind {
                DefKind::Const { .. } | DefKind::Static { .. } | DefKind::AssocConst { .. } => {
                    let body = tcx.hir_body_owned_by(ldid);
                    let tr = tcx.typeck(ldid);
                    let h = H { tcx, tr };
                    consts.push(format!(
                        "{{\"p\":{},\"kind\":{},\"ty\":{},\"init\":{}}}",
                        js(&tcx.def_path_str(did)),
                        js(&format!("{:?}", kind)),
                        js(&format!("{}", tcx.type_of(did).instantiate_identity().skip_norm_wip())),
                        h.expr(body.value)
                    ));
                    continue;
                }
                DefKind::Fn | DefKind::AssocFn | DefKind::Closure => {}
                _ => continue,
            }
            if !first {
                out.push_str(",\n");
            }
            first = false;
            let path = tcx.def_path_str(did);
            let span = tcx.def_span(did);
            let (self_ty, trait_) = impl_info(tcx, did);
            let parent = if kind == DefKind::Closure {
                js(&tcx.def_path_str(tcx.typeck_root_def_id(did)))
            } else {
                "null".to_string()
            };
            let vis = if matches!(kind, DefKind::Fn | DefKind::AssocFn) {
                if tcx.visibility(did).is_public() {
                    "pub"
                } else {
                    "priv"
                }
            } else {
                ""
            };
            let _ = write!(
                out,
                "{{\"p\":{},\"kind\":{},\"self\":{},\"trait\":{},\"parent\":{},\"vis\":{},\"s\":{},",
                js(&path),
                js(&format!("{:?}", kind)),
                js(&self_ty),
                js(&trait_),
                parent,
                js(vis),
                span_json(tcx, span)
            );
            // signature
            if matches!(kind, DefKind::Fn | DefKind::AssocFn) {
                let sig = tcx.fn_sig(did).instantiate_identity().skip_binder();
                let ins: Vec<String> = sig.inputs().iter().map(|t| js(&format!("{}", t))).collect();
                let _ = write!(out, "\"sig\":{{\"in\":{},\"out\":{}}},", jlist(&ins), js(&format!("{}", sig.output())));
            }
            // HIR (closures are inline in their parents)
            if kind != DefKind::Closure {
                let body = tcx.hir_body_owned_by(ldid);
                let tr = tcx.typeck(ldid);
                let h = H { tcx, tr };
                let ps: Vec<String> = body.params.iter().map(|p| h.pat(p.pat)).collect();
                let _ = write!(out, "\"params\":{},\"hir\":{},", jlist(&ps), h.expr(body.value));
            }
            // MIR
            let body: &Body = tcx.optimized_mir(did);
            let m = M { tcx, body, did };
            m.emit(&mut out);
            out.push('}');
        }
        out.push_str("],\n\"consts\":[");
        out.push_str(&consts.join(",\n"));
        out.push_str("]}\n");
        // one write per process
        let file = format!("{}/{}.facts.json", outdir, crate_name);
        let tmp = format!("{}.tmp{}", file, std::process::id());
        std::fs::write(&tmp, out).expect("write facts");
        std::fs::rename(&tmp, &file).expect("rename facts");
        Compilation::Continue
    }
}

fn main() {
    let mut args: Vec<String> = std::env::args().collect();
    // RUSTC_WORKSPACE_WRAPPER: argv[1] is the real rustc
    args.remove(1);
    let mut cb = Cb;
    rustc_driver::run_compiler(&args, &mut cb);
}
