"""Query helpers over the resolved HIR trees (see facts.py for the node format)."""
from facts import children, path_matches, line_of, macros_of, span_key, const_eval

# method calls that hand their receiver on unchanged as far as *identity of the value* matters
TRANSPARENT = {
    "clone", "as_str", "as_ref", "as_mut", "to_string", "to_owned", "deref", "deref_mut", "borrow", "borrow_mut",
    "into", "as_slice", "iter", "iter_mut", "into_iter", "iterator", "unwrap", "expect", "lock", "as_deref", "copied", "cloned",
    "to_vec", "as_mut_slice",
}

TRACE_MACROS = {"debug", "info", "warn", "error", "trace", "log", "println", "eprintln", "print", "eprint"}


def kind(n):
    return n.get("k")


def callee(n):
    return n.get("p") if n.get("k") in ("call", "mcall") else None


def is_call(n, suffix):
    p = callee(n)
    return p is not None and path_matches(p, suffix)


def method_name(n):
    if n.get("k") == "mcall":
        return n["m"]
    if n.get("k") == "call" and n.get("p"):
        return n["p"].split("::")[-1]
    return None


def peel(n, transparent=TRANSPARENT):
    """Strip reference/deref/cast/trivial-block wrappers and transparent method calls."""
    while True:
        k = n.get("k")
        if k == "ref" or k == "cast":
            n = n["e"]
        elif k == "un" and n["op"] == "Deref":
            n = n["e"]
        elif k == "block" and "tail" in n:
            # the value of a block is the value of its tail expression (also: an absorbed helper call, engine/py/inline.py)
            n = n["tail"]
        elif k == "mcall" and n["m"] in transparent and len(n["a"]) == 0:
            n = n["r"]
        elif k == "mcall" and n["m"] in ("expect",) and n["m"] in transparent:
            n = n["r"]
        elif k == "call" and n.get("p") and n["p"].split("::")[-1] in ("from", "new", "Some", "Box::new") and len(n["a"]) == 1 and \
                path_matches(n["p"], "String::from"):
            n = n["a"][0]
        else:
            return n


def local_of(n, transparent=TRANSPARENT):
    """binding id if n (peeled) is a path to a local, else None."""
    n = peel(n, transparent)
    if n.get("k") == "path" and n["r"].get("k") == "local":
        return n["r"]["b"]
    return None


def local_name(n):
    n = peel(n)
    if n.get("k") == "path" and n["r"].get("k") == "local":
        return n["r"]["n"]
    return None


def def_path(n):
    n = peel(n)
    if n.get("k") == "path" and n["r"].get("k") == "def":
        return n["r"]["p"]
    return None


def field_of(n, transparent=TRANSPARENT):
    """(base, fieldname) if n (peeled) is a field access."""
    n = peel(n, transparent)
    if n.get("k") == "field":
        return n["e"], n["n"]
    return None


def field_chain(n, transparent=TRANSPARENT):
    """('root description', [field, field, ...]) for a.b.c (through peels)."""
    fields = []
    while True:
        n = peel(n, transparent)
        if n.get("k") == "field":
            fields.append(n["n"])
            n = n["e"]
        else:
            break
    return n, list(reversed(fields))


def is_global_guard(n):
    """True for `X.global().lock().unwrap()` / `X.global_s().lock().unwrap()` (the get_global! idiom)."""
    n0 = n
    # unwrap(lock(global(X)))
    if n.get("k") == "mcall" and n["m"] == "unwrap":
        n = n["r"]
        if n.get("k") == "mcall" and n["m"] == "lock":
            n = n["r"]
            n = peel(n, {"clone"})
            if n.get("k") == "mcall" and n["m"] in ("global", "global_s"):
                return True
    return False


def mentions_local(root, bid):
    st = [root]
    while st:
        n = st.pop()
        if n.get("k") == "path" and n["r"].get("k") == "local" and n["r"]["b"] == bid:
            return True
        st.extend(children(n))
    return False


def walk(root):
    st = [root]
    while st:
        n = st.pop()
        yield n
        st.extend(reversed(children(n)))


def find_calls(root, suffix):
    return [n for n in walk(root) if is_call(n, suffix)]


def in_trace_macro(n):
    return any(m in TRACE_MACROS for m in macros_of(n))


# ------------------------------------------------------------------------------------------
# structural control context
# ------------------------------------------------------------------------------------------

def diverges(n):
    """Conservative: does evaluating n always leave the enclosing block (return/break/continue/panic)?"""
    k = n.get("k")
    if k in ("ret", "break", "continue"):
        return True
    if k in ("call", "mcall"):
        return n.get("ty") == "!"
    if k == "block":
        for s in n["st"]:
            if diverges(s):
                return True
        return "tail" in n and diverges(n["tail"])
    if k == "if":
        return "e" in n and diverges(n["t"]) and diverges(n["e"])
    if k == "match":
        return bool(n["arms"]) and all(diverges(a["body"]) for a in n["arms"])
    if k == "let":
        return False
    return False


def guards(fn, node):
    """Conditions that must have held for `node` to execute, innermost first.

    Each entry: {"cond": expr, "pol": True/False, "how": "then"|"else"|"early-exit"|"while"|"arm", ...}
    Enclosing `if` branches, `while` conditions, match arms (with pattern + scrutinee), and
    preceding `if c { diverge }` statements of every enclosing block (early-exit idiom).
    Stops at closure boundaries unless the closure is the node's own function scope.
    """
    out = []
    cur = node
    for anc in fn.ancestors(node):
        k = anc.get("k")
        if k == "if":
            if cur is anc["t"]:
                out.append({"cond": anc["c"], "pol": True, "how": "then", "node": anc})
            elif anc.get("e") is cur:
                out.append({"cond": anc["c"], "pol": False, "how": "else", "node": anc})
        elif k == "while":
            if cur is anc["body"]:
                out.append({"cond": anc["cond"], "pol": True, "how": "while", "node": anc})
        elif k is None and "pat" in anc:  # match arm
            m = fn.parent(anc)
            if cur is anc["body"]:
                out.append({"cond": m["e"], "pol": None, "how": "arm", "pat": anc["pat"], "node": m, "arm": anc,
                            "guard": anc.get("guard")})
        elif k == "let" and anc.get("els") is cur and "init" in anc:
            # `let PAT = init else { cur }`: the else block runs when the pattern does not match
            out.append({"cond": {"k": "letx", "pat": anc["pat"], "init": anc["init"], "s": anc.get("s")}, "pol": False, "how": "let-else", "node": anc})
        elif k == "block":
            # early exits among earlier statements
            seq = list(anc["st"]) + ([anc["tail"]] if "tail" in anc else [])
            for s in seq:
                if s is cur:
                    break
                # (a preceding `let PAT = init else { diverge }` is not listed, like `let x = match init { PAT => .., _ => diverge }`)
                if s.get("k") == "if" and "e" not in s and diverges(s["t"]):
                    out.append({"cond": s["c"], "pol": False, "how": "early-exit", "node": s})
                elif s.get("k") == "if" and "e" in s and diverges(s["e"]) and not diverges(s["t"]):
                    out.append({"cond": s["c"], "pol": True, "how": "early-exit-else", "node": s})
        cur = anc
    return out


def atoms(cond, pol=True):
    """Flattens a condition under a polarity into atoms [(expr, polarity)] that all hold.

    pol=True : a && b -> a:T, b:T ; !a -> a:F ; a || b -> kept whole
    pol=False: a || b -> a:F, b:F ; !a -> a:T ; a && b -> kept whole
    """
    n = cond
    while n.get("k") == "block" and not n["st"] and "tail" in n:
        n = n["tail"]
    k = n.get("k")
    if k == "un" and n["op"] == "Not":
        return atoms(n["e"], not pol)
    if k == "bin" and n["op"] == "And" and pol:
        return atoms(n["l"], True) + atoms(n["r"], True)
    if k == "bin" and n["op"] == "Or" and not pol:
        return atoms(n["l"], False) + atoms(n["r"], False)
    return [(n, pol)]


def guard_atoms(fn, node):
    out = []
    for g in guards(fn, node):
        if g["pol"] is None:
            out.append((g, None))
        else:
            for a, p in atoms(g["cond"], g["pol"]):
                out.append((a, p))
    return out


def enclosing_loops(fn, node):
    """Loops whose body (or `while` condition) contains node, innermost first. The iterated expression of a `for` is evaluated
    once, before the loop: it is not inside it."""
    out = []
    cur = node
    for a in fn.ancestors(node):
        if a.get("k") in ("for", "while", "loop") and not (a.get("k") == "for" and a.get("iter") is cur):
            out.append(a)
        cur = a
    return out


def enclosing_closure(fn, node):
    for a in fn.ancestors(node):
        if a.get("k") == "closure":
            return a
    return None


def enclosing_call_of_closure(fn, closure):
    """The call expression a closure literal is an argument of (through `&`)."""
    p = fn.parent(closure)
    while p is not None and p.get("k") in ("ref", "block"):
        p = fn.parent(p)
    if p is not None and p.get("k") in ("call", "mcall"):
        return p
    return None


def stmt_index(block, node, fn):
    """Index of the statement of `block` that contains node, else None."""
    seq = list(block["st"]) + ([block["tail"]] if "tail" in block else [])
    chain = {id(node)}
    for a in fn.ancestors(node):
        chain.add(id(a))
        if a is block:
            break
    for i, s in enumerate(seq):
        if id(s) in chain:
            return i
    return None


def order_index(fn):
    """node id -> position in evaluation order (pre-order of `children`, which lists operands in evaluation order)."""
    idx = {}
    for i, n in enumerate(fn.walk()):
        idx[id(n)] = i
    return idx


# ------------------------------------------------------------------------------------------
# provenance
# ------------------------------------------------------------------------------------------

def single_def(fn, b):
    """The one expression that defines local binding b: the `let` initialiser when b is never
    re-assigned, or the right-hand side of the single assignment of a deferred `let b;`."""
    info = fn.bindings().get(b)
    if not info or info["from"] != "let":
        return None
    if info.get("destruct"):
        # `let (a, b) = { ...; (x, y) };` / `let (a, b) = (x, y);` : component i of a tuple expression
        d = info["destruct"]
        init = info.get("init")
        if len(d) == 1 and d[0][0] == "ptup" and init is not None and not fn.assignments_to(b):
            t = init
            while t.get("k") == "block" and "tail" in t:
                t = t["tail"]
            if t.get("k") == "tup" and d[0][1] < len(t["a"]):
                return t["a"][d[0][1]]
        return None
    asg = fn.assignments_to(b)
    if info.get("init") is not None:
        return info["init"] if not asg else None
    if len(asg) == 1 and asg[0].get("k") == "assign":
        return asg[0]["r"]
    return None


def origin(fn, n, depth=4):
    """Where does the value of expression n come from? Follows single-assignment lets.

    Returns a dict: {"from": "param"|"for"|"closure_param"|"let"|"match"|"iflet"|"expr", ...}.
    """
    n = peel(n)
    b = local_of(n)
    if b is None:
        return {"from": "expr", "expr": n}
    info = fn.bindings().get(b)
    if info is None:
        return {"from": "unknown", "binding": b}
    d = single_def(fn, b) if info["from"] == "let" else None
    if d is not None and depth > 0:
        o = origin(fn, d, depth - 1)
        if o["from"] == "expr":
            o = dict(o, via_let=info["name"])
        return o
    return dict(info, binding=b)


def alias_root(fn, b, depth=6):
    """The local that binding b merely renames: `let a = b;`, `let a = { ..; b }` (value of an absorbed helper) -> b, transitively."""
    while depth > 0 and b is not None:
        d = single_def(fn, b)
        if d is None:
            break
        b2 = local_of(d, set())
        if b2 is None or b2 == b:
            break
        b = b2
        depth -= 1
    return b


def resolve(fn, n, transparent=TRANSPARENT):
    """Expression n with hoisted single-assignment lets followed (`let d = f(x); g(d)` -> `f(x)`); n (peeled) otherwise."""
    o = origin(fn, n)
    if o.get("from") == "expr":
        return peel(o["expr"], transparent)
    return peel(n, transparent)


ELEMENT_ADAPTORS = ("find", "any", "all", "position", "filter", "skip_while", "take_while", "find_map", "for_each", "map")


def element_source(fn, n):
    """If n's value is an element of an iteration - the variable of a `for` loop, or the (first) parameter of a closure handed to
    find / any / all / position / filter / ... - the expression that is iterated, else None."""
    o = origin(fn, n)
    if o.get("from") == "for":
        return o["node"]["iter"]
    if o.get("from") == "closure_param" and o.get("index") == 0:
        call = enclosing_call_of_closure(fn, o["closure"])
        if call is not None and call.get("k") == "mcall" and call["m"] in ELEMENT_ADAPTORS:
            return call["r"]
    return None


def loop_var_of(fn, n):
    """If n's value is the pattern variable of a `for` loop: that loop node, else None."""
    o = origin(fn, n)
    if o.get("from") == "for":
        return o["node"]
    return None
