#!/usr/bin/env python3
"""setup_cmd: build the fact extractor and warm the dependency metadata (offline)."""
import os
import sys

sys.path.insert(0, os.path.dirname(os.path.abspath(__file__)))
import extract


def main():
    os.makedirs(os.path.join(extract.CACHE, "facts"), exist_ok=True)
    extract.build_driver()
    print("driver built:", extract.DRIVER)
    p = extract.ensure_facts("default", verbose=True)
    print("facts:", p)
    return 0


if __name__ == "__main__":
    sys.exit(main())
