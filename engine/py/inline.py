"""Extracted helpers are analysed where they are called.

The rules and audit tables of /verif name the functions of the tree they were written against (tables/known_functions.json, the
non-closure function paths of all three feature configurations at audit time). A maintainer who extracts a few statements of such a
function into a *new private* function has not changed behaviour, but every syntactic rule anchored in the old function would lose
sight of the moved statements. So: a function that (a) is not in the known list, (b) is private and not a trait item, (c) is not
recursive and (d) is called at least once, is substituted for its call expressions in the HIR of its callers ("absorbed"):

    helper(a1, a2)      ==>     { let p1' = a1; let p2' = a2; <body of helper with fresh local ids> }

A parameter whose argument is a plain local, or `&`/`&mut` of a place built from locals and fields, and that is never assigned in the
helper, is replaced by the argument expression itself (no `let`), so `self.content` stays `self.content`.
A helper containing `return`/`?` is absorbed only when every call is in return position of its caller (then `return v` means the same
in both); otherwise it is left alone (the rules then see an unknown call, as before).
The absorbed function keeps its MIR (call graph, lock and panic analyses are interprocedural anyway) but its HIR is taken away, so
that no syntactic rule sees its statements twice.  Facts.absorbed: {helper path: sorted caller paths}.
"""
import copy
import json
import os

TABLE = os.path.join(os.path.dirname(os.path.dirname(os.path.dirname(os.path.abspath(__file__)))), "tables", "known_functions.json")


def _strip_generics(p):
    from facts import strip_generics
    return strip_generics(p)


def load_known():
    try:
        with open(TABLE) as fh:
            return set(json.load(fh)["functions"])
    except (OSError, ValueError, KeyError):
        return None


def _children(n):
    from facts import children
    return children(n)


def _walk(root, into_closures=True):
    st = [root]
    while st:
        n = st.pop()
        yield n
        if not into_closures and n.get("k") == "closure":
            continue
        st.extend(reversed(_children(n)))


def _pure_place(e):
    """plain local, field chain of locals, optionally under & / &mut / deref: no calls, no side effects."""
    k = e.get("k")
    if k == "path":
        return e.get("r", {}).get("k") == "local"
    if k == "field":
        return _pure_place(e["e"])
    if k == "ref":
        return _pure_place(e["e"])
    if k == "un" and e.get("op") == "Deref":
        return _pure_place(e["e"])
    return False


def _return_position(fn, site):
    """site's value is the value the enclosing function returns (no closure boundary in between)."""
    cur = site
    for anc in fn.ancestors(site):
        k = anc.get("k")
        if k == "block":
            if anc.get("tail") is not cur:
                return False
        elif k == "if":
            if cur is anc.get("c"):
                return False
        elif k == "match":
            if cur is anc.get("e"):
                return False
        elif k is None and "pat" in anc:      # match arm
            if cur is not anc.get("body"):
                return False
        elif k == "ret":
            return True
        else:
            return False
        cur = anc
    return True


def _pattern_binds(p, out):
    if not isinstance(p, dict):
        return
    if p.get("k") == "bind":
        out.append(p)
    for v in p.values():
        if isinstance(v, dict):
            _pattern_binds(v, out)
        elif isinstance(v, list):
            for x in v:
                if isinstance(x, dict):
                    _pattern_binds(x, out)
                elif isinstance(x, (list, tuple)):
                    for y in x:
                        if isinstance(y, dict):
                            _pattern_binds(y, out)


def _remap(node, offset, subst):
    """Deep copy of node with local binding ids shifted by offset; `path` nodes of locals in subst replaced by a copy of the expression."""
    if isinstance(node, list):
        return [_remap(x, offset, subst) for x in node]
    if isinstance(node, tuple):
        return tuple(_remap(x, offset, subst) for x in node)
    if not isinstance(node, dict):
        return node
    if node.get("k") == "path" and isinstance(node.get("r"), dict) and node["r"].get("k") == "local" and node["r"].get("b") in subst:
        return copy.deepcopy(subst[node["r"]["b"]])
    out = {}
    for key, v in node.items():
        if key == "b" and isinstance(v, int) and (node.get("k") in ("bind", "local")):
            out[key] = v + offset
        elif key == "s":
            out[key] = v
        else:
            out[key] = _remap(v, offset, subst)
    return out


def owner_of(facts, path, depth=4):
    """The function an audited MIR site of `path` is accounted to: its single calling function when `path` is an absorbed helper."""
    ab = getattr(facts, "absorbed", {})
    while depth > 0 and path in ab and len(ab[path]) == 1:
        path = ab[path][0]
        depth -= 1
    return path


def absorb(facts):
    known = load_known()
    facts.absorbed = {}
    facts.not_absorbed = {}
    if known is None:
        return
    cand = {}
    for f in facts.fn_list:
        # (a `fn` item nested in a trait method carries the trait of its parent in the facts; only associated functions are trait items)
        if f.kind not in ("Fn", "AssocFn") or f.hir is None or (f.trait and f.kind == "AssocFn") or f.vis != "priv":
            continue
        if f.path in known:
            continue
        cand[_strip_generics(f.path)] = f
    if not cand:
        return

    def callee_of(n):
        if n.get("k") in ("call", "mcall") and n.get("p"):
            return _strip_generics(n["p"])
        return None

    counter = [0]
    done = set()
    progress = True
    while progress:
        progress = False
        for hp, h in sorted(cand.items()):
            if hp in done:
                continue
            inner = {callee_of(n) for n in _walk(h.hir)} & set(cand)
            if hp in inner:
                done.add(hp)
                facts.not_absorbed[h.path] = "recursive"
                continue
            if inner - done:
                continue   # absorb the helpers it calls first
            done.add(hp)
            progress = True
            sites = []
            for g in facts.fn_list:
                if g is h or g.hir is None:
                    continue
                for n in _walk(g.hir):
                    if callee_of(n) == hp:
                        sites.append((g, n))
            if not sites:
                facts.not_absorbed[h.path] = "never called"
                continue
            has_ret = any(n.get("k") in ("ret", "try") for n in _walk(h.hir, into_closures=False))
            if has_ret:
                for g in {id(g): g for g, _ in sites}.values():
                    g._parents = None
                if not all(_return_position(g, n) for g, n in sites):
                    facts.not_absorbed[h.path] = "contains return/? and is called outside return position"
                    continue
            binds = []
            for p in h.params:
                _pattern_binds(p, binds)
            assigned = set()
            for n in _walk(h.hir):
                if n.get("k") in ("assign", "assignop"):
                    l = n["l"]
                    if l.get("k") == "path" and l.get("r", {}).get("k") == "local":
                        assigned.add(l["r"]["b"])
            if any(len(([n["r"]] if n.get("k") == "mcall" else []) + list(n.get("a", []))) != len(h.params) for g, n in sites):
                facts.not_absorbed[h.path] = "argument count differs at a call site"
                continue
            callers = set()
            for g, n in sites:
                counter[0] += 1
                off = 1000000 * counter[0]
                args = ([n["r"]] if n.get("k") == "mcall" else []) + list(n.get("a", []))
                subst = {}
                lets = []
                for p, a in zip(h.params, args):
                    if p.get("k") == "bind" and "sub" not in p and p["b"] not in assigned and _pure_place(a):
                        subst[p["b"]] = a
                    else:
                        lets.append({"k": "let", "pat": _remap(p, off, {}), "init": a, "s": n.get("s")})
                body = _remap(h.hir, off, subst)
                if body.get("k") == "block":
                    body["inl"] = h.path
                new ={"k": "block", "st": lets, "tail": body, "s": n.get("s"), "inl": h.path}
                if "ty" in n:
                    new["ty"] = n["ty"]
                n.clear()
                n.update(new)
                g._parents = None
                g._bindings = None
                callers.add(g.path)
            facts.absorbed[h.path] = sorted(callers)
            h.hir_absorbed = h.hir
            h.hir = None
            h._parents = None
            h._bindings = None
