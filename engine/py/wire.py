"""WIRE — agreement of the .rfsm writer and reader (rule kinds K4 / K11).

Each writer function and its reader sibling is walked over the resolved HIR into a flat sequence of annotated operations

    Op(kind, field, guards, loops)

kind   : primitive (string, u8, u16.., uint, usize, data, data_arc, bool, optstring) or `sub:<helper>` for a call to another
         writer/reader function of the same layer
field  : the model field the value comes from / goes to (path relative to the value being serialised, local names never used)
guards : normalised presence conditions the op is under (flag constants are mapped through the writer's flag expression)
loops  : the collection fields of the enclosing loops

Agreement = same length, and elementwise same kind class, same field, same guards, same loops.
Three idioms of this code base are normalised (see DESIGN W1): presence boolean, Option<Vec> as length 0, flag bits.
"""
from facts import children, line_of, const_eval, path_matches
import hirq
from hirq import peel, local_of

NO_T = set()

PRIM_W = {"write_str": "string", "write_u8": "uint8", "write_uint": "uint", "write_usize": "usize", "write_data": "data",
          "write_data_arc": "data_arc", "write_boolean": "bool", "write_option_string": "optstring", "write_u16": "uint16", "write_u32": "uint32"}
PRIM_R = {"read_string": "string", "read_u8": "uint8", "read_uint": "uint", "read_usize": "usize", "read_data": "data",
          "read_data_arc": "data_arc", "read_boolean": "bool", "read_option_string": "optstring", "read_u16": "uint16", "read_u32": "uint32"}
# all unsigned kinds travel as the same variable-length integer; what must agree is that the reader does not narrow below the writer's type
UINT_BITS = {"uint8": 8, "uint16": 16, "uint32": 32, "usize": 64, "uint": 64}

STRIP_METHODS = {"as_str", "as_ref", "as_mut", "unwrap", "clone", "iter", "iterator", "values", "as_slice", "to_string", "deref", "borrow", "into", "to_owned"}


class Op:
    __slots__ = ("kind", "field", "guards", "loops", "where", "lit", "bits")

    def __init__(self, kind, field, guards, loops, where, lit=None, bits=None):
        self.kind, self.field, self.guards, self.loops, self.where, self.lit = kind, field, frozenset(guards), tuple(loops), where, lit
        self.bits = bits

    def __repr__(self):
        g = ("{" + ",".join(sorted(self.guards)) + "}") if self.guards else ""
        l = ("@" + "/".join(self.loops)) if self.loops else ""
        return "%s:%s%s%s" % (self.kind, self.field, g, l)


class Walker:
    """Common machinery: field description of expressions relative to roots (parameters / loop variables / tracked locals)."""

    def __init__(self, fn):
        self.fn = fn
        self.roots = {}       # binding id -> field path prefix ("" for the value parameter)
        self.ops = []
        self.flag_table = {}  # constant name or literal mask -> predicate key (writer) ; local flags binding on the reader
        self.notes = []

    def field_of(self, e):
        """Path of an expression relative to the serialised value, or None."""
        e0 = e
        parts = []
        suffix = ""
        while True:
            e = peel(e, NO_T)
            k = e.get("k")
            if k == "mcall" and not e["a"] and e["m"] in STRIP_METHODS:
                e = e["r"]
                continue
            if k == "mcall" and e["m"] in ("len", "size") and not e["a"]:
                suffix = ".len"
                e = e["r"]
                continue
            if k == "mcall" and e["m"] == "ordinal" and not e["a"]:
                e = e["r"]
                continue
            if k == "mcall" and e["m"] in ("is_some", "is_empty", "is_none") and not e["a"]:
                suffix = "." + e["m"]
                e = e["r"]
                continue
            if k == "field":
                parts.append(e["n"])
                e = e["e"]
                continue
            if k == "cast":
                e = e["e"]
                continue
            if k == "path" and e["r"].get("k") == "local":
                b = e["r"]["b"]
                if b in self.roots:
                    pre = self.roots[b]
                    p = ".".join(([pre] if pre else []) + list(reversed(parts)))
                    return (p or "<value>") + suffix
                # single-definition local: follow
                d = hirq.single_def(self.fn, b)
                if d is not None:
                    sub = self.field_of(d)
                    if sub is not None:
                        p = ".".join([sub] + list(reversed(parts))) if parts else sub
                        return p + suffix
                return None
            return None

    def option_match(self, n):
        """`match opt { Some(x) => A, None => B }` over a field of the value: [(arm, presence key)] as for `if let Some(x) = opt`, else None."""
        f = self.field_of(n["e"])
        if f is None or len(n["arms"]) != 2:
            return None
        out = []
        kinds = set()
        for a in n["arms"]:
            pat = a["pat"]
            while pat.get("k") == "pref" and "p" in pat:
                pat = pat["p"]
            head = (pat.get("r") or {}).get("p", "") if pat.get("k") in ("pts", "pstruct", "ppath") else ""
            if a.get("guard") is not None:
                return None
            if head.endswith("::Some") and pat.get("k") in ("pts", "pstruct"):
                for sub in (pat.get("a") or [x[1] for x in pat.get("f", [])]):
                    if sub.get("k") == "bind":
                        self.roots[sub["b"]] = f
                    elif sub.get("k") != "wild":
                        return None
                out.append((a, "some:" + f))
                kinds.add("some")
            elif head.endswith("::None") or pat.get("k") == "wild":
                out.append((a, "none:" + f))
                kinds.add("none")
            else:
                return None
        return out if kinds == {"some", "none"} else None

    def cond_key(self, c, pol=True):
        """Normalised presence predicate(s) of a condition: list of keys."""
        keys = []
        for a, p in hirq.atoms(c, pol):
            k = self.atom_key(a, p)
            keys.append(k if k else "?:" + describe_short(a))
        return keys

    def atom_key(self, a, pol):
        a = peel(a, NO_T)
        k = a.get("k")
        if k == "letx":
            f = self.field_of(a["init"])
            pat = a["pat"]
            if f and pat.get("k") in ("pts", "pstruct") and pat["r"].get("p", "").endswith("::Some"):
                # bind the payload as the same field
                for sub in (pat.get("a") or [x[1] for x in pat.get("f", [])]):
                    if sub.get("k") == "bind":
                        self.roots[sub["b"]] = f
                return ("some:" if pol else "none:") + f
        if k == "mcall" and not a["a"] and a["m"] in ("is_some", "is_none", "is_empty"):
            f = self.field_of(a["r"])
            if f:
                m = a["m"]
                if m == "is_some":
                    return ("some:" if pol else "none:") + f
                if m == "is_none":
                    return ("none:" if pol else "some:") + f
                if m == "is_empty":
                    return ("empty:" if pol else "nonempty:") + f
        if k == "bin" and a["op"] in ("Gt", "Ne", "Eq", "Lt") :
            l, r = a["l"], a["r"]
            cv = const_eval(r)
            f = self.field_of(l)
            if f and cv == 0:
                base = f[:-4] if f.endswith(".len") else f
                nonzero = "nonempty:" if f.endswith(".len") else "nonzero:"
                zero = "empty:" if f.endswith(".len") else "zero:"
                if a["op"] in ("Gt", "Ne"):
                    return (nonzero if pol else zero) + base
                if a["op"] == "Eq":
                    return (zero if pol else nonzero) + base
            # (flags & MASK) != 0
            m = peel(l, NO_T)
            if m.get("k") == "bin" and m["op"] == "BitAnd" and cv == 0 and a["op"] in ("Ne", "Eq"):
                mask = mask_name(m["r"]) or mask_name(m["l"])
                if mask is not None:
                    on = (a["op"] == "Ne") == bool(pol)
                    return ("flag:" if on else "noflag:") + str(mask)
        if k == "path" and a["r"].get("k") == "local":
            f = self.field_of(a)
            if f:
                return ("true:" if pol else "false:") + f
        if k == "field":
            f = self.field_of(a)
            if f:
                return ("true:" if pol else "false:") + f
        return None


TYPE_BITS = {"u8": 8, "u16": 16, "u32": 32, "u64": 64, "usize": 64, "i64": 64, "i32": 32, "bool": 1}


def value_bits(e):
    """Width of the value an integer argument really carries: the type before any widening `as` cast."""
    while e.get("k") in ("ref", "block") or (e.get("k") == "un" and e.get("op") == "Deref"):
        if e.get("k") == "block":
            if e["st"] or "tail" not in e:
                break
            e = e["tail"]
        else:
            e = e["e"]
    if e.get("k") == "cast":
        inner = value_bits(e["e"])
        outer = TYPE_BITS.get(e.get("ty", ""))
        if inner is not None and outer is not None:
            return min(inner, outer)
        return inner or outer
    return TYPE_BITS.get(e.get("ty", "").replace("&", "").strip())


def mask_name(e):
    e = peel(e, NO_T)
    if e.get("k") == "path" and e["r"].get("k") == "def":
        return e["r"]["p"].split("::")[-1]
    v = const_eval(e)
    if isinstance(v, int):
        return v
    return None


def describe_short(n):
    n = peel(n)
    k = n.get("k")
    if k == "path":
        r = n["r"]
        return r.get("n") or r.get("p", "?").split("::")[-1]
    if k == "field":
        return describe_short(n["e"]) + "." + n["n"]
    if k in ("mcall",):
        return describe_short(n["r"]) + "." + n["m"] + "()"
    if k == "bin":
        return "(%s %s %s)" % (describe_short(n["l"]), n["op"], describe_short(n["r"]))
    if k == "lit":
        return str(list(n["v"].values())[0])
    return k or "?"


# ------------------------------------------------------------------------------------------
# writer side
# ------------------------------------------------------------------------------------------

class WriterWalk(Walker):
    def __init__(self, fn, layer_self_prefix=("write_",)):
        super().__init__(fn)
        # the serialised value: the first non-self parameter; `self` when the function is a method of the value itself
        ps = [p for p in fn.params if p.get("k") == "bind"]
        for p in ps:
            if p["n"] != "self":
                self.roots[p["b"]] = ""
                break
        self.walk(fn.hir, [], [])

    def is_writer_recv(self, r):
        r = peel(r, NO_T)
        if r.get("k") == "field" and r["n"] == "writer" and hirq.local_name(r["e"]) == "self":
            return "prim"
        if r.get("k") == "path" and r["r"].get("k") == "local" and r["r"]["n"] == "self":
            return "self"
        return None

    def walk(self, n, guards, loops):
        k = n.get("k")
        if hirq.in_trace_macro(n):
            return
        if k == "block":
            for s in n["st"]:
                self.walk(s, guards, loops)
            if "tail" in n:
                self.walk(n["tail"], guards, loops)
            return
        if k == "let":
            init = n.get("init")
            if init is not None:
                if n["pat"].get("k") == "bind" and n["pat"]["n"] == "flags":
                    self.parse_flags(init)
                    self.roots[n["pat"]["b"]] = "flags"
                    return
                # `let params = parameters.as_ref().unwrap();` -> alias
                f = self.field_of(init)
                if f is not None and n["pat"].get("k") == "bind":
                    self.roots[n["pat"]["b"]] = f if f != "<value>" else ""
                    return
                self.walk(init, guards, loops)
            return
        if k == "mcall":
            rk = self.is_writer_recv(n["r"])
            m = n["m"]
            if rk == "prim" and m in PRIM_W:
                arg = n["a"][0]
                lit = const_eval(arg)
                f = self.field_of(arg)
                if f is None and isinstance(lit, (int, bool, str)):
                    f = "<lit>"
                if f is None:
                    # inline flag expression: write_u8(ordinal | if .. {2} else {0} ...)
                    a = peel(arg, NO_T)
                    if a.get("k") == "bin" and a["op"] == "BitOr":
                        self.parse_flags(a)
                        f = "flags"
                self.ops.append(Op(PRIM_W[m], f or "?:" + describe_short(arg), guards, loops, line_of(n), lit, value_bits(arg)))
                return
            if rk == "prim" and m in ("close", "get_writer", "has_error"):
                return
            if rk == "self" and m.startswith("write_"):
                arg = n["a"][0] if n["a"] else None
                f = self.field_of(arg) if arg is not None else "<none>"
                self.ops.append(Op("sub:" + m[len("write_"):], f or "?:" + describe_short(arg), guards, loops, line_of(n)))
                return
            # other calls: descend (e.g. nested helper in argument position)
            for c in children(n):
                self.walk(c, guards, loops)
            return
        if k == "for":
            it = n["iter"]
            f = self.field_of(it)
            lf = f if f is not None else "?:" + describe_short(it)
            if lf.endswith(".len"):
                lf = lf[:-4]
            # loop variables
            pat = n["pat"]
            if pat.get("k") == "bind":
                self.roots[pat["b"]] = "<elem:%s>" % lf
            elif pat.get("k") == "ptup":
                names = ["<key:%s>" % lf, "<elem:%s>" % lf]
                for sub, nm in zip(pat["a"], names):
                    if sub.get("k") == "bind":
                        self.roots[sub["b"]] = nm
            self.walk(n["body"], guards, loops + [lf])
            return
        if k == "if":
            keys_t = self.cond_key(n["c"], True)
            then_ops_start = len(self.ops)
            self.walk(n["t"], guards + keys_t, loops)
            if "e" in n:
                keys_e = self.cond_key(n["c"], False)
                self.walk(n["e"], guards + keys_e, loops)
            return
        if k == "match":
            # dispatch tables are handled by the caller (write_executable_content / write_data)
            om = self.option_match(n)
            if om is not None:
                for a, key in om:
                    self.walk(a["body"], guards + [key], loops)
                return
            self.notes.append(("match", n))
            for a in n["arms"]:
                self.walk(a["body"], guards + ["arm:" + arm_key(a["pat"])], loops)
            return
        for c in children(n):
            self.walk(c, guards, loops)

    def parse_flags(self, e):
        """flags expression: a | if PRED {CONST} else {0} | ... -> flag_table[CONST] = predicate key."""
        e = peel(e, NO_T)
        if e.get("k") == "bin" and e["op"] == "BitOr":
            self.parse_flags(e["l"])
            self.parse_flags(e["r"])
            return
        if e.get("k") == "if" and "e" in e:
            tv, ev = mask_name(only_value(e["t"])), mask_name(only_value(e["e"]))
            if tv not in (None, 0) and ev == 0:
                ks = self.cond_key(e["c"], True)
                self.flag_table[str(tv)] = ks[0] if len(ks) == 1 else "&".join(ks)
            elif ev not in (None, 0) and tv == 0:
                ks = self.cond_key(e["c"], False)
                self.flag_table[str(ev)] = ks[0] if len(ks) == 1 else "&".join(ks)
            else:
                self.flag_table["?"] = "unparsed flag term at %s" % line_of(e)
            return
        f = self.field_of(e)
        if f is not None:
            self.flag_table.setdefault("<base>", f)
            return
        self.flag_table["?"] = "unparsed flag term at %s" % line_of(e)


def only_value(b):
    b = peel(b, NO_T)
    while b.get("k") == "block":
        if b["st"] or "tail" not in b:
            return b
        b = peel(b["tail"], NO_T)
    return b


def arm_key(p):
    k = p.get("k")
    if k in ("pts", "pstruct", "ppath"):
        return p["r"].get("p", "?").split("::")[-1]
    if k == "plit":
        return str(p["v"])
    if k == "bind":
        return "_"
    if k == "wild":
        return "_"
    return k or "?"


# ------------------------------------------------------------------------------------------
# reader side
# ------------------------------------------------------------------------------------------

class ReaderWalk(Walker):
    """Reader functions fill `value` (a &mut parameter), a local struct that is returned, or return the value read."""

    def __init__(self, fn, ctor_fields):
        super().__init__(fn)
        self.ctor_fields = ctor_fields   # callable: (ctor path) -> [field per positional parameter] or None
        self.pending = {}                # binding -> op index whose destination is still a local
        self.flag_assign = {}            # mask -> field assigned from (flags & mask)
        self.flags_local = None
        self.len_locals = {}             # binding of a length local -> op index
        self.bool_locals = {}
        ps = [p for p in fn.params if p.get("k") == "bind" and p["n"] != "self"]
        for p in ps:
            self.roots[p["b"]] = ""
        # a local that is built and returned: `let mut x = T::new(..)` ... `x` / Box::new(x)
        self.result_locals = set()
        tail = fn.hir.get("tail") if fn.hir and fn.hir.get("k") == "block" else None
        if tail is not None:
            t = peel(tail, NO_T)
            while t.get("k") == "call" and len(t.get("a", [])) == 1 and (t.get("p") or "").endswith(("Box::<T>::new", "Box::new", "::Ok", "::Some")):
                t = peel(t["a"][0], NO_T)
            b = local_of(t, NO_T)
            if b is not None:
                self.result_locals.add(b)
                self.roots[b] = ""
            self.tail_expr = t
        else:
            self.tail_expr = None
        self.walk(fn.hir, [], [])
        self.resolve_tail()

    def atom_key(self, a, pol):
        a0 = peel(a, NO_T)
        if a0.get("k") == "bin" and a0["op"] in ("Eq", "Ne", "Gt") and const_eval(a0["r"]) == 0:
            b = local_of(a0["l"], NO_T)
            if b is not None and b in self.pending:
                nz = (a0["op"] in ("Ne", "Gt")) == bool(pol)
                return ("lennonzero@%d" if nz else "lenzero@%d") % self.pending[b]
            m = peel(a0["l"], NO_T)
            if m.get("k") == "bin" and m["op"] == "BitAnd":
                fb = local_of(m["l"], NO_T)
                if fb is not None and fb in self.pending:
                    self.ops[self.pending[fb]].field = "flags"
                    self.flags_local = fb
        return super().atom_key(a, pol)

    def note_flag_assign(self, lhs_field, rhs):
        """target.f = <expression over (flags & MASK)> : remember which mask feeds which field."""
        for x in hirq.walk(rhs):
            if x.get("k") == "bin" and x["op"] == "BitAnd":
                fb = local_of(x["l"], NO_T)
                if fb is not None and (fb in self.pending or fb == getattr(self, "flags_local", None)):
                    if fb in self.pending:
                        self.ops[self.pending[fb]].field = "flags"
                        self.flags_local = fb
                    mk = mask_name(x["r"])
                    if mk is not None:
                        self.flag_assign[str(mk)] = lhs_field
                        return True
        return False

    def read_call(self, e):
        """(kind, node) if e (peeled, possibly wrapped in a conversion) is a read primitive / sub-reader call."""
        e = peel(e, NO_T)
        k = e.get("k")
        if k == "mcall":
            r = peel(e["r"], NO_T)
            if r.get("k") == "field" and r["n"] == "reader" and hirq.local_name(r["e"]) == "self" and e["m"] in PRIM_R:
                return PRIM_R[e["m"]], e
            if r.get("k") == "path" and r["r"].get("k") == "local" and r["r"]["n"] == "self" and e["m"].startswith("read_"):
                return "sub:" + e["m"][len("read_"):], e
        if k == "call" and len(e.get("a", [])) == 1:
            # conversion wrappers: T::from_ordinal(read), Some(read), create_data_arc(read), (read) as T
            return self.read_call(e["a"][0])
        if k == "bin" and e["op"] == "BitAnd":
            return None
        return None

    def add(self, kind, field, guards, loops, node):
        # narrowing on the reader side: the narrowest integer type between the read call and the destination
        bits = UINT_BITS.get(kind)
        src = node.get("init") if node.get("k") == "let" else (node.get("r") if node.get("k") == "assign" else node)
        if bits is not None and isinstance(src, dict):
            for x in hirq.walk(src):
                if x.get("k") == "cast":
                    b = TYPE_BITS.get(x.get("ty", ""))
                    if b is not None:
                        bits = min(bits, b)
        self.ops.append(Op(kind, field, guards, loops, line_of(node), None, bits))
        return len(self.ops) - 1

    def walk(self, n, guards, loops):
        k = n.get("k")
        if hirq.in_trace_macro(n):
            return
        if k == "block":
            for s in n["st"]:
                self.walk(s, guards, loops)
            if "tail" in n:
                self.walk(n["tail"], guards, loops)
            return
        if k == "let":
            init = n.get("init")
            pat = n["pat"]
            if init is None:
                return
            rc = self.read_call(init)
            if rc and pat.get("k") == "bind":
                idx = self.add(rc[0], "<local:%d>" % pat["b"], guards, loops, init)
                self.pending[pat["b"]] = idx
                self.fill_arg(rc[1], idx)
                return
            if rc and pat.get("k") == "wild":
                # `let _ = target.f.insert(read)`
                pass
            # `let mut x = T::new(..)` -> a fresh value being filled (field paths relative to where it lands)
            if pat.get("k") == "bind":
                i = peel(init, NO_T)
                if i.get("k") == "call" and not self.contains_read(i):
                    if pat["b"] not in self.roots:
                        self.roots[pat["b"]] = "<new:%d>" % pat["b"]
                    return
            self.walk(init, guards, loops)
            return
        if k == "assign" and self._branching_value(n["r"]):
            # x.f = if COND { ..; Some(v) } else { None }   (expression-oriented form of `if COND { x.f = Some(v) } else { x.f = None }`)
            self._assign_value(n, self.field_of(n["l"]), n["r"], guards, loops)
            return
        if k == "assign":
            rc = self.read_call(n["r"])
            f = self.field_of(n["l"])
            if rc:
                idx = self.add(rc[0], f or "?:" + describe_short(n["l"]), guards, loops, n)
                self.fill_arg(rc[1], idx)
                return
            # conditional right-hand side: x.f = if COND { read } else { default }
            r = peel(n["r"], NO_T)
            if r.get("k") == "if":
                keys = self.cond_key(r["c"], True)
                trc = self.read_call(only_value(r["t"]))
                if trc:
                    self.add(trc[0], f or "?", guards + keys, loops, n)
                    return
            if f is not None and self.note_flag_assign(f, n["r"]):
                return
            # x.f = Some(local) / local
            b = self.local_in(n["r"])
            if b is not None and b in self.pending and f is not None:
                self.ops[self.pending[b]].field = f
                del self.pending[b]
                return
            if b is not None and b in self.roots and str(self.roots[b]).startswith("<new:") and f is not None:
                self.rebase(self.roots[b], f)
                return
            return
        if k == "mcall":
            m = n["m"]
            # target.f.push(X) / insert(K, X) / let _ = target.f.insert(X)
            if m in ("push", "insert", "push_back", "add"):
                f = self.field_of(n["r"])
                val = n["a"][-1] if n["a"] else None
                if f is not None and val is not None:
                    rc = self.read_call(val)
                    inloop = bool(loops)
                    dest = ("<elem:%s>" % f) if inloop and m != "insert" or (inloop and m == "insert" and len(n["a"]) == 2) else f
                    if rc:
                        idx = self.add(rc[0], dest, guards, loops, n)
                        self.fill_arg(rc[1], idx)
                        if m == "insert" and len(n["a"]) == 2:
                            kb = self.local_in(n["a"][0])
                            if kb is not None and kb in self.pending:
                                self.ops[self.pending[kb]].field = "<key:%s>" % f
                                del self.pending[kb]
                        return
                    b = self.local_in(val)
                    if b is not None and b in self.pending:
                        self.ops[self.pending[b]].field = dest
                        del self.pending[b]
                    elif b is not None and b in self.roots and str(self.roots[b]).startswith("<new:"):
                        self.rebase(self.roots[b], dest)
                    if m == "insert" and len(n["a"]) == 2:
                        kb = self.local_in(n["a"][0])
                        if kb is not None and kb in self.pending:
                            self.ops[self.pending[kb]].field = "<key:%s>" % f
                            del self.pending[kb]
                    return
            rc = self.read_call(n)
            if rc and rc[1] is n:
                # statement-level sub-reader that fills its argument: self.read_x(&mut target.f)
                idx = self.add(rc[0], "<none>", guards, loops, n)
                self.fill_arg(n, idx)
                return
            for c in children(n):
                self.walk(c, guards, loops)
            return
        if k == "for":
            # for _ in 0..len
            it = peel(n["iter"], NO_T)
            lb = None
            if it.get("k") == "struct" and "Range" in str(it["r"].get("p", "")):
                for name, e in it["f"]:
                    if name == "end":
                        lb = self.local_in(e)
            lf = "<len:%s>" % lb
            self.walk(n["body"], guards, loops + [lf])
            return
        if k == "if":
            c = peel(n["c"], NO_T)
            rc = self.read_call(c)
            if rc:
                idx = self.add(rc[0], "<presence>", guards, loops, c)
                keys_t, keys_e = ["bool@%d" % idx], ["nobool@%d" % idx]
            else:
                b = local_of(c, NO_T)
                if b is not None and b in self.pending:
                    idx = self.pending.pop(b)
                    self.ops[idx].field = "<presence>"
                    keys_t, keys_e = ["bool@%d" % idx], ["nobool@%d" % idx]
                else:
                    keys_t, keys_e = self.cond_key(n["c"], True), self.cond_key(n["c"], False)
            self.walk(n["t"], guards + keys_t, loops)
            if "e" in n:
                self.walk(n["e"], guards + keys_e, loops)
            return
        if k == "match":
            self.notes.append(("match", n))
            for a in n["arms"]:
                self.walk(a["body"], guards + ["arm:" + arm_key(a["pat"])], loops)
            return
        if k == "call":
            # constructor / conversion around reads: T::new(read, local ..) as a statement or tail
            for c in children(n):
                self.walk(c, guards, loops)
            return
        if k == "cast":
            rc = self.read_call(n)
            if rc:
                idx = self.add(rc[0], "<none>", guards, loops, n)
                self.fill_arg(rc[1], idx)
                return
        for c in children(n):
            self.walk(c, guards, loops)

    @staticmethod
    def _strip_refs(e):
        while e.get("k") in ("ref", "cast") or (e.get("k") == "un" and e.get("op") == "Deref"):
            e = e["e"]
        return e

    def _branching_value(self, e):
        """An `if` (possibly behind refs) at least one of whose branches does work before yielding its value."""
        e = self._strip_refs(e)
        if e.get("k") != "if":
            return False
        return any(b.get("k") == "block" and b.get("st") for b in (e.get("t", {}), e.get("e", {})))

    def _assign_value(self, node, f, e, guards, loops):
        e = self._strip_refs(e)
        k = e.get("k")
        if k == "block":
            for s in e["st"]:
                self.walk(s, guards, loops)
            if "tail" in e:
                self._assign_value(node, f, e["tail"], guards, loops)
            return
        if k == "if":
            c = peel(e["c"], NO_T)
            b = local_of(c, NO_T)
            rc = self.read_call(c)
            if rc:
                idx = self.add(rc[0], "<presence>", guards, loops, c)
                keys_t, keys_e = ["bool@%d" % idx], ["nobool@%d" % idx]
            elif b is not None and b in self.pending:
                idx = self.pending.pop(b)
                self.ops[idx].field = "<presence>"
                keys_t, keys_e = ["bool@%d" % idx], ["nobool@%d" % idx]
            else:
                keys_t, keys_e = self.cond_key(e["c"], True), self.cond_key(e["c"], False)
            self._assign_value(node, f, e["t"], guards + keys_t, loops)
            if "e" in e:
                self._assign_value(node, f, e["e"], guards + keys_e, loops)
            return
        rc = self.read_call(e)
        if rc:
            idx = self.add(rc[0], f or "?:" + describe_short(node["l"]), guards, loops, node)
            self.fill_arg(rc[1], idx)
            return
        b = self.local_in(e)
        if b is not None and b in self.pending and f is not None:
            self.ops[self.pending[b]].field = f
            del self.pending[b]
        elif b is not None and b in self.roots and str(self.roots[b]).startswith("<new:") and f is not None:
            self.rebase(self.roots[b], f)

    def contains_read(self, e):
        return any(self.read_call(x) and self.read_call(x)[1] is x for x in hirq.walk(e) if x.get("k") == "mcall")

    def local_in(self, e):
        e = peel(e, NO_T)
        while e.get("k") == "call" and len(e.get("a", [])) == 1:
            e = peel(e["a"][0], NO_T)
        if e.get("k") == "ref":
            e = peel(e["e"], NO_T)
        return local_of(e, NO_T)

    def fill_arg(self, call, idx):
        """sub-reader with an out-parameter: self.read_x(&mut target.f) -> destination field f."""
        if call.get("k") != "mcall" or not call["a"]:
            return
        a = call["a"][0]
        f = self.field_of(a)
        if f is not None:
            if self.ops[idx].field in ("<none>",) or self.ops[idx].field.startswith("<local:"):
                self.ops[idx].field = f

    def rebase(self, old_root, new_field):
        def sub(f):
            if not isinstance(f, str) or old_root not in f:
                return f
            if f == old_root:
                return new_field or "<value>"
            if f.startswith(old_root + "."):
                rest = f[len(old_root) + 1:]
                return (new_field + "." + rest) if new_field and new_field != "<value>" else rest
            if not new_field or new_field == "<value>":
                return f.replace(old_root + ".", "").replace(old_root, "<value>")
            return f.replace(old_root, new_field)
        for o in self.ops:
            o.field = sub(o.field)
            o.loops = tuple(sub(l) for l in o.loops)
        for b, r in list(self.roots.items()):
            if isinstance(r, str) and old_root in r:
                self.roots[b] = sub(r) if sub(r) != "<value>" else ""

    def resolve_tail(self):
        # locals that end as constructor arguments of the returned value: Ctor::new(.., local, ..)
        for n in self.fn.walk():
            if n.get("k") == "call" and n.get("p") and n["a"]:
                fields = self.ctor_fields(n["p"])
                if not fields:
                    continue
                for i, a in enumerate(n["a"]):
                    b = self.local_in(a)
                    if b is not None and b in self.pending and i < len(fields) and fields[i]:
                        self.ops[self.pending[b]].field = fields[i]
                        del self.pending[b]
        # a freshly built value that is boxed / wrapped in Ok(..) anywhere is the function's result
        for n in self.fn.walk():
            if n.get("k") == "call" and n.get("p") and n["p"].endswith(("Box::<T>::new", "Box::new")) and len(n["a"]) == 1:
                b = local_of(peel(n["a"][0], NO_T), NO_T)
                if b is not None and str(self.roots.get(b, "")).startswith("<new:"):
                    self.result_locals.add(b)
        # `<new:b>` roots that are returned: their fields are the value's own
        for b in list(self.result_locals):
            r = self.roots.get(b)
            if r and str(r).startswith("<new:"):
                self.rebase(r, "")
        # loops: `<len:b>` -> the field of the length op = field of the loop's first destination
        for i, o in enumerate(self.ops):
            pass
        lens = {}
        for b, idx in list(self.pending.items()):
            lens[b] = idx
        new_loops = {}
        for o in self.ops:
            for l in o.loops:
                if l.startswith("<len:") and l not in new_loops:
                    # field of the first op in that loop
                    f = o.field
                    base = f
                    if f.startswith("<elem:") or f.startswith("<key:"):
                        base = f[f.index(":") + 1:-1]
                    new_loops[l] = base
        for o in self.ops:
            o.loops = tuple(new_loops.get(l, l) for l in o.loops)
        for l, base in new_loops.items():
            try:
                b = int(l[5:-1])
            except ValueError:
                continue
            if b in self.pending:
                self.ops[self.pending[b]].field = base + ".len"
                del self.pending[b]
        # a value read and returned directly: tail `self.reader.read_x()`
        # (already recorded with field <none>): make it the value itself
        for o in self.ops:
            if o.field == "<none>":
                o.field = "<value>"


def normalise(ops, flag_table=None, side="w"):
    """Apply the three idioms; returns list of (kindclass, field, guards, loops) tuples plus the ops for reporting."""
    out = []
    ops = list(ops)
    # idiom (i) on the writer: `write_boolean(true)` under some:F / `write_boolean(false)` under none:F  ->  one presence op for F
    res = []
    i = 0
    while i < len(ops):
        o = ops[i]
        if side == "w" and o.kind == "bool" and o.lit is True:
            pres = [g for g in o.guards if g.startswith("some:")]
            if pres:
                res.append(Op("bool", "<presence:%s>" % pres[0][5:], o.guards - {pres[0]}, o.loops, o.where))
                i += 1
                continue
        if side == "w" and o.kind == "bool" and o.lit is False:
            if any(g.startswith("none:") for g in o.guards):
                i += 1
                continue
        if side == "w" and o.kind == "bool" and isinstance(o.field, str) and o.field.endswith(".is_some"):
            res.append(Op("bool", "<presence:%s>" % o.field[:-8], o.guards, o.loops, o.where))
            i += 1
            continue
        # idiom (ii) on the writer: `write_usize(0)` in the none-branch of an Option<Vec>
        if side == "w" and o.kind == "usize" and o.lit == 0 and any(g.startswith("none:") for g in o.guards):
            i += 1
            continue
        res.append(o)
        i += 1
    ops = res
    # reader: bool@k guards -> some:<field the presence op stands for>; the presence op gets the field of what it guards
    if side == "r":
        for idx, o in enumerate(ops):
            pass
    return ops
