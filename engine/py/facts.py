"""Fact base: loads the driver's JSON and offers the program views the rules work on.

HIR view  : resolved expression trees, `for` / `while` / `?` re-sugared, parents linked,
            binding table (where every local binding gets its value from).
MIR view  : CFG, dominators / post-dominators, reachability, cycles, span -> block map.
Call graph: static callees + dyn calls expanded to every in-crate implementor + closures
            attributed to the call that receives them.
"""
import json
import os
import pickle
import re
from collections import defaultdict


class AnchorMissing(Exception):
    """An anchor (function, field, call) a rule is written against is not in the program."""


# ------------------------------------------------------------------------------------------
# HIR normalisation
# ------------------------------------------------------------------------------------------

CHILD_KEYS = ("f", "r", "e", "l", "c", "t", "i", "init", "body", "els", "tail", "base", "guard", "iter", "cond")
LIST_KEYS = ("a", "st", "arms", "params")


def children(n):
    """Direct child nodes (expressions, blocks, arms) of a HIR node, in evaluation-ish order."""
    out = []
    k = n.get("k")
    if k is None:  # match arm
        if "guard" in n:
            out.append(n["guard"])
        out.append(n["body"])
        return out
    if k == "mcall":
        out.append(n["r"])
        out.extend(n["a"])
    elif k == "call":
        out.append(n["f"])
        out.extend(n["a"])
    elif k == "bin":
        out.extend([n["l"], n["r"]])
    elif k in ("assign", "assignop"):
        out.extend([n["r"], n["l"]])
    elif k == "if":
        out.append(n["c"])
        out.append(n["t"])
        if "e" in n:
            out.append(n["e"])
    elif k == "match":
        out.append(n["e"])
        out.extend(n["arms"])
    elif k == "for":
        out.extend([n["iter"], n["body"]])
    elif k == "while":
        out.extend([n["cond"], n["body"]])
    elif k in ("loop", "lblock"):
        out.append(n["body"])
    elif k == "block":
        out.extend(n["st"])
        if "tail" in n:
            out.append(n["tail"])
    elif k == "let":
        if "init" in n:
            out.append(n["init"])
        if "els" in n:
            out.append(n["els"])
    elif k == "letx":
        out.append(n["init"])
    elif k == "closure":
        out.append(n["body"])
    elif k == "struct":
        out.extend(f[1] for f in n["f"])
        if "base" in n:
            out.append(n["base"])
    elif k in ("tup", "array"):
        out.extend(n["a"])
    elif k == "index":
        out.extend([n["e"], n["i"]])
    elif k in ("field", "ref", "un", "cast", "ret", "break", "repeat", "try", "yield"):
        if "e" in n:
            out.append(n["e"])
    return out


def _is_path_def(n, suffix):
    return n.get("k") == "path" and n["r"].get("k") == "def" and n["r"]["p"].endswith(suffix)


def _resugar(n):
    """Rewrites desugared `for`, `while`, `?` into single nodes. Returns the new node."""
    if isinstance(n, list):
        return [_resugar(x) for x in n]
    if not isinstance(n, dict):
        return n
    k = n.get("k")
    # recurse first
    for key, val in list(n.items()):
        if key in ("s", "fs", "v", "ty", "rty", "bty", "lty", "ity", "p", "m", "n", "op", "src", "label", "id"):
            continue
        if key == "f" and k == "struct":
            n[key] = [[f[0], _resugar(f[1])] for f in val]
        elif key == "f" and k == "pstruct":
            continue
        elif isinstance(val, (dict, list)):
            n[key] = _resugar(val)
    if k == "match" and n.get("src") == "ForLoopDesugar":
        # match IntoIterator::into_iter(ITER) { mut iter => loop { match next(&mut iter) { None => break, Some(PAT) => BODY } } }
        try:
            it = n["e"]["a"][0]
            loop = n["arms"][0]["body"]
            inner = loop["body"]["st"][0] if loop["body"]["st"] else loop["body"]["tail"]
            some_arm = [a for a in inner["arms"] if a["pat"].get("k") in ("pts", "pstruct") and
                        (a["pat"].get("a") or a["pat"].get("f"))][0]
            sp = some_arm["pat"]
            pat = sp["a"][0] if sp.get("k") == "pts" else sp["f"][0][1]
            return {"k": "for", "pat": pat, "iter": it, "body": some_arm["body"], "s": n["s"],
                    "id": loop.get("id"), "label": loop.get("label")}
        except (KeyError, IndexError, TypeError):
            return n
    if k == "loop" and n.get("src") == "While":
        # loop { if COND { BODY } else { break } }
        try:
            b = n["body"]
            iff = b["tail"] if "tail" in b else b["st"][0]
            if iff.get("k") == "if":
                return {"k": "while", "cond": iff["c"], "body": iff["t"], "s": n["s"], "id": n.get("id"),
                        "label": n.get("label")}
        except (KeyError, IndexError, TypeError):
            return n
    if k == "match" and str(n.get("src", "")).startswith("TryDesugar"):
        try:
            inner = n["e"]["a"][0]
            return {"k": "try", "e": inner, "s": n["s"], "ty": n.get("ty", "")}
        except (KeyError, IndexError, TypeError):
            return n
    return n


def span_key(s):
    return (s[0], s[1], s[2])


def line_of(n):
    s = n.get("s")
    if not s:
        return "?"
    return "%s:%d" % (s[6], s[3])


def macros_of(n):
    s = n.get("s")
    return s[7] if s else []


# ------------------------------------------------------------------------------------------
# Fn
# ------------------------------------------------------------------------------------------

class Fn:
    def __init__(self, raw, facts):
        self.raw = raw
        self.facts = facts
        self.path = raw["p"]
        self.kind = raw["kind"]
        self.parent_path = raw.get("parent")
        self.self_ty = raw.get("self", "")
        self.trait = raw.get("trait", "")
        self.vis = raw.get("vis", "")
        self.sig = raw.get("sig")
        self.params = raw.get("params", [])
        self.hir = raw.get("hir")
        self.locals = raw["locals"]
        self.blocks = raw["blocks"]
        self.argc = raw["argc"]
        self.upvars = raw.get("upvars", [])
        self.span = raw["s"]
        self._parents = None
        self._bindings = None
        self._cfg = None

    def __repr__(self):
        return "<Fn %s>" % self.path

    @property
    def where(self):
        return "%s:%d" % (self.span[6], self.span[3])

    @property
    def name(self):
        return self.path.split("::")[-1]

    # ---- HIR ----------------------------------------------------------------------------
    def walk(self, root=None):
        """Pre-order generator over every HIR node below root (default: body)."""
        root = root if root is not None else self.hir
        if root is None:
            return
        stack = [root]
        while stack:
            n = stack.pop()
            yield n
            ch = children(n)
            stack.extend(reversed(ch))

    def _link(self):
        self._parents = {}
        if self.hir is None:
            return
        stack = [self.hir]
        while stack:
            n = stack.pop()
            for c in children(n):
                self._parents[id(c)] = n
                stack.append(c)

    def parent(self, n):
        if self._parents is None:
            self._link()
        return self._parents.get(id(n))

    def ancestors(self, n):
        p = self.parent(n)
        while p is not None:
            yield p
            p = self.parent(p)

    def nodes(self, kind):
        return [n for n in self.walk() if n.get("k") == kind]

    def calls(self, suffix=None, root=None, pred=None):
        """HIR call / method-call nodes whose resolved callee path ends with suffix."""
        out = []
        for n in self.walk(root):
            if n.get("k") in ("call", "mcall"):
                p = n.get("p")
                if p is None:
                    continue
                if suffix is not None and not path_matches(p, suffix):
                    continue
                if pred is not None and not pred(n):
                    continue
                out.append(n)
        return out

    def bindings(self):
        """binding id -> description of where the bound value comes from."""
        if self._bindings is not None:
            return self._bindings
        b = {}

        def pat_binds(p, origin):
            if not isinstance(p, dict):
                return
            k = p.get("k")
            if k == "bind":
                b[p["b"]] = dict(origin, name=p["n"], ty=p.get("ty", ""))
                if "sub" in p:
                    pat_binds(p["sub"], origin)
            elif k in ("pts", "ptup", "por", "pslice"):
                for i, s in enumerate(p["a"]):
                    pat_binds(s, dict(origin, destruct=origin.get("destruct", ()) + ((p.get("r", {}).get("p", k), i),)))
            elif k == "pstruct":
                for name, s in p["f"]:
                    pat_binds(s, dict(origin, destruct=origin.get("destruct", ()) + ((p["r"].get("p", ""), name),)))

        for i, p in enumerate(self.params):
            pat_binds(p, {"from": "param", "index": i})
        for n in self.walk():
            k = n.get("k")
            if k == "let":
                pat_binds(n["pat"], {"from": "let", "init": n.get("init"), "node": n})
            elif k == "letx":
                pat_binds(n["pat"], {"from": "iflet", "init": n["init"], "node": n})
            elif k == "for":
                pat_binds(n["pat"], {"from": "for", "iter": n["iter"], "node": n})
            elif k == "match":
                for a in n["arms"]:
                    pat_binds(a["pat"], {"from": "match", "scrutinee": n["e"], "node": n, "arm": a})
            elif k == "closure":
                for i, p in enumerate(n["params"]):
                    pat_binds(p, {"from": "closure_param", "closure": n, "index": i})
        self._bindings = b
        return b

    def assignments_to(self, bid):
        """HIR assign nodes whose left side is the local binding `bid`."""
        out = []
        for n in self.walk():
            if n.get("k") in ("assign", "assignop"):
                l = n["l"]
                if l.get("k") == "path" and l["r"].get("k") == "local" and l["r"]["b"] == bid:
                    out.append(n)
        return out

    # ---- MIR ----------------------------------------------------------------------------
    @property
    def cfg(self):
        if self._cfg is None:
            self._cfg = Cfg(self)
        return self._cfg

    def mir_calls(self, suffix=None, pred=None):
        out = []
        for bi, b in enumerate(self.blocks):
            t = b["t"]
            if t["k"] != "call":
                continue
            if suffix is not None and not (path_matches(t["f"], suffix) or path_matches(t.get("raw", ""), suffix)):
                continue
            if pred is not None and not pred(t):
                continue
            out.append((bi, t))
        return out

    def blocks_of_span(self, s):
        """MIR blocks whose terminator carries exactly this HIR span."""
        key = span_key(s)
        return [bi for bi, b in enumerate(self.blocks) if "s" in b["t"] and span_key(b["t"]["s"]) == key]


def path_matches(path, suffix):
    """`suffix` matches a def path if equal or a `::`-aligned suffix, ignoring generic args in the path."""
    if path == suffix:
        return True
    p = strip_generics(path)
    if "<" in suffix:
        suffix = strip_generics(suffix)
    return p == suffix or p.endswith("::" + suffix)


def _unqualify(p):
    """`<T as Trait>::m` -> `T::m` (also nested inside closure paths)."""
    while p.startswith("<"):
        depth = 0
        end = -1
        for i, c in enumerate(p):
            if c == "<":
                depth += 1
            elif c == ">":
                depth -= 1
                if depth == 0:
                    end = i
                    break
        if end < 0:
            break
        inner = p[1:end]
        # split at top-level " as "
        d = 0
        cut = -1
        for i in range(len(inner)):
            c = inner[i]
            if c == "<":
                d += 1
            elif c == ">":
                d -= 1
            elif d == 0 and inner.startswith(" as ", i):
                cut = i
                break
        ty = inner[:cut] if cut >= 0 else inner
        p = ty + p[end + 1:]
    return p


def strip_generics(p):
    p = _unqualify(p)
    out = []
    depth = 0
    i = 0
    while i < len(p):
        c = p[i]
        if c == "<":
            depth += 1
        elif c == ">":
            depth -= 1
        elif depth == 0:
            out.append(c)
        i += 1
    s = "".join(out)
    while "::::" in s:
        s = s.replace("::::", "::")
    return s


# ------------------------------------------------------------------------------------------
# CFG
# ------------------------------------------------------------------------------------------

class Cfg:
    def __init__(self, fn, with_unwind=False):
        self.fn = fn
        n = len(fn.blocks)
        self.n = n
        self.succ = [[] for _ in range(n)]
        self.edge_label = {}
        for bi, b in enumerate(fn.blocks):
            t = b["t"]
            k = t["k"]
            s = []
            if k in ("goto",):
                s.append(t["t"])
            elif k == "switch":
                for v, tb in t["vals"]:
                    s.append(tb)
                    self.edge_label[(bi, tb)] = self.edge_label.get((bi, tb), []) + [v]
                s.append(t["else"])
                self.edge_label[(bi, t["else"])] = self.edge_label.get((bi, t["else"]), []) + ["else"]
            elif k in ("call", "drop", "assert"):
                if t.get("t") is not None:
                    s.append(t["t"])
                if with_unwind and t.get("u") is not None:
                    s.append(t["u"])
            # ret / unreachable / resume / abort: none
            seen = set()
            for x in s:
                if x not in seen:
                    seen.add(x)
                    self.succ[bi].append(x)
        self.pred = [[] for _ in range(n)]
        for a in range(n):
            for b in self.succ[a]:
                self.pred[b].append(a)
        self.reach = self._reach(0)
        self._dom = None
        self._pdom = None

    def _reach(self, start, succ=None):
        succ = succ or self.succ
        seen = {start}
        st = [start]
        while st:
            x = st.pop()
            for y in succ[x]:
                if y not in seen:
                    seen.add(y)
                    st.append(y)
        return seen

    def reachable_from(self, b, avoiding=()):
        avoiding = set(avoiding)
        if b in avoiding:
            return set()
        seen = {b}
        st = [b]
        while st:
            x = st.pop()
            for y in self.succ[x]:
                if y not in seen and y not in avoiding:
                    seen.add(y)
                    st.append(y)
        return seen

    @staticmethod
    def _dominators(n, entry_nodes, succ, pred):
        # iterative set-based dominators; fine for functions of a few hundred blocks
        allb = set(range(n))
        dom = [None] * n
        reach = set()
        st = list(entry_nodes)
        reach.update(entry_nodes)
        while st:
            x = st.pop()
            for y in succ[x]:
                if y not in reach:
                    reach.add(y)
                    st.append(y)
        for b in range(n):
            if b in entry_nodes:
                dom[b] = {b}
            elif b in reach:
                dom[b] = set(reach)
            else:
                dom[b] = set()
        changed = True
        order = sorted(reach)
        while changed:
            changed = False
            for b in order:
                if b in entry_nodes:
                    continue
                ps = [dom[p] for p in pred[b] if p in reach]
                if not ps:
                    new = {b}
                else:
                    new = set.intersection(*ps) | {b}
                if new != dom[b]:
                    dom[b] = new
                    changed = True
        return dom

    @property
    def dom(self):
        if self._dom is None:
            self._dom = self._dominators(self.n, {0}, self.succ, self.pred)
        return self._dom

    @property
    def exits(self):
        return [bi for bi, b in enumerate(self.fn.blocks) if b["t"]["k"] == "ret" and bi in self.reach]

    @property
    def pdom(self):
        """post-dominators w.r.t. normal returns (diverging ends are ignored)."""
        if self._pdom is None:
            self._pdom = self._dominators(self.n, set(self.exits), self.pred, self.succ)
        return self._pdom

    def dominates(self, a, b):
        return a in self.dom[b]

    def postdominates(self, a, b):
        return a in self.pdom[b]

    def in_cycle(self, b):
        for s in self.succ[b]:
            if b in self.reachable_from(s):
                return True
        return False

    def every_path_to_return_passes(self, blocks, start=0):
        """True iff no path start -> a return avoids all `blocks`."""
        r = self.reachable_from(start, avoiding=blocks)
        return not any(e in r for e in self.exits)


# ------------------------------------------------------------------------------------------
# Facts
# ------------------------------------------------------------------------------------------

class Facts:
    def __init__(self, path):
        self.file = path
        pk = path + ".pickle"
        data = None
        if os.path.exists(pk) and os.path.getmtime(pk) >= os.path.getmtime(path):
            try:
                with open(pk, "rb") as fh:
                    data = pickle.load(fh)
            except Exception:
                data = None
        if data is None:
            with open(path) as fh:
                data = json.load(fh)
            for f in data["fns"]:
                if "hir" in f:
                    f["hir"] = _resugar(f["hir"])
            for c in data["consts"]:
                c["init"] = _resugar(c["init"])
            try:
                tmp = pk + ".tmp%d" % os.getpid()
                with open(tmp, "wb") as fh:
                    pickle.dump(data, fh, protocol=pickle.HIGHEST_PROTOCOL)
                os.replace(tmp, pk)
            except OSError:
                pass
        self.raw = data
        self.fns = {}
        self.fn_list = []
        for f in data["fns"]:
            fn = Fn(f, self)
            # closures can share def_path_str (`{closure#0}` is unique per parent, keep all)
            self.fns.setdefault(fn.path, fn)
            self.fn_list.append(fn)
        self.impls = defaultdict(set)  # trait item -> impl items
        for t, i in data["impls"]:
            self.impls[t].add(i)
        self.types = {t["p"]: t for t in data["types"]}
        self.consts = {c["p"]: c for c in data["consts"]}
        self._cg = None
        # new private helpers (not in tables/known_functions.json) are analysed inline in their callers
        import inline
        inline.absorb(self)
        # equivalent spellings of one construct are brought to one form (engine/py/normalise.py)
        import normalise
        normalise.normalise(self)

    # ---- lookup -------------------------------------------------------------------------
    def fn(self, suffix):
        m = [f for f in self.fn_list if path_matches(f.path, suffix)]
        if not m:
            raise AnchorMissing("function `%s` not found in the analysed crate" % suffix)
        if len(m) > 1:
            exact = [f for f in m if f.path == suffix]
            if len(exact) == 1:
                return exact[0]
            raise AnchorMissing("function suffix `%s` is ambiguous: %s" % (suffix, [f.path for f in m][:5]))
        return m[0]

    def fns_matching(self, suffix):
        return [f for f in self.fn_list if path_matches(f.path, suffix)]

    def has_fn(self, suffix):
        return any(path_matches(f.path, suffix) for f in self.fn_list)

    def closures_of(self, fn):
        return [f for f in self.fn_list if f.parent_path == fn.path and f.kind == "Closure"]

    def type_(self, suffix):
        m = [t for p, t in self.types.items() if path_matches(p, suffix)]
        if len(m) != 1:
            raise AnchorMissing("type `%s` not found (or ambiguous)" % suffix)
        return m[0]

    def const(self, suffix):
        m = [c for p, c in self.consts.items() if path_matches(p, suffix)]
        if len(m) != 1:
            raise AnchorMissing("const `%s` not found (or ambiguous)" % suffix)
        return m[0]

    def const_value(self, suffix):
        c = self.const(suffix)
        return const_eval(c["init"], self)

    # ---- call graph ---------------------------------------------------------------------
    @property
    def callgraph(self):
        if self._cg is None:
            self._cg = CallGraph(self)
        return self._cg


def const_eval(n, facts=None):
    """Evaluates literal / simple constant expressions of HIR; returns None when unknown."""
    k = n.get("k")
    if k == "lit":
        v = n["v"]
        if "str" in v:
            return v["str"]
        if "int" in v:
            return int(v["int"])
        if "bool" in v:
            return v["bool"]
        if "char" in v:
            return v["char"]
        if "float" in v:
            return float(v["float"])
        return None
    if k in ("cast", "ref"):
        return const_eval(n["e"], facts)
    if k == "block" and not n["st"] and "tail" in n:
        return const_eval(n["tail"], facts)
    if k == "un" and n["op"] == "Neg":
        v = const_eval(n["e"], facts)
        return -v if isinstance(v, (int, float)) else None
    if k == "bin":
        a, b = const_eval(n["l"], facts), const_eval(n["r"], facts)
        if isinstance(a, int) and isinstance(b, int):
            op = n["op"]
            try:
                return {"Add": a + b, "Sub": a - b, "Mul": a * b, "Shl": a << b, "Shr": a >> b, "BitOr": a | b,
                        "BitAnd": a & b, "BitXor": a ^ b, "Div": a // b if b else None}.get(op)
            except Exception:
                return None
        return None
    if k == "path" and facts is not None and n["r"].get("k") == "def" and n["r"].get("dk", "").startswith(("Const", "Static", "AssocConst")):
        c = facts.consts.get(n["r"]["p"])
        if c is not None:
            return const_eval(c["init"], facts)
    if k == "path" and n["r"].get("k") == "def":
        m = _INT_LIMIT.match(n["r"].get("p", ""))
        if m:
            ty, which = m.group(1), m.group(2)
            bits = {"size": 64}.get(ty[1:], None) or int(ty[1:])
            if ty[0] == "u":
                return 0 if which == "MIN" else (1 << bits) - 1
            return -(1 << (bits - 1)) if which == "MIN" else (1 << (bits - 1)) - 1
    return None


_INT_LIMIT = re.compile(r"^core::num::<impl ([iu](?:8|16|32|64|128|size))>::(MIN|MAX)$")

ASYNC_RECEIVERS = ("std::thread::Builder::spawn", "std::thread::spawn", "schedule_with_delay", "tokio::spawn",
                   "tokio::task::spawn", "spawn_unchecked")


class CallGraph:
    """caller path -> list of edges {callee, kind, block, span, async}.

    kinds: static (resolved fn in crate or extern), dyn (expanded to all implementors),
    closure (closure/fn item passed as argument: attributed to the receiving call; when the
    receiver is an asynchronous spawner the edge is marked async=True and not followed by
    default).
    """

    def __init__(self, facts):
        self.facts = facts
        self.edges = defaultdict(list)
        local = {f.path for f in facts.fn_list}
        self.local = local
        for f in facts.fn_list:
            for bi, b in enumerate(f.blocks):
                t = b["t"]
                if t["k"] != "call":
                    continue
                callee = t["f"]
                is_async = any(a in callee for a in ASYNC_RECEIVERS)
                if t["disp"] == "dyn" or (t["disp"] == "unresolved" and callee in facts.impls):
                    for impl in sorted(facts.impls.get(callee, ())):
                        self.edges[f.path].append({"callee": impl, "kind": "dyn", "via": callee, "block": bi, "s": t["s"], "async": False, "disp": t["disp"]})
                    if not facts.impls.get(callee):
                        self.edges[f.path].append({"callee": callee, "kind": "dyn-extern", "via": callee, "block": bi, "s": t["s"], "async": False})
                else:
                    self.edges[f.path].append({"callee": callee, "kind": "static", "via": callee, "block": bi, "s": t["s"], "async": False})
                for c in t["clos"]:
                    self.edges[f.path].append({"callee": c, "kind": "closure", "via": callee, "block": bi, "s": t["s"], "async": is_async})
                if t["disp"] == "static" and t.get("targs"):
                    self.edges[f.path][-1 - len(t["clos"])]["self_ty"] = t["targs"][0]
        self.body_of = {p: p for p in local}
        self._specialise()

    # ---- context for trait default methods ---------------------------------------------
    def _specialise(self):
        """A static call `<T as Trait>::m` that resolves to Trait's *default* body `Trait::m` is linked to a
        specialised node `Trait::m{Self=T}` in which calls on Self to methods of the same trait go to T's
        implementation only (instead of every implementor)."""
        facts = self.facts
        # trait -> self type -> method -> impl item path
        table = defaultdict(lambda: defaultdict(dict))
        defaults = set()
        for titem, impls in facts.impls.items():
            trait, _, meth = titem.rpartition("::")
            for ip in impls:
                if ip == titem:
                    defaults.add(titem)
                elif ip.startswith("<") and " as " in ip:
                    ty = ip[1:ip.index(" as ")]
                    table[trait][ty][meth] = ip
        self._impl_table = table
        work = []

        def spec_name(default_item, ty):
            return "%s{Self=%s}" % (default_item, ty)

        def target_for(trait, ty, meth):
            """node that `<ty as trait>::meth` executes."""
            ip = table[trait].get(ty, {}).get(meth)
            if ip is not None:
                return ip
            ditem = "%s::%s" % (trait, meth)
            if ditem in defaults:
                n = spec_name(ditem, ty)
                if n not in self.body_of:
                    self.body_of[n] = ditem
                    self.local.add(n)
                    work.append((n, ditem, trait, ty))
                return n
            return None

        # 1. redirect static calls to default bodies with a concrete Self
        for caller in list(self.edges.keys()):
            for e in self.edges[caller]:
                if e["kind"] == "static" and e["callee"] in defaults:
                    ty = e.get("self_ty")
                    trait = e["callee"].rpartition("::")[0]
                    if ty and ty in table[trait]:
                        e["callee"] = target_for(trait, ty, e["callee"].rpartition("::")[2])
        # 2. build the specialised nodes
        while work:
            node, ditem, trait, ty = work.pop()
            out = []
            seen_sites = set()
            for e in self.edges.get(ditem, ()):
                via = e["via"]
                vtrait, _, vmeth = via.rpartition("::")
                if e["kind"] == "dyn" and vtrait == trait and e.get("disp") == "unresolved":
                    key = (e["block"], via)
                    if key in seen_sites:
                        continue
                    seen_sites.add(key)
                    tgt = target_for(trait, ty, vmeth)
                    if tgt is not None:
                        out.append(dict(e, callee=tgt, kind="static", ctx=ty))
                    continue
                if e["kind"] == "static" and e["callee"] in defaults and e.get("self_ty") == "Self" and e["callee"].rpartition("::")[0] == trait:
                    tgt = target_for(trait, ty, e["callee"].rpartition("::")[2])
                    out.append(dict(e, callee=tgt, ctx=ty))
                    continue
                out.append(e)
            self.edges[node] = out

    def fn_of(self, node):
        """The Fn whose body a call-graph node executes (specialised nodes share the default body)."""
        return self.facts.fns.get(self.body_of.get(node, node))

    def callees(self, path, follow_async=False):
        for e in self.edges.get(path, ()):
            if e["async"] and not follow_async:
                continue
            yield e

    def reachable(self, roots, follow_async=False, stop=lambda p: False):
        """Set of in-crate function paths reachable from roots; parents map for witnesses."""
        seen = {}
        st = []
        for r in roots:
            if r in self.local and r not in seen:
                seen[r] = None
                st.append(r)
        while st:
            x = st.pop()
            for e in self.callees(x, follow_async):
                c = e["callee"]
                if c in self.local and c not in seen and not stop(c):
                    seen[c] = (x, e)
                    st.append(c)
        return seen

    def witness(self, seen, target):
        chain = []
        cur = target
        while cur is not None and seen.get(cur) is not None:
            par, e = seen[cur]
            chain.append("%s @%s:%d" % (par, e["s"][6], e["s"][3]))
            cur = par
        return list(reversed(chain))

    def callers_of(self, suffix):
        out = []
        for caller, es in self.edges.items():
            for e in es:
                if path_matches(e["callee"], suffix) or path_matches(e["via"], suffix):
                    out.append((caller, e))
        return out
