"""Behaviour-preserving source idioms are brought to one form before the rules look at the HIR.

Only rewrites whose two sides are the same program are made, and only where the side conditions can be read off the tree:

  N1   if let Some(P) = ITER.find(|c| COND) { BODY }            (no else; BODY has no break / continue / return of its own)
       ==>   for P in ITER { if COND[c := &P] { BODY; break } }

       `find` visits the elements in order, evaluates COND once per element until it holds, and yields that element: exactly what
       the loop does. The rules about "first match wins" loops (C02 selectors) then apply to both spellings.

Facts.normalised: [(function path, rewrite id, line)].
"""
import copy


def _children(n):
    from facts import children
    return children(n)


def _walk(root):
    st = [root]
    while st:
        n = st.pop()
        yield n
        st.extend(reversed(_children(n)))


def _strip_ref(e):
    while isinstance(e, dict) and e.get("k") == "ref":
        e = e["e"]
    return e


def _subst(node, b_from, repl):
    if isinstance(node, list):
        return [_subst(x, b_from, repl) for x in node]
    if not isinstance(node, dict):
        return node
    if node.get("k") == "path" and isinstance(node.get("r"), dict) and node["r"].get("k") == "local" and node["r"].get("b") == b_from:
        return copy.deepcopy(repl)
    return {k: (v if k == "s" else _subst(v, b_from, repl)) for k, v in node.items()}


def _n1(fn, n, counter):
    if n.get("k") != "if" or "e" in n:
        return False
    c = n["c"]
    if c.get("k") != "letx":
        return False
    pat = c["pat"]
    if pat.get("k") != "pts" or not (pat.get("r") or {}).get("p", "").endswith("::Some") or len(pat.get("a", [])) != 1:
        return False
    p = pat["a"][0]
    if p.get("k") != "bind" or "sub" in p:
        return False
    init = c["init"]
    if init.get("k") != "mcall" or init.get("m") != "find" or len(init.get("a", [])) != 1 or "Iterator::find" not in (init.get("p") or ""):
        return False
    cl = _strip_ref(init["a"][0])
    if cl.get("k") != "closure" or len(cl.get("params", [])) != 1 or cl["params"][0].get("k") != "bind":
        return False
    body = n["t"]
    if body.get("k") != "block":
        return False
    if any(x.get("k") in ("break", "continue", "ret", "try") for x in _walk(body)):
        return False
    pc = cl["params"][0]["b"]
    elem = {"k": "ref", "e": {"k": "path", "r": {"k": "local", "b": p["b"], "n": p.get("n", "")}, "ty": p.get("ty", ""), "s": p.get("s", n["s"])},
            "s": n["s"]}
    cond = _subst(cl["body"], pc, elem)
    counter[0] += 1
    lid = "norm%d" % counter[0]
    seq = list(body["st"]) + ([body["tail"]] if "tail" in body else [])
    then = {"k": "block", "st": seq + [{"k": "break", "to": lid, "s": n["s"]}], "s": body.get("s", n["s"])}
    new = {"k": "for", "pat": p, "iter": init["r"], "s": n["s"], "id": lid, "label": None, "norm": "N1",
           "body": {"k": "block", "st": [{"k": "if", "c": cond, "t": then, "s": n["s"]}], "s": n["s"]}}
    n.clear()
    n.update(new)
    return True


def normalise(facts):
    facts.normalised = []
    counter = [0]
    for fn in facts.fn_list:
        if fn.hir is None or fn.kind == "Closure":
            continue
        changed = False
        for n in list(_walk(fn.hir)):
            if _n1(fn, n, counter):
                facts.normalised.append((fn.path, "N1", n["s"][3] if n.get("s") else 0))
                changed = True
        if changed:
            fn._parents = None
            fn._bindings = None
