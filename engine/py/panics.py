"""K5 — diverging-edge audit.

Enumerates every panic-capable edge of the functions reachable from an entry set:
  * calls to functions returning `!` (panic!, todo!, unreachable!, ...)
  * MIR Assert terminators (bounds, overflow, division/remainder by zero)
  * calls to std operations that panic on some input (table STD_PANICKING)
Each edge gets a stable key (function, kind, detail, ordinal) and an automatic class where one applies.
"""
import re
from collections import defaultdict

from facts import strip_generics

# (`::`-aligned suffix of the generics-stripped callee path, kind, when it panics)
STD_PANICKING = [
    ("option::Option::unwrap", "unwrap", "None"),
    ("option::Option::expect", "unwrap", "None"),
    ("result::Result::unwrap_err", "unwrap", "Ok"),
    ("result::Result::expect_err", "unwrap", "Ok"),
    ("result::Result::unwrap", "unwrap", "Err"),
    ("result::Result::expect", "unwrap", "Err"),
    ("ops::Index::index", "index", "out of range / missing key / not a char boundary"),
    ("ops::IndexMut::index_mut", "index", "out of range / missing key"),
    ("vec::Vec::remove", "vec-remove", "index out of range"),
    ("vec::Vec::swap_remove", "vec-remove", "index out of range"),
    ("vec::Vec::insert", "vec-insert", "index > len"),
    ("vec::Vec::split_off", "vec-split", "at > len"),
    ("vec::Vec::drain", "range", "range out of bounds"),
    ("string::String::remove", "string-remove", "index out of range / not a char boundary"),
    ("string::String::insert", "string-insert", "index out of range / not a char boundary"),
    ("string::String::insert_str", "string-insert", "index out of range / not a char boundary"),
    ("string::String::truncate", "string-truncate", "not a char boundary"),
    ("string::String::drain", "range", "range out of bounds / not a char boundary"),
    ("string::String::replace_range", "range", "range out of bounds / not a char boundary"),
    ("str::split_at", "range", "not a char boundary"),
    ("slice::split_at", "range", "mid > len"),
    ("copy_from_slice", "range", "length mismatch"),
    ("ops::Rem::rem", "rem", "divisor 0 (or MIN % -1)"),
    ("ops::Div::div", "div", "divisor 0 (or MIN / -1)"),
    ("ops::RemAssign::rem_assign", "rem", "divisor 0"),
    ("ops::DivAssign::div_assign", "div", "divisor 0"),
    ("cell::RefCell::borrow_mut", "refcell", "already borrowed"),
    ("cell::RefCell::borrow", "refcell", "already mutably borrowed"),
    ("iter::Iterator::step_by", "range", "step 0"),
    ("char::from_digit", "range", "radix > 36"),
]
INT_METHODS = re.compile(r"<impl [iu](8|16|32|64|128|size)>::(abs|pow|div_euclid|rem_euclid|isqrt)$")


def std_panicking(callee, targs, argtys):
    m = INT_METHODS.search(callee)
    if m:
        return m.group(2), "overflow / division by zero (overflow checks on)"
    c = strip_generics(callee)
    for pat, kind, when in STD_PANICKING:
        if c == pat or c.endswith("::" + pat):
            if kind in ("rem", "div"):
                # floating point division does not panic
                tys = [t for t in (targs or [])] + list(argtys or [])
                if tys and all(t.replace("&", "").strip() in ("f64", "f32") for t in tys[:2]):
                    return None
            return kind, when
    return None


class Edge:
    __slots__ = ("fn", "kind", "detail", "ordinal", "where", "block", "cls", "why", "term", "owner", "extra_guards")

    def __init__(self, fn, kind, detail, ordinal, where, block, term):
        self.fn, self.kind, self.detail, self.ordinal, self.where, self.block, self.term = fn, kind, detail, ordinal, where, block, term
        self.cls = None
        self.why = ""
        self.owner = fn          # the function the edge is accounted to (its only caller, for an absorbed helper: inline.py)
        self.extra_guards = 0    # controlling branches of the call site(s) in the owner

    @property
    def key(self):
        return "%s|%s|%s|%d" % (self.owner, self.kind, self.detail, self.ordinal)


def _macros(t):
    s = t.get("s")
    return s[7] if s else []


def edges_of(fn):
    """Panic-capable edges of one function body, in block order, with per-(kind,detail) ordinals."""
    out = []
    counts = defaultdict(int)
    for bi, b in enumerate(fn.blocks):
        if b["cleanup"]:
            continue
        t = b["t"]
        k = t["k"]
        e = None
        if k == "assert":
            if t["msg"] in ("misaligned", "nullptr"):
                continue   # debug-build pointer checks inserted by rustc, not source-level operations
            e = ("assert", t["msg"])
        elif k == "call":
            callee = t["f"]
            if t.get("div"):
                macs = [m for m in _macros(t) if m in ("panic", "todo", "unimplemented", "unreachable", "assert", "assert_eq", "assert_ne", "debug_assert")]
                what = macs[0] + "!" if macs else strip_generics(callee).split("::")[-1]
                e = ("diverge", what)
            else:
                sp = std_panicking(t.get("raw") or callee, t.get("targs"), t.get("argtys"))
                if sp is None and t.get("raw") and t["raw"] != callee:
                    sp = std_panicking(callee, t.get("targs"), t.get("argtys"))
                if sp:
                    recv_ty = (t.get("argtys") or [""])[0]
                    detail = strip_generics(t.get("raw") or callee).split("::")[-1]
                    if sp[0] == "index":
                        detail = "index:" + short_ty(recv_ty)
                    if sp[0] == "unwrap":
                        # name the operation whose result is unwrapped: ordinals then count per producer, so an unrelated
                        # unwrap added or removed elsewhere in the function does not renumber this edge
                        prod = _producer(fn, t["args"][0]) if t.get("args") else None
                        if prod:
                            detail = "%s<-%s" % (detail, prod)
                    e = (sp[0], detail)
        if e is None:
            continue
        counts[e] += 1
        s = t.get("s") or [0, 0, "", 0, 0, 0, "?", []]
        out.append(Edge(fn.path, e[0], e[1], counts[e], "%s:%d" % (s[6], s[3]), bi, t))
    return out


def _producer(fn, operand, depth=3):
    """Last path segment of the call that defined the (moved) operand, following plain moves/copies."""
    pl = operand.get("mv", operand.get("cp"))
    if pl is None:
        return None
    local = pl if isinstance(pl, int) else pl[0]
    for _ in range(depth):
        found = None
        for b in fn.blocks:
            t = b["t"]
            if t["k"] == "call":
                d = t["d"] if isinstance(t["d"], int) else t["d"][0]
                if d == local and isinstance(t["d"], int):
                    return strip_generics(t.get("raw") or t["f"]).split("::")[-1]
            for st in b["st"]:
                if st["k"] == "assign" and st["d"] == local and st["rv"]["k"] in ("use", "cast"):
                    o = st["rv"]["ops"][0]
                    p2 = o.get("mv", o.get("cp"))
                    if p2 is not None:
                        found = p2 if isinstance(p2, int) else p2[0]
        if found is None:
            return None
        local = found
    return None


def short_ty(t):
    t = t.replace("&mut ", "").replace("&", "")
    for pre, name in (("std::vec::Vec<", "Vec"), ("[", "slice"), ("std::collections::HashMap<", "HashMap"), ("str", "str"),
                      ("std::string::String", "String"), ("std::collections::VecDeque<", "VecDeque"), ("std::collections::BTreeMap<", "BTreeMap")):
        if t.startswith(pre):
            return name
    return t.split("<")[0].split("::")[-1]


def auto_class(edge, fn):
    """Automatically recognised classes (never findings by themselves)."""
    t = edge.term
    if edge.kind == "unwrap":
        a0 = (t.get("argtys") or [""])[0]
        if "PoisonError" in a0 or ("LockResult" in a0):
            return "lock-poison", "unwrap of a LockResult: panics only if another thread panicked while holding the lock"
        if "TryLockError" in a0:
            return None
    return None


def guard_count(fn, block):
    """Number of conditional branches that control `block`: switch blocks that dominate it and have at least one
    successor from which it cannot be reached."""
    cfg = fn.cfg
    n = 0
    for sb, blk in enumerate(fn.blocks):
        if blk["t"]["k"] != "switch" or sb == block or not cfg.dominates(sb, block):
            continue
        # (the `otherwise -> unreachable` successor of an exhaustive enum match is no decision)
        live = [s for s in cfg.succ[sb] if fn.blocks[s]["t"]["k"] != "unreachable"]
        if any(block not in cfg.reachable_from(s) for s in live):
            n += 1
    return n


def region(facts, roots, stop=lambda p: False):
    """call-graph nodes reachable from roots (sync calls + closures passed to synchronous receivers)."""
    cg = facts.callgraph
    seen = cg.reachable(roots, stop=stop)
    return seen


def collect(facts, nodes):
    """edges of all bodies behind the given call-graph nodes (each body once)."""
    cg = facts.callgraph
    bodies = []
    seenb = set()
    for n in sorted(nodes):
        b = cg.body_of.get(n, n)
        if b in seenb:
            continue
        seenb.add(b)
        fn = facts.fns.get(b)
        if fn is not None:
            bodies.append(fn)
    out = []
    for fn in bodies:
        for e in edges_of(fn):
            c = auto_class(e, fn)
            if c:
                e.cls, e.why = c
            out.append(e)
    # edges of an absorbed helper (a new private function with one calling function, engine/py/inline.py) are accounted to that
    # caller: the audit was made when the statements still stood there. Ordinals continue after the caller's own edges.
    absorbed = getattr(facts, "absorbed", {})
    if absorbed:
        own = defaultdict(int)
        for e in out:
            if e.fn not in absorbed:
                own[(e.fn, e.kind, e.detail)] = max(own[(e.fn, e.kind, e.detail)], e.ordinal)
        for helper in sorted({e.fn for e in out if e.fn in absorbed}):
            callers = absorbed.get(helper)
            if not callers or len(callers) != 1:
                continue
            owner = callers[0]
            ofn = facts.fns.get(owner)
            if ofn is None:
                continue
            sites = [bi for bi, t in ofn.mir_calls() if strip_generics(t["f"]) == strip_generics(helper)]
            extra = min([guard_count(ofn, bi) for bi in sites] or [0])
            top = defaultdict(int)
            for e in out:
                if e.fn != helper:
                    continue
                e.extra_guards = extra
                e.owner = owner
                top[(e.kind, e.detail)] = max(top[(e.kind, e.detail)], e.ordinal)
                e.ordinal = own[(owner, e.kind, e.detail)] + e.ordinal
            for (kind, detail), n in top.items():
                own[(owner, kind, detail)] += n
    return bodies, out


# ------------------------------------------------------------------------------------------
# checked discharge: constant index / remove(k) under a dominating length test
# ------------------------------------------------------------------------------------------

def _ref_base(fn, local):
    """If `local` is assigned `&place` / `&mut place` somewhere: the place as a hashable key."""
    for b in fn.blocks:
        for st in b["st"]:
            if st["k"] == "assign" and st["d"] == local and st["rv"]["k"] == "ref":
                p = st["rv"]["p"]
                return tuple(p) if isinstance(p, list) else (p,)
    return None


def _len_locals(fn):
    """local -> base key of the container whose length it holds."""
    out = {}
    for b in fn.blocks:
        for st in b["st"]:
            if st["k"] == "assign" and isinstance(st["d"], int) and st["rv"]["k"] == "un" and st["rv"].get("op") == "PtrMetadata":
                o = st["rv"]["ops"][0]
                pl = o.get("cp", o.get("mv"))
                if isinstance(pl, int):
                    out[st["d"]] = (pl, "*")
                elif isinstance(pl, list):
                    out[st["d"]] = tuple(pl) + ("*",)
        t = b["t"]
        if t["k"] == "call" and isinstance(t["d"], int):
            c = strip_generics(t["f"])
            if c.endswith("::len") and ("slice" in c or "Vec" in c or "vec" in c or "String" in c or "str" in c or "VecDeque" in c):
                a = t["args"][0]
                pl = a.get("mv", a.get("cp"))
                if isinstance(pl, int):
                    base = _ref_base(fn, pl)
                    if base is not None:
                        out[t["d"]] = base
    # copies
    changed = True
    while changed:
        changed = False
        for b in fn.blocks:
            for st in b["st"]:
                if st["k"] == "assign" and isinstance(st["d"], int) and st["rv"]["k"] == "use":
                    o = st["rv"]["ops"][0]
                    pl = o.get("cp", o.get("mv"))
                    if isinstance(pl, int) and pl in out and st["d"] not in out:
                        out[st["d"]] = out[pl]
                        changed = True
    return out


def _const_of(o):
    if "c" in o and "v" in o:
        try:
            return int(o["v"])
        except ValueError:
            return None
    return None


def constant_access(fn, edge):
    """(base key, constant index k) of a bounds assert / Vec::remove(k) / Vec::insert(k, ..) edge, else None."""
    t = edge.term
    blk = fn.blocks[edge.block]
    if t["k"] == "assert" and t["msg"] == "bounds":
        cond = t["cond"]
        cl = cond.get("mv", cond.get("cp"))
        lt = None
        for st in blk["st"]:
            if st["k"] == "assign" and st["d"] == cl and st["rv"]["k"] == "bin" and st["rv"]["op"] == "Lt":
                lt = st["rv"]["ops"]
        if not lt:
            return None
        consts = {}
        for st in blk["st"]:
            if st["k"] == "assign" and isinstance(st["d"], int) and st["rv"]["k"] == "use":
                v = _const_of(st["rv"]["ops"][0])
                if v is not None:
                    consts[st["d"]] = v
        idx, ln = lt
        il = idx.get("cp", idx.get("mv"))
        k = consts.get(il) if isinstance(il, int) else _const_of(idx)
        ll = ln.get("cp", ln.get("mv"))
        base = _len_locals(fn).get(ll) if isinstance(ll, int) else None
        if k is None or base is None:
            return None
        return base, k
    if t["k"] == "call" and edge.kind in ("vec-remove",):
        a0, a1 = t["args"][0], t["args"][1]
        k = _const_of(a1)
        pl = a0.get("mv", a0.get("cp"))
        base = _ref_base(fn, pl) if isinstance(pl, int) else None
        if k is None or base is None:
            return None
        return base, k
    return None


def len_guard_discharge(fn, edge):
    """True (with text) when the access with constant index k is dominated by a branch edge implying len(base) > k."""
    ca = constant_access(fn, edge)
    if ca is None:
        return None
    base, k = ca
    lens = _len_locals(fn)
    cfg = fn.cfg
    for sb, blk in enumerate(fn.blocks):
        t = blk["t"]
        if t["k"] != "switch" or sb == edge.block or not cfg.dominates(sb, edge.block):
            continue
        d = t["op"].get("mv", t["op"].get("cp"))
        if not isinstance(d, int):
            continue
        for st in blk["st"]:
            if st["k"] == "assign" and st["d"] == d and st["rv"]["k"] == "bin":
                op = st["rv"]["op"]
                a, b = st["rv"]["ops"]
                al, bl = a.get("mv", a.get("cp")), b.get("mv", b.get("cp"))
                n = None
                if isinstance(al, int) and lens.get(al) == base and _const_of(b) is not None:
                    n = _const_of(b)
                elif isinstance(bl, int) and lens.get(bl) == base and _const_of(a) is not None:
                    n = _const_of(a)
                    op = {"Lt": "Gt", "Gt": "Lt", "Le": "Ge", "Ge": "Le"}.get(op, op)
                if n is None:
                    continue
                true_t = t["else"]
                false_t = [tb for v, tb in t["vals"] if v == "0"]
                implied_on_true = (op == "Eq" and n > k) or (op == "Ge" and n > k) or (op == "Gt" and n >= k)
                implied_on_false = (op == "Ne" and n > k) or (op == "Lt" and n > k) or (op == "Le" and n >= k)
                if implied_on_true and set(cfg.pred[true_t]) == {sb} and cfg.dominates(true_t, edge.block) and true_t not in false_t:
                    return "dominated by the true edge of len %s %d (index %d)" % (op, n, k)
                if implied_on_false:
                    for ft in false_t:
                        if set(cfg.pred[ft]) == {sb} and cfg.dominates(ft, edge.block) and ft != true_t:
                            return "dominated by the false edge of len %s %d (index %d)" % (op, n, k)
    return None
