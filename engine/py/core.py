"""Check context: obligations, floors, violations, known findings, evidence."""
import json
import os
import sys
import time
import traceback

from facts import AnchorMissing, Facts
import extract

VERIF = extract.VERIF


class Obligation:
    __slots__ = ("rule", "key", "ok", "where", "detail", "kind")

    def __init__(self, rule, key, ok, where, detail, kind):
        self.rule, self.key, self.ok, self.where, self.detail, self.kind = rule, key, ok, where, detail, kind

    @property
    def id(self):
        return "%s|%s" % (self.rule, self.key)


class Ctx:
    def __init__(self, prop, tier="quick", repo=None, configs=("default",)):
        self.prop = prop
        self.tier = tier
        self.repo = repo or extract.REPO
        self.t0 = time.time()
        self.obs = []
        self.rules = {}
        self.assumptions = []
        self.analysed = {}
        self.extra = {}
        self.configs = configs
        self._facts = {}
        self.config = configs[0]
        self.explanation = ""

    # ---- facts ------------------------------------------------------------------------
    def facts_for(self, config):
        if config not in self._facts:
            path = extract.ensure_facts(config, repo=self.repo)
            f = Facts(path)
            self._facts[config] = f
            self.analysed[config] = {
                "bodies": len(f.fn_list),
                "call_sites": sum(1 for fn in f.fn_list for b in fn.blocks if b["t"]["k"] == "call"),
                "fact_file": os.path.basename(path),
            }
            if getattr(f, "absorbed", None) or getattr(f, "not_absorbed", None):
                # functions that are not in tables/known_functions.json (engine/py/inline.py)
                self.analysed[config]["new_private_helpers_analysed_inside_their_callers"] = f.absorbed
                self.analysed[config]["new_private_functions_left_alone"] = f.not_absorbed
        return self._facts[config]

    @property
    def facts(self):
        return self.facts_for(self.config)

    # ---- recording --------------------------------------------------------------------
    def rule(self, rid, text):
        self.rules[rid] = text

    def ob(self, rule, key, ok, where="", detail="", kind="site"):
        """One obligation = one (rule, site). `key` must be stable under unrelated edits
        (function path + construct + ordinal; never a line number)."""
        if self.config != "default":
            key = "%s@%s" % (key, self.config)
        self.obs.append(Obligation(rule, key, bool(ok), where, detail, kind))
        return bool(ok)

    def floor(self, rule, what, count, minimum):
        """Fail closed when a rule matches fewer sites than were confirmed by hand.
        minimum: a number, or {config: number} where feature configurations legitimately differ (counted per configuration)."""
        if isinstance(minimum, dict):
            minimum = minimum.get(self.config, minimum.get("default", 0))
        return self.ob(rule, "floor:" + what, count >= minimum, "",
                       "%s: matched %d site(s), floor %d" % (what, count, minimum), kind="floor")

    def exact(self, rule, what, count, expected):
        return self.ob(rule, "count:" + what, count == expected, "",
                       "%s: matched %d site(s), expected exactly %d" % (what, count, expected), kind="floor")

    def guard(self, rule, fn):
        """Runs fn(); a missing anchor is a failed obligation (fail closed), not a crash."""
        try:
            fn()
        except AnchorMissing as e:
            self.ob(rule, "anchor", False, "", "anchor missing: %s" % e, kind="anchor")
        except (KeyError, IndexError, TypeError, AttributeError) as e:
            tb = traceback.format_exc().strip().splitlines()
            self.ob(rule, "anchor", False, "", "rule could not be evaluated (%s: %s) at %s" % (type(e).__name__, e, tb[-3].strip() if len(tb) > 2 else ""), kind="anchor")

    # ---- verdict ----------------------------------------------------------------------
    def finish(self):
        kf = load_known_findings()
        known = {k["key"]: k for k in kf.get("findings", []) if k.get("property") == self.prop}
        violations = []
        knowns = []
        seen = set()
        for o in self.obs:
            if o.ok:
                continue
            if o.id in seen:
                continue
            seen.add(o.id)
            base = o.id.rsplit("@", 1)[0] if o.id.rsplit("@", 1)[-1] in extract.CONFIGS else o.id
            if o.id in known or base in known:
                knowns.append((o, known.get(o.id) or known[base]))
            else:
                violations.append(o)
        evdir = os.environ.get("RFSM_EVIDENCE_DIR") or os.path.join(VERIF, "evidence")
        os.makedirs(evdir, exist_ok=True)
        replay = os.path.join(evdir, "%s.report.txt" % self.prop)
        lines = []
        for o, k in knowns:
            msg = "KNOWN-FINDING: property=%s %s [%s] %s %s" % (self.prop, k.get("what", ""), o.id, o.where, o.detail)
            print(msg)
            lines.append(msg)
        for o in violations:
            lines.append("VIOLATION %s rule=%s key=%s at %s: %s\n    rule text: %s" % (
                self.prop, o.rule, o.key, o.where or "-", o.detail, self.rules.get(o.rule, "")))
        with open(replay, "w") as fh:
            fh.write("\n".join(lines) + "\n")
        for o in violations:
            print("  %s %s at %s: %s" % (o.rule, o.key, o.where or "-", o.detail))
        total = len(self.obs)
        discharged = sum(1 for o in self.obs if o.ok)
        nontrivial = len({o.rule for o in self.obs if o.kind == "site"})
        samples = []
        per_rule = {}
        for o in self.obs:
            if o.kind == "site" and per_rule.get(o.rule, 0) < 2:
                per_rule[o.rule] = per_rule.get(o.rule, 0) + 1
                samples.append({"rule": o.rule, "site": o.key, "where": o.where, "ok": o.ok, "fact": o.detail[:300]})
        ev = {
            "property_id": self.prop,
            "tier": self.tier,
            "seed": int(os.environ.get("VERIF_SEED", "0") or 0),
            "level": "other",
            "coverage": {
                "explanation": self.explanation or "rule-based static obligations over the resolved HIR/MIR of /repo's working tree",
                "obligations": total,
                "discharged": discharged,
                "evaluations": total,
                "distinct_nontrivial": nontrivial,
                "rule": "one evaluation = one (rule instance, program site) pair decided on the compiler's resolved HIR/MIR; "
                        "distinct_nontrivial = number of distinct rule instances that matched at least one real site "
                        "(floors and anchors not counted)",
                "rules": self.rules,
                "samples": samples[:60],
                "analysed": self.analysed,
                "known_findings_reported": [o.id for o, _ in knowns],
                "violation_keys": [o.id for o in violations],
                "exhaustive": False,
            },
            "assumptions": self.assumptions,
            "wall_s": round(time.time() - self.t0, 3),
            "violations": len(violations),
        }
        ev["coverage"].update(self.extra)
        tmp = os.path.join(evdir, "%s.json.tmp%d" % (self.prop, os.getpid()))
        with open(tmp, "w") as fh:
            json.dump(ev, fh, indent=1)
        os.replace(tmp, os.path.join(evdir, "%s.json" % self.prop))
        print("%s: %d obligations, %d discharged, %d known finding(s), %d violation(s) [%s, %.1fs]" % (
            self.prop, total, discharged, len(knowns), len(violations), self.tier, time.time() - self.t0))
        if violations:
            print("VIOLATION property=%s replay=%s" % (self.prop, replay))
            return 1
        return 0


def load_known_findings():
    p = os.path.join(VERIF, "known_findings.json")
    out = {"findings": [], "fixed": []}
    if os.path.exists(p):
        with open(p) as fh:
            d = json.load(fh)
        out["findings"] += d.get("findings", [])
        out["fixed"] += d.get("fixed", [])
    # work-in-progress drop-ins (merged into known_findings.json before a release of /verif)
    dd = os.path.join(VERIF, "known_findings.d")
    if os.path.isdir(dd):
        for f in sorted(os.listdir(dd)):
            if f.endswith(".json"):
                with open(os.path.join(dd, f)) as fh:
                    d = json.load(fh)
                out["findings"] += d.get("findings", [])
                out["fixed"] += d.get("fixed", [])
    return out
