"""K6 — lock analysis over MIR.

* held-guard dataflow per function (forward may-analysis over locals whose type holds a MutexGuard by value)
* interprocedural acquisition summaries Acq*(f) with one witness chain per (class, mode)
* lock-order edges (held class -> acquired class) with witnesses and thread roles
* blocking calls made while a lock is held
"""
from collections import defaultdict

from facts import path_matches, strip_generics

LOCK_FNS = ("std::sync::Mutex::<T>::lock",)
TRYLOCK_FNS = ("std::sync::Mutex::<T>::try_lock",)

# short names of the lock classes of this code base (by the type guarded); everything else keeps its type name
CLASS_NAMES = {
    "fsm::GlobalData": "G",
    "datamodel::Data": "V",
    "fsm_executor::ExecutorState": "E",
    "std::boxed::Box<dyn event_io_processor::EventIOProcessor>": "P",
    "std::collections::HashMap<std::string::String, std::boxed::Box<dyn actions::Action>>": "A",
    "std::collections::HashMap<std::string::String, std::boxed::Box<dyn datamodel::DatamodelFactory>>": "F",
    "std::boxed::Box<dyn tracer::TracerFactory>": "T",
    "std::sync::mpsc::Receiver<std::boxed::Box<fsm::Event>>": "R",
    "std::sync::mpsc::Receiver<T>": "R",
}


def cls(ty):
    return CLASS_NAMES.get(ty, ty)


def place_local(p):
    return p if isinstance(p, int) else p[0]


def place_is_local(p):
    return isinstance(p, int)


def _moved_locals(operands):
    out = []
    for o in operands:
        if "mv" in o:
            out.append(o["mv"])
    return out


class HeldFlow:
    """Result of the per-function dataflow: held[b] = set of guard locals live at the terminator of block b."""

    def __init__(self, fn):
        self.fn = fn
        self.glocal = {i: l["g"] for i, l in enumerate(fn.locals) if l.get("g")}
        self.entry_classes = set()
        # by-reference guards handed in (params / closure upvars): the caller holds them while we run
        for i in range(1, fn.argc + 1):
            l = fn.locals[i]
            if not l.get("g") and l.get("gr"):
                self.entry_classes.add(cls(l["gr"]))
        for u in fn.upvars:
            if u.get("gr"):
                self.entry_classes.add(cls(u["gr"]))
        self.at_term = {}
        self._run()

    def _run(self):
        fn = self.fn
        nb = len(fn.blocks)
        inset = [None] * nb
        init = set(i for i in range(1, fn.argc + 1) if i in self.glocal)
        inset[0] = frozenset(init)
        work = [0]
        while work:
            b = work.pop()
            cur = set(inset[b])
            blk = fn.blocks[b]
            for st in blk["st"]:
                k = st["k"]
                if k == "assign":
                    rv = st["rv"]
                    moved = False
                    for p in _moved_locals(rv.get("ops", [])):
                        l = place_local(p)
                        if l in cur:
                            moved = True
                            if place_is_local(p):
                                cur.discard(l)
                    d = place_local(st["d"])
                    if moved and d in self.glocal:
                        cur.add(d)
                elif k == "dead":
                    cur.discard(st["l"])
            self.at_term[b] = frozenset(cur)
            t = blk["t"]
            tk = t["k"]
            succs = []
            if tk == "call":
                after = set(cur)
                for p in _moved_locals(t["args"]):
                    if place_is_local(p):
                        after.discard(p)
                d = place_local(t["d"])
                if d in self.glocal:
                    after.add(d)
                if t.get("t") is not None:
                    succs.append((t["t"], after))
            elif tk == "drop":
                after = set(cur)
                if place_is_local(t["p"]):
                    after.discard(t["p"])
                succs.append((t["t"], after))
            elif tk == "goto":
                succs.append((t["t"], cur))
            elif tk == "switch":
                for _, tb in t["vals"]:
                    succs.append((tb, cur))
                succs.append((t["else"], cur))
            elif tk == "assert":
                succs.append((t["t"], cur))
            for s, st_ in succs:
                new = frozenset(st_) if inset[s] is None else (inset[s] | frozenset(st_))
                if inset[s] is None or new != inset[s]:
                    inset[s] = new
                    work.append(s)

    def held_classes_at_call(self, b):
        """Lock classes held while the call terminating block b executes (guards moved into the call excluded)."""
        cur = set(self.at_term.get(b, ()))
        t = self.fn.blocks[b]["t"]
        if t["k"] == "call":
            for p in _moved_locals(t["args"]):
                if place_is_local(p):
                    cur.discard(p)
        return {cls(self.glocal[l]) for l in cur} | self.entry_classes

    def held_locals_at(self, b):
        return set(self.at_term.get(b, ()))


def acquisition_of(t):
    """(class, mode) if the MIR call terminator t is a Mutex lock / try_lock."""
    if t["k"] != "call":
        return None
    raw = t.get("raw") or t["f"]
    if raw.endswith("Mutex::<T>::lock"):
        mode = "block"
    elif raw.endswith("Mutex::<T>::try_lock"):
        mode = "try"
    else:
        return None
    ty = t["targs"][0] if t.get("targs") else "?"
    return cls(ty), mode


BLOCKING = [
    ("mpsc::Receiver::<T>::recv", "channel recv"),
    ("mpsc::Receiver::<T>::recv_timeout", "channel recv"),
    ("thread::JoinHandle::<T>::join", "thread join"),
    ("std::thread::sleep", "sleep"),
    ("ureq::", "network I/O"),
    ("std::fs::", "file I/O"),
    ("std::io::Read::read", "file I/O"),
    ("scxml_reader::", "XML parsing (file/network I/O, panics on bad input)"),
    ("tokio::runtime::Runtime::block_on", "block_on"),
]


def blocking_kind(callee):
    c = strip_generics(callee)
    for pat, what in BLOCKING:
        if strip_generics(pat).rstrip(":") in c:
            return what
    return None


class LockAnalysis:
    def __init__(self, facts):
        self.F = facts
        self.cg = facts.callgraph
        self.flow = {}
        for fn in facts.fn_list:
            self.flow[fn.path] = HeldFlow(fn)
        self.byname = {fn.path: fn for fn in facts.fn_list}
        # call-graph nodes: every function + specialised trait default bodies (sharing the MIR of the default)
        self.nodes = sorted(self.cg.local)
        self._direct()
        self._summaries()
        self._edges()

    # ---- direct acquisitions -----------------------------------------------------------
    def _direct(self):
        self.direct = defaultdict(list)  # fn -> [(class, mode, block, span, held classes)]
        self.blocking_direct = defaultdict(list)  # fn -> [(what, callee, block, span)]
        for fn in self.F.fn_list:
            fl = self.flow[fn.path]
            for bi, b in enumerate(fn.blocks):
                t = b["t"]
                if t["k"] != "call":
                    continue
                a = acquisition_of(t)
                if a:
                    self.direct[fn.path].append((a[0], a[1], bi, t["s"], fl.held_classes_at_call(bi)))
                bk = blocking_kind(t["f"])
                if bk:
                    self.blocking_direct[fn.path].append((bk, t["f"], bi, t["s"]))

    # ---- transitive summaries ----------------------------------------------------------
    def _summaries(self):
        """acq[f] = {(class, mode): witness chain [ "fn @file:line", ... ]}; blk[f] likewise for blocking calls."""
        body = self.cg.body_of
        self.acq = {n: {} for n in self.nodes}
        self.blk = {n: {} for n in self.nodes}
        for n in self.nodes:
            f = body[n]
            for c, m, bi, s, _h in self.direct.get(f, ()):
                self.acq[n].setdefault((c, m), ["%s @%s:%d" % (f, s[6], s[3])])
            for what, callee, bi, s in self.blocking_direct.get(f, ()):
                self.blk[n].setdefault(what, ["%s @%s:%d -> %s" % (f, s[6], s[3], callee)])
        changed = True
        rounds = 0
        while changed and rounds < 60:
            changed = False
            rounds += 1
            for n in self.nodes:
                for e in self.cg.callees(n):
                    c = e["callee"]
                    if c not in self.acq:
                        continue
                    here = "%s @%s:%d" % (body[n], e["s"][6], e["s"][3])
                    for k, w in self.acq[c].items():
                        if k not in self.acq[n]:
                            self.acq[n][k] = [here] + w
                            changed = True
                    for k, w in self.blk[c].items():
                        if k not in self.blk[n]:
                            self.blk[n][k] = [here] + w
                            changed = True

    # ---- order edges -------------------------------------------------------------------
    def _edges(self):
        """edges[(held, acquired, mode)] = [ {fn, where, chain} ]; held_blocking[(held, what)] likewise."""
        self.edges = defaultdict(list)
        self.held_blocking = defaultdict(list)
        done_direct = set()
        for node in self.nodes:
            fn = self.byname[self.cg.body_of[node]]
            fl = self.flow[fn.path]
            # direct (once per body)
            first = fn.path not in done_direct
            done_direct.add(fn.path)
            for c, m, bi, s, held in (self.direct.get(fn.path, ()) if first else ()):
                for x in held:
                    self.edges[(x, c, m)].append({"fn": fn.path, "node": node, "block": bi, "where": "%s:%d" % (s[6], s[3]), "chain": ["%s @%s:%d" % (fn.path, s[6], s[3])], "direct": True})
            for what, callee, bi, s in (self.blocking_direct.get(fn.path, ()) if first else ()):
                for x in fl.held_classes_at_call(bi):
                    self.held_blocking[(x, what)].append({"fn": fn.path, "where": "%s:%d" % (s[6], s[3]), "chain": ["%s @%s:%d -> %s" % (fn.path, s[6], s[3], callee)], "direct": True})
            # through calls
            by_block = defaultdict(list)
            for e in self.cg.callees(node):
                by_block[e["block"]].append(e)
            for bi, es in by_block.items():
                held = fl.held_classes_at_call(bi)
                if not held:
                    continue
                for e in es:
                    c = e["callee"]
                    if c not in self.acq:
                        continue
                    here = "%s @%s:%d" % (fn.path, e["s"][6], e["s"][3])
                    for (ac, m), w in self.acq[c].items():
                        for x in held:
                            self.edges[(x, ac, m)].append({"fn": fn.path, "node": node, "block": bi, "where": "%s:%d" % (e["s"][6], e["s"][3]), "chain": [here] + w, "direct": False})
                    for what, w in self.blk[c].items():
                        for x in held:
                            self.held_blocking[(x, what)].append({"fn": fn.path, "where": "%s:%d" % (e["s"][6], e["s"][3]), "chain": [here] + w, "direct": False})

    # ---- thread roles ------------------------------------------------------------------
    def roles(self, role_roots):
        """role name -> set of functions reachable from its roots (synchronous calls only)."""
        out = {}
        for name, roots in role_roots.items():
            out[name] = set(self.cg.reachable(roots).keys())
        return out

    def class_graph(self, blocking_only=True):
        g = defaultdict(set)
        for (x, c, m) in self.edges:
            if blocking_only and m != "block":
                continue
            g[x].add(c)
        return g
