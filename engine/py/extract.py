"""Fact extraction: runs the rustc_private driver over /repo's *current working tree*.

The fact file is cached under /verif/.cache/facts/<config>-<hash>.json where <hash> covers
every file that can influence the analysed program (src/**, Cargo.toml, Cargo.lock), the
configuration and the driver binary. Nothing under /repo is written.
"""
import fcntl
import hashlib
import os
import shutil
import subprocess
import sys
import time

VERIF = os.path.dirname(os.path.dirname(os.path.dirname(os.path.abspath(__file__))))
REPO = os.environ.get("RFSM_REPO", "/repo")
CACHE = os.environ.get("RFSM_CACHE", os.path.join(VERIF, ".cache"))
DRIVER_DIR = os.path.join(VERIF, "engine", "driver")
DRIVER = os.path.join(DRIVER_DIR, "target", "release", "rfsm-facts")

# name -> (cargo arguments, crates to dump)
CONFIGS = {
    "default": (["--lib"], "rufsm"),
    "minimal": (["--lib", "--no-default-features", "--features", "RfsmExpressionModel,serializer,xml"], "rufsm"),
    "all": (["--lib", "--all-features"], "rufsm"),
}


class ExtractError(Exception):
    pass


def _sysroot():
    return subprocess.check_output(["rustc", "+nightly", "--print", "sysroot"], text=True).strip()


def build_driver():
    env = dict(os.environ, CARGO_NET_OFFLINE="true")
    r = subprocess.run(["cargo", "build", "--offline", "--release"], cwd=DRIVER_DIR, env=env,
                       stdout=subprocess.PIPE, stderr=subprocess.STDOUT, text=True)
    if r.returncode != 0 or not os.path.exists(DRIVER):
        raise ExtractError("driver build failed:\n" + r.stdout[-4000:])


def tree_hash(repo, config):
    h = hashlib.sha256()
    h.update(config.encode())
    files = []
    for root, dirs, fs in os.walk(os.path.join(repo, "src")):
        dirs.sort()
        for f in sorted(fs):
            files.append(os.path.join(root, f))
    for f in ("Cargo.toml", "Cargo.lock", "build.rs"):
        p = os.path.join(repo, f)
        if os.path.exists(p):
            files.append(p)
    for p in files:
        h.update(os.path.relpath(p, repo).encode())
        with open(p, "rb") as fh:
            h.update(hashlib.sha256(fh.read()).digest())
    with open(DRIVER, "rb") as fh:
        h.update(hashlib.sha256(fh.read()).digest())
    return h.hexdigest()[:24]


def ensure_facts(config="default", repo=None, target_dir=None, verbose=False):
    """Returns the path of a fact file for `repo`'s current working tree."""
    repo = repo or REPO
    if config not in CONFIGS:
        raise ExtractError("unknown configuration " + config)
    os.makedirs(os.path.join(CACHE, "facts"), exist_ok=True)
    def stale():
        src = os.path.join(DRIVER_DIR, "src", "main.rs")
        return not os.path.exists(DRIVER) or os.path.getmtime(DRIVER) < os.path.getmtime(src)
    if stale():
        with open(os.path.join(CACHE, "driver.lock"), "w") as lk:
            fcntl.flock(lk, fcntl.LOCK_EX)
            if stale():
                build_driver()
    key = tree_hash(repo, config)
    out = os.path.join(CACHE, "facts", "%s-%s.json" % (config, key))
    if os.path.exists(out):
        return out
    target = target_dir or os.environ.get("RFSM_TARGET_DIR") or os.path.join(CACHE, "target")
    os.makedirs(target, exist_ok=True)
    with open(os.path.join(target, ".rfsm-extract.lock"), "w") as lk:
        fcntl.flock(lk, fcntl.LOCK_EX)
        if os.path.exists(out):
            return out
        t0 = time.time()
        # cargo's freshness cache would skip the wrapper: drop the crate's fingerprints
        fp = os.path.join(target, "debug", ".fingerprint")
        if os.path.isdir(fp):
            for d in os.listdir(fp):
                if d.startswith("ruFsm-"):
                    shutil.rmtree(os.path.join(fp, d), ignore_errors=True)
        outdir = os.path.join(CACHE, "facts", "tmp-%s-%d" % (key, os.getpid()))
        os.makedirs(outdir, exist_ok=True)
        args, crates = CONFIGS[config]
        env = dict(os.environ)
        env.update({
            "LD_LIBRARY_PATH": _sysroot() + "/lib",
            "RUSTFLAGS": "-Zmir-opt-level=0 -Awarnings",
            "RUSTC_WORKSPACE_WRAPPER": DRIVER,
            "RFSM_FACTS_OUT": outdir,
            "RFSM_FACTS_CRATE": crates,
            "CARGO_TARGET_DIR": target,
            "CARGO_NET_OFFLINE": "true",
        })
        env.pop("RUSTC_WRAPPER", None)
        cmd = ["cargo", "+nightly", "check", "--offline"] + args
        r = subprocess.run(cmd, cwd=repo, env=env, stdout=subprocess.PIPE, stderr=subprocess.STDOUT, text=True)
        produced = os.path.join(outdir, "rufsm.facts.json")
        if r.returncode != 0:
            shutil.rmtree(outdir, ignore_errors=True)
            raise ExtractError("BROKEN BUILD: /repo does not compile in configuration '%s':\n%s" % (config, r.stdout[-6000:]))
        if not os.path.exists(produced):
            shutil.rmtree(outdir, ignore_errors=True)
            raise ExtractError("driver wrote no fact file (cargo skipped the wrapper?)\n" + r.stdout[-3000:])
        os.replace(produced, out)
        shutil.rmtree(outdir, ignore_errors=True)
        if verbose:
            print("extracted %s in %.1fs" % (out, time.time() - t0), file=sys.stderr)
        # keep the cache small: drop fact files beyond the 24 newest - but never one younger than 20 minutes, which a
        # concurrent check (self-test, seeded/benign evaluation) may be about to read
        fdir = os.path.join(CACHE, "facts")
        olds = sorted((os.path.getmtime(os.path.join(fdir, f)), f) for f in os.listdir(fdir) if f.endswith(".json"))
        now = time.time()
        for mt, f in olds[:-24]:
            if now - mt < 1200:
                continue
            for g in (f, f + ".pickle"):
                try:
                    os.remove(os.path.join(fdir, g))
                except OSError:
                    pass
    return out


if __name__ == "__main__":
    cfg = sys.argv[1] if len(sys.argv) > 1 else "default"
    print(ensure_facts(cfg, verbose=True))
