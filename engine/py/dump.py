#!/usr/bin/env python3
"""Debug aid: dump.py <fn-suffix> [hir|mir|calls]  — prints a compact view of one function."""
import sys, os
sys.path.insert(0, os.path.dirname(os.path.abspath(__file__)))
import extract
from facts import Facts, children


def sx(n, ind=0, out=None, maxw=160):
    k = n.get("k")
    pad = "  " * ind
    if k is None:
        out.append(pad + "ARM " + pat(n["pat"]) + (" IF ..." if "guard" in n else ""))
        if "guard" in n:
            sx(n["guard"], ind + 2, out)
        sx(n["body"], ind + 1, out)
        return
    head = k
    if k in ("call", "mcall"):
        head += " " + str(n.get("p"))
    elif k == "path":
        r = n["r"]
        head += " " + (("%s#%d" % (r["n"], r["b"])) if r["k"] == "local" else r.get("p", str(r)))
    elif k == "field":
        head += " ." + n["n"]
    elif k in ("bin", "un", "assignop"):
        head += " " + n["op"]
    elif k == "lit":
        head += " " + str(n["v"])
    elif k == "let":
        head += " " + pat(n["pat"])
    elif k == "for":
        head += " " + pat(n["pat"])
    elif k == "closure":
        head += " |" + ",".join(pat(p) for p in n["params"]) + "| " + n["p"]
    elif k == "struct":
        head += " " + str(n["r"].get("p")) + " {" + ",".join(f[0] for f in n["f"]) + "}"
    elif k == "match":
        head += " [" + str(n.get("src")) + "]"
    elif k == "letx":
        head += " " + pat(n["pat"])
    s = n.get("s")
    if s:
        head += "   @%d" % s[3] + ((" !" + ",".join(s[7])) if s[7] else "")
    out.append(pad + head)
    for c in children(n):
        sx(c, ind + 1, out)


def pat(p):
    k = p.get("k")
    if k == "bind":
        return "%s#%d" % (p["n"], p["b"])
    if k in ("pts", "ptup", "por", "pslice"):
        return "%s(%s)" % (p.get("r", {}).get("p", k), ",".join(pat(x) for x in p["a"]))
    if k == "pstruct":
        return "%s{%s}" % (p["r"].get("p"), ",".join(f[0] + ":" + pat(f[1]) for f in p["f"]))
    if k == "plit":
        return "lit(%s)" % p["v"]
    if k == "ppath":
        return p["r"].get("p", "?")
    return k


def main():
    cfg = os.environ.get("CFG", "default")
    f = Facts(extract.ensure_facts(cfg))
    what = sys.argv[2] if len(sys.argv) > 2 else "hir"
    for fn in f.fns_matching(sys.argv[1]):
        print("==", fn.path, fn.where, fn.kind)
        if what == "hir" and fn.hir:
            out = []
            sx(fn.hir, 0, out)
            print("\n".join(out))
        elif what == "mir":
            for i, l in enumerate(fn.locals):
                print("  _%d: %s %s %s" % (i, l["ty"], l["n"] or "", ("GUARD " + l["g"]) if l["g"] else ""))
            for bi, b in enumerate(fn.blocks):
                print(" bb%d%s:" % (bi, " (cleanup)" if b["cleanup"] else ""))
                for st in b["st"]:
                    print("    ", {k: v for k, v in st.items() if k != "s"})
                t = dict(b["t"])
                sp = t.pop("s", None); t.pop("fs", None); t.pop("argtys", None); t.pop("targs", None)
                print("    =>", t, ("@%d" % sp[3]) if sp else "")
        elif what == "calls":
            for bi, t in fn.mir_calls():
                print("  bb%d %s [%s] @%d clos=%s" % (bi, t["f"], t["disp"], t["s"][3], t["clos"]))


if __name__ == "__main__":
    main()
