"""K12 — W3C pseudo-code vocabulary coverage.

For each procedure of the normative algorithm (spec/w3c_algorithm.txt, extracted from
/repo/doc/W3C_SCXML_2024_07_13/index.html) the set of algorithm procedures it calls and the
multiset of container operations it performs must be covered by the implementing function
(closures included; tracing dropped). Order and argument roles are NOT part of this rule.
Declared deviations: tables/spec_deviations.json (one reason per line).
"""
import collections
import json
import os
import re

from facts import path_matches, line_of
import hirq
import extract

VOCAB_PROC = ['interpret', 'mainEventLoop', 'exitInterpreter', 'selectEventlessTransitions', 'selectTransitions',
              'removeConflictingTransitions', 'microstep', 'exitStates', 'computeExitSet', 'executeTransitionContent',
              'enterStates', 'computeEntrySet', 'addDescendantStatesToEnter', 'addAncestorStatesToEnter', 'isInFinalState',
              'getTransitionDomain', 'findLCCA', 'getEffectiveTargetStates', 'getProperAncestors', 'isDescendant',
              'getChildStates', 'isAtomicState', 'isCompoundState', 'isParallelState', 'isHistoryState', 'isFinalState',
              'isSCXMLElement', 'isCancelEvent', 'conditionMatch', 'nameMatch', 'executeContent', 'invoke', 'cancelInvoke',
              'returnDoneEvent', 'applyFinalize', 'send', 'initializeDatamodel', 'executeGlobalScriptElement', 'valid',
              'failWithError', 'expandScxmlSource']
VOCAB_SET = ['add', 'delete', 'union', 'isMember', 'some', 'every', 'hasIntersection', 'isEmpty', 'clear', 'toList', 'head',
             'tail', 'append', 'filter', 'sort', 'enqueue', 'dequeue']
# implementation name -> spec vocabulary
ALIASES = {'filter_by': 'filter', 'append_set': 'append', 'push_set': 'append', 'isFinalStateId': 'isFinalState',
           'isAtomicStateId': 'isAtomicState', 'initializeDataModel': 'initializeDatamodel',
           'initialize_data_models_recursive': 'initializeDatamodel', 'enqueue_internal': 'enqueue', 'recv': 'dequeue',
           'isScxmlElement': 'isSCXMLElement', 'isCompoundStateOrScxmlElement': 'isCompoundState'}
SPEC_ALIASES = {'isScxmlElement': 'isSCXMLElement', 'initializeDataModel': 'initializeDatamodel'}
# spec words that look like calls but are fields / constructors
NOT_CALLS = {'invoke'}  # `s.invoke` is a field in the pseudo-code; the procedure is spelled invoke(inv)
CONTAINER_OWNERS = ("fsm::List", "fsm::OrderedSet", "fsm::Queue", "fsm::BlockingQueue", "fsm::HashTable")


def load_spec():
    p = os.path.join(extract.VERIF, "spec", "w3c_algorithm.txt")
    spec = {}
    for block in open(p, encoding="utf-8").read().split("\n\n"):
        block = block.strip("\n")
        if not block.strip():
            continue
        m = re.match(r'\s*(?:procedure|function) (\w+)', block)
        if not m:
            continue
        spec[m.group(1)] = spec_tokens(block)
    return spec


def spec_tokens(body):
    procs = collections.Counter()
    ops = collections.Counter()
    for line in body.split('\n')[1:]:
        s = line.strip()
        if not s or s.startswith('#') or s.startswith('//'):
            continue
        line = re.split(r'#|//', line)[0]
        for m in re.finditer(r'[A-Za-z_][A-Za-z_0-9]*', line):
            w = m.group(0)
            w = SPEC_ALIASES.get(w, w)
            nxt = line[m.end():m.end() + 1]
            prev = line[m.start() - 1:m.start()]
            if w in VOCAB_PROC:
                if w in NOT_CALLS and prev == '.':
                    continue
                if nxt == '(' or prev in ('(', ' ', ','):
                    # call, or passed as a predicate: `.filter(isAtomicState)`
                    if nxt == '(' or prev == '(':
                        procs[w] += 1
            elif w in VOCAB_SET and nxt == '(' and prev == '.':
                ops[w] += 1
    return procs, ops


def impl_tokens(facts, fn):
    """Vocabulary used by fn (its closures are inline in the HIR)."""
    procs = collections.Counter()
    ops = collections.Counter()
    for n in fn.walk():
        k = n.get("k")
        name = None
        owner_ok = False
        if k in ("call", "mcall") and n.get("p"):
            p = n["p"]
            if "tracer::" in p or hirq.in_trace_macro(n):
                continue
            name = p.split("::")[-1]
            owner_ok = any(p.startswith(o) for o in CONTAINER_OWNERS)
            # Receiver::recv on the external queue counts as dequeue
            if name == "recv" and "mpsc::Receiver" in p:
                owner_ok = True
            if name == "enqueue_internal":
                owner_ok = True
            if name == "sort_by" and "slice" in p:
                name, owner_ok = "sort", True
        elif k == "path" and n["r"].get("k") == "def" and n["r"].get("dk") in ("AssocFn", "Fn"):
            # function passed as a value (predicate / comparator)
            par = fn.parent(n)
            if par is not None and par.get("k") == "call" and par["f"] is n:
                continue
            name = n["r"]["p"].split("::")[-1]
        if name is None:
            continue
        name = ALIASES.get(name, name)
        if name in VOCAB_PROC:
            procs[name] += 1
        elif name in VOCAB_SET and owner_ok:
            ops[name] += 1
    return procs, ops


def load_deviations():
    p = os.path.join(extract.VERIF, "tables", "spec_deviations.json")
    if not os.path.exists(p):
        return {}
    d = {}
    for e in json.load(open(p))["deviations"]:
        d[(e["procedure"], e["token"])] = e["reason"]
    return d


def check(ctx, rule, procedures):
    F = ctx.facts
    spec = load_spec()
    dev = load_deviations()
    # a W3C procedure that has no function of its own any more (a maintainer inlined it) is read where the spec calls it: its
    # pseudo-code vocabulary is added to that of its callers, one level deep
    def implemented(p):
        return F.has_fn("fsm::Fsm::" + p)

    def expanded(name):
        sprocs, sops = spec[name]
        sprocs, sops = collections.Counter(sprocs), collections.Counter(sops)
        for p in list(sprocs):
            if p in spec and p != name and not implemented(p):
                n = sprocs.pop(p)
                ip, io = spec[p]
                for q, c in ip.items():
                    sprocs[q] += c * n
                for q, c in io.items():
                    sops[q] += c * n
        return sprocs, sops
    for name in procedures:
        if name not in spec:
            ctx.ob(rule, "spec|" + name, False, "", "procedure %s not found in spec/w3c_algorithm.txt" % name, kind="anchor")
            continue
        if not implemented(name):
            callers = [q for q in spec if q != name and name in spec[q][0] and implemented(q)]
            ctx.ob(rule, "%s|inlined into its callers" % name, bool(callers), "",
                   "no function %s: its pseudo-code is checked inside %s" % (name, callers or "nobody (the procedure is gone)"), kind="anchor")
            continue
        fn = F.fn("fsm::Fsm::" + name)
        sprocs, sops = expanded(name)
        iprocs, iops = impl_tokens(F, fn)
        for p in sorted(sprocs):
            key = "%s|calls %s" % (name, p)
            if iprocs[p] > 0:
                ctx.ob(rule, key, True, fn.where, "spec calls %s %dx, implementation %dx" % (p, sprocs[p], iprocs[p]))
            elif (name, p) in dev:
                ctx.ob(rule, key, True, fn.where, "declared deviation: " + dev[(name, p)], kind="deviation")
            else:
                ctx.ob(rule, key, False, fn.where, "the W3C procedure %s calls %s; %s never does" % (name, p, fn.path))
        for o in sorted(sops):
            key = "%s|op .%s x%d" % (name, o, sops[o])
            if iops[o] >= sops[o]:
                ctx.ob(rule, key, True, fn.where, "spec uses .%s %dx, implementation %dx" % (o, sops[o], iops[o]))
            elif (name, "." + o) in dev:
                ctx.ob(rule, key, True, fn.where, "declared deviation: " + dev[(name, "." + o)], kind="deviation")
            else:
                ctx.ob(rule, key, False, fn.where, "the W3C procedure %s uses .%s %d time(s); %s only %d" % (name, o, sops[o], fn.path, iops[o]))
