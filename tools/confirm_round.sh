#!/bin/bash
# usage: confirm_round.sh <worktree>      confirms every delivery under <worktree>/seed_out/<PROP>/ with tools/confirm_seed.sh
W=$1
for d in $W/seed_out/C*/; do
  P=$(basename $d)
  for rs in $d*.rs; do
    [ -f "$rs" ] || continue
    T=$(basename $rs .rs)
    mkdir -p $W/tests; cp $rs $W/tests/
    bash $(dirname $0)/confirm_seed.sh $W $P $T
  done
done
