#!/usr/bin/env python3
"""ingest_seed.py <worktree> <PROPERTY> <seed-id> "<what it needs to manifest>"

Copies <worktree>/seed_out/<PROPERTY>/* to /verif/seeded/<seed-id>/ and writes meta.json (confirmed: pending)."""
import json
import os
import shutil
import sys

VERIF = os.path.dirname(os.path.dirname(os.path.abspath(__file__)))


def main():
    w, p, sid, needs = sys.argv[1:5]
    src = os.path.join(w, "seed_out", p)
    dst = os.path.join(VERIF, "seeded", sid)
    os.makedirs(dst, exist_ok=True)
    for f in os.listdir(src):
        if os.path.isfile(os.path.join(src, f)):
            shutil.copy(os.path.join(src, f), dst)
    demo = sorted(f for f in os.listdir(dst) if f.endswith(".rs"))
    json.dump({"property": p, "needs_to_manifest": needs, "demonstration": demo,
               "demo_command": "copy the .rs file to <worktree>/tests/ and run `cargo test --offline --test %s`" % (demo[0][:-3] if demo else "?"),
               "origin": "written by an independent sub-agent that saw only the property text and a scratch worktree",
               "confirmed": "pending"}, open(os.path.join(dst, "meta.json"), "w"), indent=1)
    print(sid, demo)


if __name__ == "__main__":
    main()
