#!/usr/bin/env python3
"""mkseedprompts.py <round-tag> [pairs-per-agent=2]

Writes the prompts given to the independent seeding sub-agents: /tmp/<round-tag>-full-<n>.txt, one per agent, each naming the
agent's own scratch worktree /tmp/<round-tag>-w<n> (create them with `git -C /repo worktree add --detach /tmp/<round-tag>-w<n> HEAD`).
An agent gets nothing from /verif: only the text of its properties (title, statement, quantifier, anchored files - copied from
properties.jsonl) and, from round 2 on, one line per earlier seeded change of that property (its name and what it needs to manifest) so
that it picks a different mechanism. Kept here so that what the authors were told is on record."""
import glob
import json
import os
import sys

VERIF = os.path.dirname(os.path.dirname(os.path.abspath(__file__)))

COMMON = """You are working in a scratch git worktree of the Rust project ruFsm (an SCXML / Harel statechart interpreter that follows the W3C interpretation algorithm; XML reader, binary .rfsm serializer, "rfsm-expression" and ECMAScript data models, event I/O processors) at {W}. Work ONLY inside {W}. Do not read or write /verif or /repo.

Task: for EACH of the properties below produce ONE change to the crate's source (src/**) that BREAKS the property while
 (a) the crate still compiles,
 (b) the existing test suite still passes unchanged (`cargo test --offline` in {W}: 57 unit tests), and
 (c) the breakage needs something specific to manifest - a particular interleaving, a multi-step sequence of operations, an unusual input, a fault at a particular point, or two cooperating sites that each look fine alone - NOT something ordinary use would expose at once.
Make each change look like a plausible maintenance edit (refactoring, optimisation, "simplification", off-by-one, swapped arguments, dropped or weakened guard, widened lock scope, reordered steps, a lost flag, ...). Small is good (1-15 lines), and do not add comments that announce the bug.

For each change also write a demonstration: an integration test under {W}/tests/ (or a small program under {W}/src/bin/) that FAILS with your change and PASSES without it. Verify both directions yourself (NEVER use `git stash`: the stash is shared between worktrees. Use `git diff -- src > {W}/my.diff; git checkout -- src; <run>; git apply {W}/my.diff; <run>`).

Deliver under {W}/seed_out/<PROPERTY-ID>/ :
 - patch.diff : `git diff -- src` of the change only (must apply to the worktree's HEAD with `git apply`),
 - the demonstration file(s) (copy) and the exact command to run them,
 - notes.md : which property it breaks and why, what it needs in order to manifest, what you ran and what you observed with and without the change.
Leave `src` clean (`git checkout -- src`) when you are done.

Build hints: no network - use `cargo build --offline` / `cargo test --offline` only; the first build takes a few minutes; look at src/bin/*.rs and src/test.rs for how to drive the library (scxml_reader::parse_from_xml, FsmExecutor::new_without_io_processor, fsm::start_fsm_with_data_and_finish_mode with FinishMode::KEEP_CONFIGURATION keeps the final configuration readable through the executor state, ScxmlSession.sender to send events, expression_engine::parser::ExpressionParser::execute_str for expressions, serializer::{{fsm_writer,fsm_reader}} for the binary format).
Your final message must be short: per property one line describing the change, the demo command, and the observed fail/pass. If after an honest effort you cannot produce a change for one of the properties that satisfies (a)-(c), say so instead of delivering a weak one.
"""


def main():
    tag = sys.argv[1]
    per = int(sys.argv[2]) if len(sys.argv) > 2 else 2
    props = [json.loads(l) for l in open(os.path.join(VERIF, "properties.jsonl")) if l.strip()]
    done = {}
    for mp in sorted(glob.glob(os.path.join(VERIF, "seeded", "s*", "meta.json"))):
        m = json.load(open(mp))
        d = os.path.basename(os.path.dirname(mp))
        done.setdefault(m["property"], []).append("%s (%s)" % (" ".join(d.split("-")[1:]), m["needs_to_manifest"]))
    n = 0
    for i in range(0, len(props), per):
        n += 1
        w = "/tmp/%s-w%d" % (tag, n)
        s = COMMON.format(W=w)
        for p in props[i:i + per]:
            s += "\nPROPERTY %s - %s\nStatement: %s\nHolds for: %s\nCode it is anchored in: %s\n" % (
                p["id"], p["title"], p["statement"], p["quantifier"]["text"], ", ".join(p["anchors"]["files"]))
            if done.get(p["id"]):
                s += "Already done by others (find a DIFFERENT mechanism, in a different function or of a different kind than each of these):\n"
                s += "".join(" - %s\n" % x for x in done[p["id"]])
        with open("/tmp/%s-full-%d.txt" % (tag, n), "w") as fh:
            fh.write(s)
    print("%d prompts: /tmp/%s-full-<n>.txt" % (n, tag))


if __name__ == "__main__":
    main()
