#!/usr/bin/env python3
"""Writes tables/known_functions.json: the non-closure function paths of /repo's current tree in the three analysed feature
configurations. Run it when /repo's HEAD legitimately changes (after a fix: commit), together with the audits; engine/py/inline.py
treats private functions that are NOT in this list as extracted helpers and analyses them inside their callers."""
import json
import os
import subprocess
import sys

VERIF = os.path.dirname(os.path.dirname(os.path.abspath(__file__)))
sys.path.insert(0, os.path.join(VERIF, "engine", "py"))


def main():
    import extract
    names = set()
    per = {}
    for cfg in ("default", "minimal", "all"):
        with open(extract.ensure_facts(cfg, os.environ.get("RFSM_REPO", "/repo"))) as fh:
            data = json.load(fh)
        fs = sorted(f["p"] for f in data["fns"] if f["kind"] != "Closure")
        per[cfg] = len(fs)
        names.update(fs)
    head = subprocess.run(["git", "-C", "/repo", "rev-parse", "--short", "HEAD"], stdout=subprocess.PIPE, text=True).stdout.strip()
    out = {"repo_head": head, "per_config": per, "functions": sorted(names)}
    with open(os.path.join(VERIF, "tables", "known_functions.json"), "w") as fh:
        json.dump(out, fh, indent=0)
    print("known_functions.json: %d functions (%s) at %s" % (len(names), per, head))


if __name__ == "__main__":
    main()
