#!/usr/bin/env python3
"""seeded_readme.py <seeded_eval output file>

Updates seeded/<id>/meta.json (reported_by) from the output of tools/seeded_eval.py and regenerates the table in seeded/README.md
between the markers <!-- table:begin --> and <!-- table:end -->."""
import json
import os
import re
import sys

VERIF = os.path.dirname(os.path.dirname(os.path.abspath(__file__)))
SEEDED = os.path.join(VERIF, "seeded")


def main():
    rep = {}
    for l in open(sys.argv[1]):
        m = re.match(r"^(s\d+\S*)\s+breaks (C\d+)\s+reported by: (.*)$", l.rstrip())
        if m:
            rep[m.group(1)] = m.group(3).strip()
    rows = []
    for d in sorted(os.listdir(SEEDED)):
        mp = os.path.join(SEEDED, d, "meta.json")
        if not os.path.isfile(mp):
            continue
        meta = json.load(open(mp))
        if d in rep:
            meta["reported_by"] = rep[d]
        json.dump(meta, open(mp, "w"), indent=1)
        star = "" if meta.get("caught_on_first_run", True) else " *"
        rows.append("| %s%s | %s | %s | %s | %s |" % (d, star, meta["property"], meta["needs_to_manifest"], meta.get("reported_by", "-"),
                                                 meta.get("added_because_missed", "")))
    rp = os.path.join(SEEDED, "README.md")
    s = open(rp).read()
    head = "| id | breaks | needs, in order to manifest | reported by | added because missed |\n|---|---|---|---|---|\n"
    new = "<!-- table:begin -->\n" + head + "\n".join(rows) + "\n<!-- table:end -->"
    if "<!-- table:begin -->" in s:
        s = re.sub(r"<!-- table:begin -->.*<!-- table:end -->", lambda _: new, s, flags=re.S)
    else:
        s = re.sub(r"\| id \| breaks .*?\n(\|.*\n)+", lambda _: new + "\n", s, count=1, flags=re.S)
    open(rp, "w").write(s)
    print("%d rows, %d with a report" % (len(rows), sum(1 for r in rows if "| - |" not in r)))


if __name__ == "__main__":
    main()
