"""Hand audit of the panic-capable edges reachable from FsmReader::read (C18, W7)."""
REASONS = {
    'serializer::default_protocol_reader::DefaultProtocolReader::<R>::read_additional_number_bytes|assert|overflow:Shl|1':
        'the shift amount is the constant 8 (the Assert only guards shift amounts >= 64)',
    'serializer::default_protocol_reader::DefaultProtocolReader::<R>::read_additional_number_bytes|assert|overflow:Sub|1':
        'inside `while length > 0`',
    'serializer::default_protocol_reader::DefaultProtocolReader::<R>::read_type_and_size|index|index:slice|1':
        'us = val & 0x0F <= 15, the buffer has 4096 bytes',
    'serializer::default_protocol_reader::DefaultProtocolReader::<R>::read_type_and_size|index|index:slice|2':
        'same us as the read_exact one line above',
    'serializer::default_protocol_reader::DefaultProtocolReader::<R>::read_type_and_size|string-insert|insert_str|1':
        'insert at byte index 0 of a cleared string is always on a char boundary',
    'serializer::default_protocol_reader::DefaultProtocolReader::<R>::read_type_and_size|assert|overflow:Shl|1':
        'the shift amount is the constant 8',
    'serializer::default_protocol_reader::DefaultProtocolReader::<R>::read_type_and_size|index|index:slice|3':
        "us = ((val & 0x0F) << 8) | byte <= 4095 < 4096 (the 12-bit length the writer's type nibble stands for)",
    'serializer::default_protocol_reader::DefaultProtocolReader::<R>::read_type_and_size|index|index:slice|4':
        'same us as the read_exact one line above',
    'serializer::default_protocol_reader::DefaultProtocolReader::<R>::read_type_and_size|string-insert|insert_str|2':
        'insert at byte index 0 is always on a char boundary',
    "serializer::fsm_reader::FsmReader::<'a, R>::read|unwrap|unwrap<-duration_since|1":
        "SystemTime::now() is after UNIX_EPOCH on any sane clock; independent of the image (outside this property's quantifier)",
    "serializer::fsm_reader::FsmReader::<'a, R>::read|unwrap|unwrap<-duration_since|2":
        'SystemTime::now() is after UNIX_EPOCH on any sane clock; independent of the image',
    "serializer::fsm_reader::FsmReader::<'a, R>::read|assert|overflow:Sub|1":
        'end - start of two wall-clock reads underflows only if the clock is stepped backwards during the load; independent of the image (noted in DESIGN as a latent panic outside the quantifier)',
    "serializer::fsm_reader::FsmReader::<'a, R>::read_executable_content|diverge|panic!|1":
        'a truncated image yields tag 0 (= TYPE_IF) because failed reads return 0, never an unknown tag; a corrupted (not truncated) image is outside this property',
}
