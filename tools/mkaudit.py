#!/usr/bin/env python3
"""Builds tables/panic_audit_<prop>.json from the hand-written reasons in tools/audit_reasons_<prop>.py.

For every audited edge the number of conditional branches that control it on the *current* tree is stored as `min_guards`:
the check later requires at least that many (a guard that disappears invalidates the audit entry; added guards do not).
Run only after reading the code of every listed edge: the reasons are the audit.
"""
import importlib
import json
import os
import sys

HERE = os.path.dirname(os.path.abspath(__file__))
VERIF = os.path.dirname(HERE)
sys.path.insert(0, os.path.join(VERIF, "engine", "py"))
sys.path.insert(0, os.path.join(VERIF, "props"))
sys.path.insert(0, HERE)

import extract
import panics
from facts import Facts


def main():
    prop = sys.argv[1]
    reasons = importlib.import_module("audit_reasons_" + prop).REASONS
    F = Facts(extract.ensure_facts("default"))
    entries = []
    missing = []
    for key, reason in reasons.items():
        fnp = key.split("|")[0]
        fn = F.fns.get(fnp)
        e = None
        if fn is not None:
            for x in panics.edges_of(fn):
                if x.key == key:
                    e = x
        if e is None:
            missing.append(key)
            continue
        entries.append({"key": key, "reason": reason, "min_guards": panics.guard_count(fn, e.block)})
    out = os.path.join(VERIF, "tables", "panic_audit_%s.json" % prop)
    json.dump({"comment": "Audited panic-capable edges (rule kind K5). key = function|kind|detail|ordinal (never a line). "
                          "min_guards = number of conditional branches controlling the edge when it was audited.",
               "entries": entries}, open(out, "w"), indent=1)
    print("%s: %d entries written, %d keys not found on the current tree" % (out, len(entries), len(missing)))
    for m in missing:
        print("  NOT FOUND:", m)


if __name__ == "__main__":
    main()
