"""Hand audit of the panic-capable edges of the rfsm-expression region (C11, R11.1). One reason per edge, written after
reading the code. Findings (D3, ...) are NOT here: they are failing obligations listed in known_findings.json."""
REASONS = {
    '<datamodel::Data as std::cmp::PartialEq>::eq|index|index:Vec|1':
        'index runs over 0..a.len() after a.len() != b.len() returned false',
    '<datamodel::Data as std::cmp::PartialEq>::eq|index|index:Vec|2':
        'same loop: b.len() == a.len() on this path',
    '<datamodel::expression_engine::RFsmExpressionDatamodel as datamodel::Datamodel>::executeContent|unwrap|unwrap<-get|1':
        'content ids stored in the model are allocated by the reader/deserializer together with their block (Fsm::executeContent filters id 0)',
    '<datamodel::expression_engine::RFsmExpressionDatamodel as datamodel::Datamodel>::execute_for_each|assert|overflow:Add|1':
        'idx counts the iterations over an in-memory array: cannot reach i64::MAX',
    '<datamodel::expression_engine::RFsmExpressionDatamodel as datamodel::Datamodel>::execute_for_each|assert|overflow:Add|2':
        'idx counts the iterations over an in-memory map: cannot reach i64::MAX',
    '<expression_engine::expressions::ExpressionMemberAccess as expression_engine::expressions::Expression>::execute|unwrap|unwrap<-get|1':
        'the key was inserted into the same map on the line before',
    '<expression_engine::expressions::ExpressionVariable as expression_engine::expressions::Expression>::execute|unwrap|unwrap<-get|1':
        'the variable was just created by set_undefined on a name that get() did not find (so no read-only entry blocks the insert)',
    'expression_engine::lexer::ExpressionLexer::eat_space|index|index:Vec|1':
        'guarded by has_next() (pos < text.len()) in the same short-circuit condition',
    'expression_engine::lexer::ExpressionLexer::next_char|index|index:Vec|1':
        'inside `if self.pos < self.text.len()`',
    'expression_engine::lexer::ExpressionLexer::push_back|assert|overflow:Sub|1':
        'inside `if self.pos > 0`',
    'expression_engine::parser::ExpressionParser::fold_stack_at|vec-remove|remove|1':
        'inside `idx > 0 && idx + 1 < stack.len()`',
    'expression_engine::parser::ExpressionParser::fold_stack_at|vec-remove|remove|2':
        'idx < old len - 1 after one removal above it',
    'expression_engine::parser::ExpressionParser::fold_stack_at|assert|overflow:Sub|1':
        'idx > 0 on this path',
    'expression_engine::parser::ExpressionParser::fold_stack_at|vec-remove|remove|3':
        'idx - 1 >= 0 and < len',
    'expression_engine::parser::ExpressionParser::fold_stack_at|assert|overflow:Sub|2':
        'idx > 0 on this path',
    'expression_engine::parser::ExpressionParser::fold_stack_at|vec-insert|insert|1':
        'idx - 1 <= len after the three removals (len >= idx - 1 because idx + 1 < old len)',
    'expression_engine::parser::ExpressionParser::stack_to_expression|index|index:Vec|1':
        'loop condition si < stack.len(); the stack is not shrunk in the loop',
    'expression_engine::parser::ExpressionParser::stack_to_expression|index|index:Vec|2':
        'same si as the read on the scrutinee',
    'expression_engine::parser::ExpressionParser::stack_to_expression|diverge|panic!|1':
        "reachable only for a stack token other than Identifier / Operator / Separator('.'): excluded by rule R11.2 (all SToken push sites)",
    'expression_engine::parser::ExpressionParser::stack_to_expression|vec-remove|remove|1':
        'the stack is non-empty (is_empty() returned early above and nothing was removed on this path)',
    'expression_engine::parser::ExpressionParser::stack_to_expression|unwrap|unwrap<-get|1':
        'best_idx was assigned from si < stack.len() in the scan and the stack is unchanged since',
    'expression_engine::parser::ExpressionParser::stack_to_expression|vec-remove|remove|2':
        'inside `best_idx + 1 < stack.len()`',
    'expression_engine::parser::ExpressionParser::stack_to_expression|vec-remove|remove|3':
        'best_idx < len after one removal because best_idx + 1 < old len',
    'expression_engine::parser::ExpressionParser::stack_to_expression|vec-insert|insert|1':
        'best_idx <= len after two removals',
    'expression_engine::parser::ExpressionParser::stack_to_expression::{closure#3}|vec-insert|insert|1':
        'insert at 0 is always in range',
}
