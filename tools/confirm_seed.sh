#!/bin/bash
# usage: confirm_seed.sh <worktree> <prop> <demo-test-name>
W=$1; P=$2; T=$3
cd $W || exit 1
export CARGO_NET_OFFLINE=true
git checkout -q -- src 2>/dev/null
git checkout -q --detach main 2>/dev/null
if ! git apply --check seed_out/$P/patch.diff 2>/dev/null; then echo "$P: PATCH DOES NOT APPLY to HEAD"; exit 0; fi
git apply seed_out/$P/patch.diff
U=$(cargo test --offline --lib 2>&1 | grep -E "^test result" | head -1)
D1=$(cargo test --offline --test $T 2>&1 | grep -E "^test result|error(\[|:)" | head -2 | tr '\n' ' ')
git checkout -q -- src
D0=$(cargo test --offline --test $T 2>&1 | grep -E "^test result|error(\[|:)" | head -2 | tr '\n' ' ')
echo "$P [$T]: unit-with-change: $U || demo-with-change: $D1 || demo-without: $D0"
