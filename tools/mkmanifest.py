#!/usr/bin/env python3
"""Regenerates /verif/MANIFEST.json from the table below (kept here so that the per-property
texts live next to each other and the file always validates)."""
import json
import os

VERIF = os.path.dirname(os.path.dirname(os.path.abspath(__file__)))

TRUST = ("rustc nightly's HIR/MIR construction and type/trait resolution for the analysed feature configuration; the fact "
         "extractor (engine/driver) and the rule library (engine/py), tested both ways by selftest/; documented contracts "
         "of std (Mutex, mpsc, atomics), timer, quick-xml, rocket, ureq, boa; dependency crates are not analysed")

# id -> (technique, level text, level note, design ref)
def C(tech, decides, not_decided, ref):
    return (tech, "Decides (statically, on the compiler's resolved HIR/MIR of /repo's working tree): " + decides +
            " It does NOT decide: " + not_decided, TRUST, ref)


CHECKS = {
    "C01": C("custom HIR/MIR rules over rustc_private facts: who-may-mutate (K1), value provenance (K3), W3C pseudo-code vocabulary coverage (K12)",
             "the configuration has exactly three writers; the values added/deleted are the sorted entry/exit sets; every isDescendant call in the "
             "entry/exit-set procedures has the argument roles of the W3C algorithm; history states never reach the entry set; OrderedSet has set "
             "semantics; the 8 entry/exit-set procedures cover the vocabulary of their pseudo-code; the nine state-kind predicates have the audited truth "
             "table over the six kinds of state (abstract evaluation).",
             "that every reachable configuration of every document is legal (behaviour; rests on the W3C algorithm itself).", "§5 C01"),
    "C02": C("custom HIR/MIR rules: spec vocabulary coverage (K12), comparator tables by abstract evaluation (K4), guard/first-match shape (K2), determinism query over the call-graph region (K9)",
             "selection iterates atomic states in document order, state before ancestors, transitions in document order, first enabled wins; the five "
             "comparator tables; pre-emption branches of removeConflictingTransitions; microstep = exit, content, enter once each in order; no hash-order "
             "iteration or clock read influences the microstep region (audited exceptions).",
             "equality with the W3C result on every document and history; guard values.", "§5 C02"),
    "C03": C("custom HIR/MIR rules: dominance in mainEventLoop (K2), who-may-touch the internal queue (K1), routing provenance (K3)",
             "eventless selection dominates the internal-queue test which dominates dequeue; recv is reachable only with the macrostep complete; FIFO "
             "queue operations and the only dequeue site; <raise> and '#_internal' go to the internal queue, '' to the external one; microstep only for a "
             "non-empty set; the dequeued event is the one set as _event and selected on.",
             "channel semantics (exactly-once, arrival order: std contract).", "§5 C03"),
    "C04": C("custom HIR rules: dispatch/pairing tables (K4), who-compares-qualified-names (K1), raw-slice taint (K8), doc_id provenance (K1/K2)",
             "every element constant is dispatched and every executable-content region is closed with the tag it was opened with; allowed-parent tables are "
             "sibling-consistent; names are compared through local_name() only; raw document slices pass an unescape before being stored; doc ids are drawn once "
             "per declaration in the start handler; a forward-referenced state receives the declaration's parameters; the XML parser is given an unmodified copy of the buffer that element text is cut out of; <xi:include> saves and restores the reader fields the nested read overwrites; list-valued attributes are split on XML white space.",
             "that the model mirrors the document for every document and rendering (an input/output equivalence over an infinite language).", "§5 C04"),
    "C05": C("WIRE: symbolic walk of every FsmWriter function and its FsmReader sibling into annotated operation sequences (K4), flag-table mapping, field coverage (K11), primitive tables and bit budgets (K4/K8)",
             "the 23 writer/reader pairs define the same wire grammar (operation kinds, model fields, loops, presence guards through the flag bits); the "
             "executable-content and Data variant dispatch tables agree; every field of the 16 persisted structs is written and read (or exempt with a reason); "
             "integer type nibbles, thresholds and byte counts agree; every value fits the bits of its encoding (the guarding bound is a bound on the written value itself); the reader narrows no integer (struct fields and Data variant payloads); an Option<String> is NONE only when it is None.",
             "trace equality after reload (argued from identical persisted model + C02 determinism); Data values (delegated to to_string/parse).", "§5 C05"),
    "C06": C("custom HIR/MIR rules: dominance of history recording over removal (K2), filter and key provenance (K3), who-may-write historyValue (K1)",
             "history values are recorded from the configuration before anything is removed; deep/shallow filters and keys; the history branch of "
             "addDescendantStatesToEnter and getEffectiveTargetStates (descendants and ancestors entered in two separate passes); order onentry, initial content, "
             "default history content from the per-microstep table, the latter under exactly the has(s) test of that table; HashTable::put* replace an existing value.",
             "equality of restored and recorded configuration over histories.", "§5 C06"),
    "C07": C("custom HIR/MIR rules: guard shape of the final branch (K2/K3), reachability after running=false in the MIR CFG (K2), spec vocabulary coverage (K12)",
             "done.state.<parent> with evaluated donedata, done.state.<grandparent> iff parallel and every child region final, one enqueue each; running=false "
             "only for a top-level final or the cancel event, running=true once and before the initial states are entered; nothing is selected/executed after running=false before the next loop test; exitInterpreter "
             "post-dominates; done.invoke addressing.",
             "'exactly once' counts over event histories.", "§5 C07"),
    "C08": C("custom HIR rules: sibling agreement of executeContent loops (K4), branch polarity (K2), error-discipline fixpoint over fallible/raising summaries (K2)",
             "content runs in Vec order and stops at the first false; if/else polarity; every call to a fallible evaluation API reaches an error-event enqueue on its "
             "Err path (or hands the Err on); assign writes only occupied writable entries; foreach sets item/index before the body and a false body ends it with false; the reader never overwrites an If's else link; the ECMAScript model restores strict mode on every path.",
             "which branch runs for given data (values).", "§5 C08"),
    "C09": C("custom HIR/MIR rules: sibling agreement of the three In() implementations and two set_event tables (K4), read-only installation and deep read-only (K2/K3), dominance in interpret/enterStates (K2)",
             "In() tests the live configuration; the seven _event fields are fed from the matching Event fields; system variables are installed read-only and "
             "every write through a value is guarded by is_readonly, including values reached through member/index access; initialisation order and late binding; a state leaves the configuration in its own exit iteration, after its onexit content.",
             "what _event holds at every evaluation point.", "§5 C09"),
    "C10": C("custom HIR rules with partial evaluation: priority/associativity tables extracted from the scan and tie-break (K4), operator dispatch tables (K4), numeric tower (K4), get_copy field coverage (K11)",
             "operator priority classes; grouping direction per class; each Operator variant maps to its own operation_*; Integer x Integer stays Integer with "
             "saturating ops, mixed is Double, divide is Double; each ordering operator compares with its own operator and delegates to no sibling; the 13 get_copy implementations rebuild every field; no field of an Expression node holds a shared handle or interior mutability; cache keys.",
             "the value of an arbitrary expression; whitespace independence of the lexer.", "§5 C10"),
    "C11": C("diverging-edge audit over the call-graph region (K5) with checked len-guard discharge and guard-count fingerprints; lock nesting from a MIR held-guard dataflow (K6); recursion SCCs; lexer un-read discipline (K2)",
             "every panic-capable edge reachable from the rfsm-expression entry points is a harmless class, structurally discharged, audited with a reason or a finding; "
             "only three token kinds reach the folding code; no second value lock without a ptr_eq guard; recursion cycles are listed; push_back only after a real read; "
             "every loop of lexer and parser consumes input.",
             "termination in general; time bounds.", "§5 C11"),
    "C12": C("diverging-edge audit from the platform-thread roots (K5), failure-exit accounting in the send/invoke surface (K2), I/O-under-lock from the lock analysis (K6)",
             "every panic-capable edge reachable from the session thread, the delayed-send timer closure and the HTTP handlers is classified; the panicking XML reader is "
             "not reachable from a session thread; every failure exit of send/invoke raises the error event or logs; no parsing or file/network I/O under the session lock.",
             "liveness of arbitrary documents (an eventless loop is legal SCXML); host-supplied code.", "§5 C12"),
    "C13": C("custom HIR/MIR rules: single consumer and field ownership (K1), discarding-path enumeration in the dequeue loop (K2), thread-role reachability (K7), lock set at recv (K6)",
             "one consumer of the external queue; the only discarding path of the dequeue filter is the cancelled-child rule; the W3C procedures run on the session "
             "thread only; the blocking wait holds only the receiver lock and no producer needs it; on the delivery path platform locks are taken with "
             "lock(), never try_lock, and the channel is written with send().",
             "per-sender FIFO / exactly-once of std::sync::mpsc (assumed); anything quantifying over interleavings.", "§5 C13"),
    "C14": C("custom HIR/MIR rules: who-may-touch statesToInvoke/child_sessions (K1), ordering by MIR reachability (K2), provenance of finalize/autoforward targets (K3)",
             "statesToInvoke add/delete/clear sites and their order relative to the exit loop, the invoke loop and recv; child_sessions insert only on Ok, removal "
             "before the cancel send, cancellation of exactly the exited state's invokes; finalize position and guard; autoforward must not depend on the event's "
             "invoke id; passed data only for declared <data>; finalize lookup before the done.invoke removal; onexit content before cancelInvoke; one document id "
             "per <invoke> from the reader's counter.",
             "relative timing of child events, completion and cancellation.", "§5 C14"),
    "C15": C("custom HIR rules with partial evaluation of the dispatch per representative target (K4), write-set of the event between construction and enqueue (K1/K3), constant agreement (K4), atomic-use query (K1)",
             "the dispatch table of the SCXML processor (one delivery per target form, none in a loop), origin/origintype stamped before dispatch, event fields flow "
             "unchanged, the processor's send_to_session hands (session id, event) to the executor unconditionally, reply-address constants agree between get_location and the dispatcher, id counters used only through fetch_add, a session is registered by the starting thread before its thread is spawned.",
             "delivery across real threads (channel contract).", "§5 C15"),
    "C16": C("custom HIR/MIR rules: capture set and reachability of the timer closure (K3/K7), must-consume of timer::Guard in MIR (K2), who-may-touch delayed_send (K1), unit table by partial evaluation (K4)",
             "the delayed-send closure captures only evaluated owned values and reaches no evaluation API; every Guard is stored or ignored; delayed_send "
             "insert/remove sites and keys, and that an insert replaces no pending guard; timer branch iff delay > 0; duration units; the Timer is owned by Fsm.",
             "'not early', due-time order, exactly-once at run time (the timer crate's contract and real time).", "§5 C16"),
    "C17": C("lock-order analysis: MIR held-guard dataflow + interprocedural acquisition summaries + thread roles + own/new/foreign provenance of per-session locks (K6, K7)",
             "no feasible cycle in the lock-order graph of the platform's Mutex classes (feasibility: distinct threads of the roles that reach the holders, agreeing on the "
             "per-session lock instances); no same-class nesting without ptr_eq guard / audited descent / fresh instance; no wait on another thread while holding a lock "
             "except the receiver lock at recv.",
             "fairness or progress beyond absence of lock cycles; host-supplied actions/processors; Mutex is assumed the only blocking primitive.", "§5 C17"),
    "C18": C("MIR must-pass-through of has_error() before Ok (K2), diverging-edge audit of the .rfsm reader (K5), io::Result / byte-count discipline (K2/K3), sticky error-state rule (K1/K2)",
             "every Ok result of FsmReader::read is dominated by the no-error branch of has_error() with no read in between; every panic-capable edge reachable "
             "from the reader is discharged, audited or a finding; every io::Result of the protocol writer reaches eval_result and no Write::write count is "
             "discarded; every read operation tests the sticky `ok` flag and only error() clears it.",
             "nothing beyond these paths (the clause is structural by nature); corrupted (not truncated) images.", "§5 C18"),
    "C19": C("custom HIR rules: byte/char unit lattice over string positions (K8), result-leaf enumeration of nameMatch (K2), case-fold query with positive control (K1), normalisation closure shape (K2)",
             "every string position in nameMatch is addressed in the unit it was computed in; every true result is wildcard / full match / token-boundary match; no case "
             "folding between the event attribute and the comparison; the reader strips exactly trailing '.*' and '.' repeatedly; wildcard is events.contains('*').",
             "the matching relation over all names (values).", "§5 C19"),
    "C20": C("custom HIR/MIR rules: single guarded send in the HTTP handler (K2), key/constant agreement between sender and receiver (K4), route/location agreement by decoding the format template (K4)",
             "the handler sends at most once, only with session and event name present, and answers Ok only after a successful send; form keys agree between "
             "BasicHTTPEventIOProcessor::send and the receiver; the published location equals the mounted route and port.",
             "URL encoding symmetry (ureq/rocket), status codes on the wire, concurrent posts.", "§5 C20"),
}

NOT_YET = {}


def main():
    props = [json.loads(l) for l in open(os.path.join(VERIF, "properties.jsonl"))]
    checks = []
    na = []
    for p in props:
        pid = p["id"]
        if pid in CHECKS and os.path.exists(os.path.join(VERIF, "props", pid + ".py")):
            tech, text, note, ref = CHECKS[pid]
            checks.append({
                "property_id": pid,
                "quick_cmd": "./check %s --tier quick" % pid,
                "thorough_cmd": "./check %s --tier thorough" % pid,
                "evidence_file": "evidence/%s.json" % pid,
                "replay_cmd_template": "./check %s --replay {path}" % pid,
                "engine": "rfsm-static",
                "level_claimed": {"category": "other", "text": text, "design_ref": ref},
                "level_note": note,
                "technique": tech,
            })
        else:
            na.append({"property_id": pid, "reason": NOT_YET.get(pid, "static check not implemented yet in this revision of /verif (see DESIGN.md §5 for the planned structural clauses); not claimed until it is")})
    man = {
        "version": 1,
        "setup_cmd": "python3 engine/py/setup.py",
        "hooks": {
            "guard": "rfsm_verif",
            "enable": "none: static analysis reads the unmodified tree; no hook commits exist (RUSTFLAGS=\"--cfg rfsm_verif\" would be the guard)",
            "baseline_off_cmd": "cd /repo && cargo test --workspace --no-fail-fast --offline",
            "source_commits": [],
            "add_only": True,
        },
        "engines": [{
            "name": "rfsm-static",
            "path": "engine/",
            "serves_properties": [c["property_id"] for c in checks],
            "kind_free_text": "rustc_private fact extractor (resolved HIR, MIR CFG, call graph, guard-typed locals, trait impl map) run as "
                              "RUSTC_WORKSPACE_WRAPPER on /repo's working tree + Python rule library (who-may, path/dominance, provenance, "
                              "table agreement, diverging-edge audit, lock-order, thread roles, units, determinism, field coverage, spec vocabulary coverage)",
        }],
        "checks": checks,
        "not_applicable": na,
        "notes": "All checks are static: nothing in a registered command runs the interpreter, a test, a fuzzer, a model checker or a solver. "
                 "KNOWN-FINDING lines refer to known_findings.json; `fixed:` entries there suppress nothing.",
    }
    with open(os.path.join(VERIF, "MANIFEST.json"), "w") as fh:
        json.dump(man, fh, indent=1)
    print("MANIFEST.json: %d checks, %d not_applicable" % (len(checks), len(na)))


if __name__ == "__main__":
    main()
