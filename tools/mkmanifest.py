#!/usr/bin/env python3
"""Regenerates /verif/MANIFEST.json from the table below (kept here so that the per-property
texts live next to each other and the file always validates)."""
import json
import os

VERIF = os.path.dirname(os.path.dirname(os.path.abspath(__file__)))

TRUST = ("rustc nightly's HIR/MIR construction and type/trait resolution for the analysed feature configuration; the fact "
         "extractor (engine/driver) and the rule library (engine/py), tested both ways by selftest/; documented contracts "
         "of std (Mutex, mpsc, atomics), timer, quick-xml, rocket, ureq, boa; dependency crates are not analysed")

# id -> (technique, level text, level note, design ref)
CHECKS = {
    "C01": ("custom HIR/MIR rules over rustc_private facts: who-may-mutate (K1), value provenance (K3), W3C pseudo-code vocabulary coverage (K12)",
            "Decides structural necessary conditions of configuration legality: the configuration has exactly three writers, the "
            "values added/deleted are the sorted entry/exit sets, every isDescendant call in the entry/exit-set procedures has the "
            "argument roles of the W3C algorithm, history states never reach the entry set, OrderedSet has set semantics, and all 8 "
            "entry/exit-set procedures cover the vocabulary of their pseudo-code. It does NOT decide that every reachable "
            "configuration of every document is legal (behaviour); that rests on the W3C algorithm itself.",
            "Assumes the W3C algorithm is correct for conformant documents. " + TRUST, "§5 C01"),
}

NOT_YET = {}


def main():
    props = [json.loads(l) for l in open(os.path.join(VERIF, "properties.jsonl"))]
    checks = []
    na = []
    for p in props:
        pid = p["id"]
        if pid in CHECKS and os.path.exists(os.path.join(VERIF, "props", pid + ".py")):
            tech, text, note, ref = CHECKS[pid]
            checks.append({
                "property_id": pid,
                "quick_cmd": "./check %s --tier quick" % pid,
                "thorough_cmd": "./check %s --tier thorough" % pid,
                "evidence_file": "evidence/%s.json" % pid,
                "replay_cmd_template": "./check %s --replay {path}" % pid,
                "engine": "rfsm-static",
                "level_claimed": {"category": "other", "text": text, "design_ref": ref},
                "level_note": note,
                "technique": tech,
            })
        else:
            na.append({"property_id": pid, "reason": NOT_YET.get(pid, "static check not implemented yet in this revision of /verif (see DESIGN.md §5 for the planned structural clauses); not claimed until it is")})
    man = {
        "version": 1,
        "setup_cmd": "python3 engine/py/setup.py",
        "hooks": {
            "guard": "rfsm_verif",
            "enable": "none: static analysis reads the unmodified tree; no hook commits exist (RUSTFLAGS=\"--cfg rfsm_verif\" would be the guard)",
            "baseline_off_cmd": "cd /repo && cargo test --workspace --no-fail-fast --offline",
            "source_commits": [],
            "add_only": True,
        },
        "engines": [{
            "name": "rfsm-static",
            "path": "engine/",
            "serves_properties": [c["property_id"] for c in checks],
            "kind_free_text": "rustc_private fact extractor (resolved HIR, MIR CFG, call graph, guard-typed locals, trait impl map) run as "
                              "RUSTC_WORKSPACE_WRAPPER on /repo's working tree + Python rule library (who-may, path/dominance, provenance, "
                              "table agreement, diverging-edge audit, lock-order, thread roles, units, determinism, field coverage, spec vocabulary coverage)",
        }],
        "checks": checks,
        "not_applicable": na,
        "notes": "All checks are static: nothing in a registered command runs the interpreter, a test, a fuzzer, a model checker or a solver. "
                 "KNOWN-FINDING lines refer to known_findings.json; `fixed:` entries there suppress nothing.",
    }
    with open(os.path.join(VERIF, "MANIFEST.json"), "w") as fh:
        json.dump(man, fh, indent=1)
    print("MANIFEST.json: %d checks, %d not_applicable" % (len(checks), len(na)))


if __name__ == "__main__":
    main()
