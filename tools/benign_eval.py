#!/usr/bin/env python3
"""benign_eval.py [--jobs N] [patch.diff ...]      (default: benign/*.diff)

Behaviour-preserving edits written by independent authors (benign/README.md). Each patch is applied to a scratch copy of
/repo's current tree (outside /repo and /verif), all 20 quick checks are run against the copy, the copy is deleted.
Every check must stay silent on every patch; an alarm is printed with its rule lines. Exit 1 if any alarm.
"""
import concurrent.futures as cf
import os
import shutil
import subprocess
import sys
import tempfile

VERIF = os.path.dirname(os.path.dirname(os.path.abspath(__file__)))
REPO = os.environ.get("RFSM_REPO", "/repo")
PROPS = os.environ.get("RFSM_PROPS", "").split() or ["C%02d" % i for i in range(1, 21)]


def run_one(patch, slot):
    base = os.environ.get("RFSM_SCRATCH", "/var/tmp/rfsm-benign")
    os.makedirs(base, exist_ok=True)
    d = tempfile.mkdtemp(prefix="b-", dir=base)
    name = os.path.basename(patch)
    try:
        # the committed tree of /repo (HEAD), so that this can run while tools/seeded_eval.py has a seeded change applied to the working tree
        ar = subprocess.run("git -C %s archive HEAD Cargo.toml Cargo.lock src | tar -x -C %s" % (REPO, d), shell=True)
        if ar.returncode != 0:
            return name, "broken-build", "git archive failed"
        a = subprocess.run(["patch", "-p1", "-s", "-d", d, "-i", os.path.abspath(patch)], stdout=subprocess.PIPE, stderr=subprocess.STDOUT, text=True)
        if a.returncode != 0:
            return name, "does-not-apply", a.stdout.strip()[:300]
        ev = os.path.join(d, "evidence")
        os.makedirs(ev)
        env = dict(os.environ, RFSM_EVIDENCE_DIR=ev, RFSM_TARGET_DIR=os.path.join(VERIF, ".cache", "target-benign-%d" % slot))
        alarms = []
        for p in PROPS:
            r = subprocess.run([os.path.join(VERIF, "check"), p, "--repo", d], env=env, stdout=subprocess.PIPE, stderr=subprocess.STDOUT, text=True)
            if r.returncode == 2:
                return name, "broken-build", r.stdout[-600:]
            if r.returncode == 1:
                alarms.append(p + ": " + " || ".join(l.strip()[:260] for l in r.stdout.splitlines() if l.startswith("  R") or l.startswith("  W"))[:900])
        return name, ("silent" if not alarms else "FALSE-ALARM"), "\n".join(alarms)
    finally:
        shutil.rmtree(d, ignore_errors=True)


def main():
    args = sys.argv[1:]
    jobs = 4
    if args and args[0] == "--jobs":
        jobs = int(args[1])
        args = args[2:]
    patches = args or sorted(os.path.join(VERIF, "benign", f) for f in os.listdir(os.path.join(VERIF, "benign")) if f.endswith(".diff"))
    bad = 0
    counts = {}
    with cf.ThreadPoolExecutor(max_workers=jobs) as ex:
        futs = [ex.submit(run_one, p, k % jobs) for k, p in enumerate(patches)]
        for f in futs:
            name, res, detail = f.result()
            counts[res] = counts.get(res, 0) + 1
            print("%-14s %s" % (res, name))
            if res != "silent":
                bad += 1
                print("    " + detail.replace("\n", "\n    "))
    print(counts)
    return 1 if bad else 0


if __name__ == "__main__":
    sys.exit(main())
