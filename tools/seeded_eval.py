#!/usr/bin/env python3
"""Runs the registered quick checks against every seeded change: applies seeded/<id>/patch.diff to /repo, runs the checks,
undoes the change (git checkout -- .). Prints, per seeded change, which properties' checks raise a violation and the rule ids.

usage: seeded_eval.py [id ...]        (default: all under seeded/)
"""
import concurrent.futures as cf
import json
import os
import re
import subprocess
import sys

VERIF = os.path.dirname(os.path.dirname(os.path.abspath(__file__)))
REPO = "/repo"
PROPS = ["C%02d" % i for i in range(1, 21)]


def run_check(p):
    r = subprocess.run([os.path.join(VERIF, "check"), p], stdout=subprocess.PIPE, stderr=subprocess.STDOUT, text=True,
                       env=dict(os.environ, RFSM_EVIDENCE_DIR="/var/tmp/rfsm-seeded-evidence"))
    rules = sorted(set(re.findall(r"^  ([RW][0-9.]+[a-z]?) ", r.stdout, re.M)))
    return p, r.returncode, rules, r.stdout


def main():
    ids = sys.argv[1:] or sorted(d for d in os.listdir(os.path.join(VERIF, "seeded")) if os.path.isdir(os.path.join(VERIF, "seeded", d)))
    dirty = subprocess.run(["git", "-C", REPO, "status", "--porcelain", "--untracked-files=no"], stdout=subprocess.PIPE, text=True).stdout.strip()
    if dirty:
        print("refusing: /repo has uncommitted changes"); return 2
    os.makedirs("/var/tmp/rfsm-seeded-evidence", exist_ok=True)
    summary = {}
    for sid in ids:
        patch = os.path.join(VERIF, "seeded", sid, "patch.diff")
        meta = {}
        mp = os.path.join(VERIF, "seeded", sid, "meta.json")
        if os.path.exists(mp):
            meta = json.load(open(mp))
        a = subprocess.run(["git", "-C", REPO, "apply", patch], stdout=subprocess.PIPE, stderr=subprocess.STDOUT, text=True)
        if a.returncode != 0:
            print("%-28s patch does not apply: %s" % (sid, a.stdout.strip()[:200]))
            continue
        try:
            # one extraction first (the others hit the cache)
            first = run_check(meta.get("property", "C01"))
            with cf.ThreadPoolExecutor(max_workers=6) as ex:
                res = list(ex.map(run_check, [p for p in PROPS if p != first[0]])) + [first]
        finally:
            subprocess.run(["git", "-C", REPO, "checkout", "--", "."])
        hits = {p: rules for p, rc, rules, out in res if rc == 1}
        broken = [p for p, rc, rules, out in res if rc not in (0, 1)]
        summary[sid] = {"claimed": meta.get("property"), "reported_by": hits, "broken": broken}
        own = meta.get("property")
        print("%-28s breaks %-4s reported by: %s%s" % (sid, own, ", ".join("%s[%s]" % (p, ",".join(r)) for p, r in sorted(hits.items())) or "NOBODY",
                                                       ("  BROKEN BUILD in " + ",".join(broken)) if broken else ""))
    json.dump(summary, open("/var/tmp/rfsm-seeded-evidence/summary.json", "w"), indent=1)
    return 0


if __name__ == "__main__":
    sys.exit(main())
