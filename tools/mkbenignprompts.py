#!/usr/bin/env python3
"""mkbenignprompts.py <round-tag>

Writes the prompts given to the independent authors of behaviour-preserving edits (benign/): /tmp/<round-tag>-full-<n>.txt for
n = 1..4, each naming the agent's own scratch worktree /tmp/<round-tag>-w<n>. The authors see nothing from /verif."""
import sys

COMMON = """You are working in a scratch git worktree of the Rust project ruFsm (an SCXML / Harel statechart interpreter that follows the W3C interpretation algorithm) at {W}. Work ONLY inside {W}. Do not read or write /verif or /repo.

Task: produce TEN independent, realistic, BEHAVIOUR-PRESERVING maintenance edits of the source files listed at the end - the kind of commits a maintainer makes without intending to change behaviour. Each edit must leave the observable behaviour of the library EXACTLY as it is for every input, schedule and fault (same results, same events in the same order, same errors, same lock acquisition order and the same locks held across the same calls, same bytes on the wire, same panics or absence of panics). Typical kinds - use a good mix, not ten renames:
{KINDS}
Be careful about the subtle ways a "refactoring" changes behaviour (temporaries that extend a MutexGuard's life, evaluation order of arguments with side effects, short-circuit evaluation, integer widths, iteration order of hash maps, moving code across a lock/unlock or across a send). If in doubt, choose another edit. Each edit should touch 1-30 lines and must be made against a clean checkout (edits are independent of each other, NOT cumulative).

For each edit k = 01..10:
 1. start from a clean tree (`git checkout -- src`), make the edit,
 2. check `cargo build --offline` and `cargo test --offline --lib` (57 tests must pass),
 3. save `git diff -- src > {W}/out/bK.diff` and append to {W}/out/notes.md one paragraph: file/function, what kind of edit, and the argument why behaviour is unchanged.
NEVER use `git stash` (it is shared between worktrees). No network: `--offline` always. The first build takes a few minutes. Leave `src` clean at the end.

Your final message: one line per edit (id, file::function, kind).

Files to spread the ten edits over (at least one edit in each, more in the longer ones; prefer the functions that carry the real logic over trivial getters):
"""

KINDS_1 = """ - rename a local variable, parameter or private helper;
 - extract a few statements into a private helper function or inline a trivial helper;
 - `if let` <-> `match`, `while let` <-> `loop { match .. break }`, early return <-> nested if, `for` with index <-> iterator where order is obviously the same;
 - hoist a repeated sub-expression into a `let` (only when it has no side effects and its value cannot change in between);
 - reorder two adjacent statements that are obviously independent (no shared state, no locks, no I/O);
 - add a `debug!`/`trace` style log line guarded like the existing ones, add a doc comment, add an `#[inline]`;
 - replace `x.len() == 0` by `x.is_empty()`, `&*s` by `s.as_str()`, explicit type annotations, `clone()` of a Copy value removed, etc.;
 - split a long function's tail into a helper, turn a closure into a nested fn, or vice versa."""

KINDS_2 = """ - INLINE an existing small private helper into its caller(s), or merge two helpers;
 - extract a block into a private METHOD that takes `&self`/`&mut self` plus the locals it needs, or into a nested `fn`;
 - replace a `match` on a bool/Option/Result by combinators (`map`, `unwrap_or`, `ok_or`, `and_then`, `is_some_and`, `?`) or the other way round;
 - replace an index loop / `while` loop by an iterator chain (`iter().enumerate()`, `zip`, `rev`, `any`, `all`, `find`, `position`) with obviously the same order and the same short-circuiting, or the other way round;
 - introduce a local `const`, a type alias, or a named closure for a repeated expression; replace a literal by the existing named constant of the same value;
 - flip an `if/else` by negating the condition; merge nested `if`s into `&&`; split a compound condition into nested `if`s (same evaluation order);
 - change `let x; if c { x = a } else { x = b }` into `let x = if c { a } else { b }` and similar expression-oriented rewrites;
 - narrow or widen a `{ }` scope that holds NO lock guard and no borrow that matters; move a `let` closer to its first use (when nothing in between can affect it);
 - turn a `return x;` at the end of a function into a tail expression, remove redundant `clone()`/`to_string()` pairs that cancel, `format!("{}", s)` -> `s.to_string()`;
 - reorder `match` arms that are disjoint, reorder struct-literal fields (when the field expressions have no side effects), reorder independent `let`s."""

GROUPS = {
    1: ["src/fsm.rs (the W3C algorithm procedures: interpret, mainEventLoop, selectTransitions, selectEventlessTransitions, removeConflictingTransitions, microstep, exitStates, enterStates, computeExitSet, computeEntrySet, addDescendantStatesToEnter, addAncestorStatesToEnter, getEffectiveTargetStates, isInFinalState, findLCCA, getTransitionDomain, nameMatch, invoke, cancelInvoke, exitInterpreter, returnDoneEvent)"],
    2: ["src/executable_content.rs", "src/datamodel/mod.rs", "src/datamodel/expression_engine.rs", "src/scxml_reader.rs"],
    3: ["src/expression_engine/lexer.rs", "src/expression_engine/parser.rs", "src/expression_engine/expressions.rs", "src/serializer/fsm_writer.rs", "src/serializer/fsm_reader.rs",
        "src/serializer/default_protocol_writer.rs", "src/serializer/default_protocol_reader.rs"],
    4: ["src/fsm_executor.rs", "src/event_io_processor/scxml_event_io_processor.rs", "src/event_io_processor/http_event_io_processor.rs", "src/event_io_processor/mod.rs",
        "src/fsm.rs (only: BlockingQueue, ScxmlSession, GlobalData, start_fsm*, the Datamodel::send default method and the delayed-send/timer code, EventSender, List/OrderedSet/HashTable/Queue)",
        "src/datamodel/mod.rs (only the send/invoke related default methods and DataStore)"],
}


def main():
    tag = sys.argv[1]
    kinds = KINDS_2 if (len(sys.argv) > 2 and sys.argv[2] == "2") else KINDS_1
    for n, files in GROUPS.items():
        w = "/tmp/%s-w%d" % (tag, n)
        s = COMMON.replace("{W}", w).replace("{KINDS}", kinds) + "".join(" - %s\n" % f for f in files)
        with open("/tmp/%s-full-%d.txt" % (tag, n), "w") as fh:
            fh.write(s)
    print("4 prompts: /tmp/%s-full-<n>.txt" % tag)


if __name__ == "__main__":
    main()
