"""Hand audit of the panic-capable edges reachable from the platform threads (session, timer, HTTP handlers) outside the
rfsm-expression region (audited under C11), the XML reader (one region finding, D10) and the .rfsm reader (C18).
Findings (D6-D9, D27) are NOT here: they are failing obligations listed in known_findings.json."""
REASONS = {
    'fsm::Fsm::get_state_by_id|assert|overflow:Sub|1':
        'ids stored in the model are allocated by the reader/deserializer together with the entry they name (R04.5, W1); callers filter the null id 0 (C01 R01.3/R01.4, Fsm::executeContent)',
    'fsm::Fsm::get_state_by_id|unwrap|unwrap<-get|1':
        'ids stored in the model are allocated by the reader/deserializer together with the entry they name (R04.5, W1); callers filter the null id 0 (C01 R01.3/R01.4, Fsm::executeContent)',
    'fsm::Fsm::get_state_by_id_mut|assert|overflow:Sub|1':
        'ids stored in the model are allocated by the reader/deserializer together with the entry they name (R04.5, W1); callers filter the null id 0 (C01 R01.3/R01.4, Fsm::executeContent)',
    'fsm::Fsm::get_state_by_id_mut|unwrap|unwrap<-get_mut|1':
        'ids stored in the model are allocated by the reader/deserializer together with the entry they name (R04.5, W1); callers filter the null id 0 (C01 R01.3/R01.4, Fsm::executeContent)',
    'fsm::Fsm::get_transition_by_id|unwrap|unwrap<-get|1':
        'ids stored in the model are allocated by the reader/deserializer together with the entry they name (R04.5, W1); callers filter the null id 0 (C01 R01.3/R01.4, Fsm::executeContent)',
    'fsm::Fsm::get_transition_by_id_mut|unwrap|unwrap<-get_mut|1':
        'ids stored in the model are allocated by the reader/deserializer together with the entry they name (R04.5, W1); callers filter the null id 0 (C01 R01.3/R01.4, Fsm::executeContent)',
    '<datamodel::ecma_script::ECMAScriptDatamodel as datamodel::Datamodel>::executeContent|unwrap|unwrap<-get|1':
        'ids stored in the model are allocated by the reader/deserializer together with the entry they name (R04.5, W1); callers filter the null id 0 (C01 R01.3/R01.4, Fsm::executeContent)',
    '<executable_content::If as executable_content::ExecutableContent>::execute|unwrap|unwrap<-get|1':
        'guarded by `self.content != 0`; ids stored in the model are allocated by the reader/deserializer together with the entry they name (R04.5, W1); callers filter the null id 0 (C01 R01.3/R01.4, Fsm::executeContent)',
    '<executable_content::If as executable_content::ExecutableContent>::execute|unwrap|unwrap<-get|2':
        'guarded by `self.else_content != 0`; ids stored in the model are allocated by the reader/deserializer together with the entry they name (R04.5, W1); callers filter the null id 0 (C01 R01.3/R01.4, Fsm::executeContent)',
    '<executable_content::ForEach as executable_content::ExecutableContent>::execute::{closure#0}|unwrap|unwrap<-get|1':
        'guarded by `self.content != 0`; ids stored in the model are allocated by the reader/deserializer together with the entry they name (R04.5, W1) '
        '(edge visible since closures passed as `&mut dyn FnMut` are linked to the receiving call in the call graph)',
    'fsm::HashTable::<K, T>::get|unwrap|unwrap<-get|1':
        'both callers (enterStates, addDescendantStatesToEnter/getEffectiveTargetStates) test has() first (C06 R06.3/R06.4)',
    'fsm::List::<T>::tail|vec-remove|remove|1':
        'only caller findLCCA passes [t.source] ++ tstates, which is never empty',
    'fsm::Queue::<T>::dequeue|unwrap|unwrap<-pop_front|1':
        'only caller mainEventLoop dequeues on the not-empty branch (C03 R03.1)',
    'fsm::Fsm::invoke|unwrap|unwrap<-as_ref|1':
        'GlobalData.executor is set in the session thread before interpret() and never cleared',
    'event_io_processor::scxml_event_io_processor::ScxmlEventIOProcessor::send_to_session|diverge|panic!|1':
        'GlobalData.executor is set in the session thread before interpret() and never cleared',
    'fsm::Fsm::mainEventLoop|unwrap|unwrap<-recv|1':
        "recv() fails only when every Sender is dropped; the session's own GlobalData.externalQueue holds one for the whole run",
    'fsm::Fsm::returnDoneEvent|diverge|panic!|1':
        'caller_invoke_id and parent_session_id are copied together from the Fsm built by FsmExecutor::execute_with_data*, which sets both or neither',
    'executable_content::parse_duration_to_milliseconds|unwrap|unwrap<-next_number|1':
        'value_result.is_err() returned above',
    'event_io_processor::http_event_io_processor::rocket_receive_event|unwrap|unwrap<-as_mut|1':
        'param_values was set to Some on the line before when it was None',
    'event_io_processor::http_event_io_processor::rocket_welcome|unwrap|unwrap<-get|1':
        'k iterates es.sessions.keys() of the same locked map',
    'event_io_processor::http_event_io_processor::escape_html|assert|overflow:Mul|1':
        'text.len() * 2 of an in-memory string cannot overflow usize',
    '<executable_content::DefaultExecutableContentTracer as executable_content::ExecutableContentTracer>::print_name_and_attributes|assert|overflow:Mul|1':
        'trace_depth is the nesting depth of executable content',
    '<executable_content::DefaultExecutableContentTracer as executable_content::ExecutableContentTracer>::print_name_and_attributes|assert|bounds|1':
        'get_type() returns one of the nine TYPE_* constants 0..=8 and TYPE_NAMES has nine entries (W1 checks the constant table)',
    '<executable_content::DefaultExecutableContentTracer as executable_content::ExecutableContentTracer>::print_sub_content|assert|overflow:Mul|1':
        'trace_depth is the nesting depth of executable content',
    '<executable_content::DefaultExecutableContentTracer as executable_content::ExecutableContentTracer>::print_sub_content|assert|overflow:Sub|1':
        'decrement pairs with the increment a few lines above in the same call',
    '<executable_content::DefaultExecutableContentTracer as executable_content::ExecutableContentTracer>::print_sub_content|assert|overflow:Mul|2':
        'trace_depth is the nesting depth of executable content',
    'executable_content::DefaultExecutableContentTracer::trace|assert|overflow:Mul|1':
        'trace_depth is the nesting depth of executable content',
    'datamodel::ecma_script::ECMAScriptDatamodel::js_to_data_value|unwrap|unwrap<-as_boolean|1':
        'as_boolean() on a value whose get_type() is Boolean',
    'datamodel::ecma_script::ECMAScriptDatamodel::js_to_data_value|unwrap|unwrap<-as_number|1':
        'as_number() on a value whose get_type() is Number',
    'datamodel::ecma_script::ECMAScriptDatamodel::js_to_data_value|unwrap|unwrap<-from_object|1':
        'JsArray::from_object after obj.is_array()',
    'datamodel::ecma_script::ECMAScriptDatamodel::js_to_data_value|unwrap|unwrap<-length|1':
        'length of a genuine Array object (is_array() is false for proxies) is an own data property',
    'datamodel::ecma_script::ECMAScriptDatamodel::call_action|unwrap|unwrap<-from_object|1':
        'JsArray::from_object after obj.is_array()',
    'datamodel::ecma_script::ECMAScriptDatamodel::call_action|unwrap|unwrap<-length|1':
        'length of a genuine Array object is an own data property',
    'datamodel::ecma_script::ECMAScriptDatamodel::in_configuration|unwrap|unwrap<-get_data|1':
        'FsmJSWrapper is inserted into the context by add_functions, which interpret() runs before any content',
    'datamodel::ecma_script::ECMAScriptDatamodel::new|unwrap|unwrap<-build|1':
        'ContextBuilder::build() with default hooks does not fail',
    '<datamodel::ecma_script::ECMAScriptDatamodel as datamodel::Datamodel>::execute_for_each|unwrap|unwrap<-as_object|1':
        'as_object() on a value whose get_type() is Object',
    '<datamodel::ecma_script::ECMAScriptDatamodel as datamodel::Datamodel>::execute_for_each|unwrap|unwrap<-enumerable|1':
        'right operand of `is_some() &&`',
    '<datamodel::ecma_script::ECMAScriptDatamodel as datamodel::Datamodel>::execute_for_each|assert|overflow:Add|1':
        'idx counts iterations over an in-memory array',
}
