"""Helpers shared by the property rule tables."""
from facts import children, path_matches, line_of, macros_of, AnchorMissing, const_eval
import hirq
from hirq import peel, local_of, callee, is_call, walk

NO_T = set()  # peel only & * casts


def short(fn):
    return fn.path


def field_uses(facts, owner_suffix, field):
    """Every HIR `field` node `.field` whose base type is (a guard of / reference to) owner."""
    out = []
    for fn in facts.fn_list:
        if fn.hir is None:
            continue
        for n in fn.walk():
            if n.get("k") == "field" and n["n"] == field and owner_in_type(n.get("bty", ""), owner_suffix):
                out.append((fn, n))
    return out


def owner_in_type(ty, owner_suffix):
    t = ty.replace("&mut ", "").replace("&", "")
    t = t.strip()
    return t == owner_suffix or t.endswith("::" + owner_suffix) or ("<" + owner_suffix + ">") in t or ("::" + owner_suffix + ">") in t \
        or t.startswith(owner_suffix + "<") or ("::" + owner_suffix + "<") in t


def classify_field_use(fn, n):
    """How a `field` node is used by its parent: ('mut-call', method) / ('call', method) / ('assign',) /
    ('ref-mut',) / ('read',) / ('subfield-assign',)."""
    cur = n
    p = fn.parent(cur)
    # through deref / paren
    while p is not None and ((p.get("k") == "un" and p["op"] == "Deref") or (p.get("k") == "block" and not p["st"])):
        cur, p = p, fn.parent(p)
    if p is None:
        return ("read",)
    k = p.get("k")
    if k == "mcall" and p["r"] is cur:
        if p.get("rty", "").startswith("&mut"):
            return ("mut-call", p["m"], p)
        return ("call", p["m"], p)
    if k in ("assign", "assignop") and p["l"] is cur:
        return ("assign", None, p)
    if k == "ref" and p.get("mut"):
        return ("ref-mut", None, p)
    if k == "field":
        # nested field: look further up for an assignment / mutable use
        sub = classify_field_use(fn, p)
        if sub[0] in ("assign", "mut-call", "ref-mut", "sub-mut"):
            return ("sub-mut", sub[1], sub[2])
        return ("read",)
    if k == "index" and p["e"] is cur:
        sub = classify_field_use(fn, p)
        if sub[0] in ("assign", "mut-call", "ref-mut", "sub-mut"):
            return ("sub-mut", sub[1], sub[2])
        return ("read",)
    return ("read",)


def mutations_of_field(facts, owner_suffix, field):
    """[(fn, field node, kind, method, parent node)] for every mutating use of owner.field."""
    out = []
    for fn, n in field_uses(facts, owner_suffix, field):
        c = classify_field_use(fn, n)
        if c[0] in ("mut-call", "assign", "ref-mut", "sub-mut"):
            out.append((fn, n, c[0], c[1], c[2]))
    return out


def ordinal_key(fn, nodes, node):
    """Stable ordinal of node among `nodes` (same kind of site in the same function)."""
    for i, x in enumerate(nodes):
        if x is node:
            return i
    return -1


def is_entry_order(cmp_name, order):
    """Entry order = document order of states: `state_entry_order(a, b)` (a one-line wrapper) or `state_document_order(a, b)` itself;
    both comparator tables are evaluated by C02 R02.2."""
    return cmp_name in ("state_entry_order", "state_document_order") and tuple(order or ()) == (0, 1)


def site_key(fn, what, ordinal=0):
    return "%s|%s|%d" % (fn.path, what, ordinal)


def arg(n, i):
    """i-th *explicit* argument of a call / method call (receiver not counted)."""
    return n["a"][i]


def recv(n):
    return n["r"] if n.get("k") == "mcall" else None


def same_local(a, b):
    la, lb = local_of(a), local_of(b)
    return la is not None and la == lb


def closure_param(fn, n):
    """(closure node, index) if the value of n is a closure parameter."""
    o = hirq.origin(fn, n)
    if o.get("from") == "closure_param":
        return o["closure"], o["index"]
    return None


def describe(n):
    """Short printable description of an expression."""
    n0 = n
    n = peel(n)
    k = n.get("k")
    if k == "path":
        r = n["r"]
        return r["n"] if r["k"] == "local" else r.get("p", "?")
    if k == "field":
        return describe(n["e"]) + "." + n["n"]
    if k in ("call", "mcall"):
        if k == "mcall":
            return "%s.%s(%s)" % (describe(n["r"]), n["m"], ",".join(describe(a) for a in n["a"]))
        return "%s(%s)" % ((n.get("p") or "?").split("::")[-1], ",".join(describe(a) for a in n["a"]))
    if k == "lit":
        return str(list(n["v"].values())[0])
    if k == "bin":
        return "(%s %s %s)" % (describe(n["l"]), n["op"], describe(n["r"]))
    if k == "un":
        return "%s(%s)" % (n["op"], describe(n["e"]))
    if k == "index":
        return "%s[%s]" % (describe(n["e"]), describe(n["i"]))
    if k == "closure":
        return "|..| " + describe(n["body"])
    if k == "block":
        return "{..}"
    return k or "?"


def is_field_of(n, field, base_local_name=None):
    """peeled n is `X.field` (optionally X a local named base_local_name)."""
    f = hirq.field_of(n, NO_T)
    if not f or f[1] != field:
        return False
    if base_local_name is None:
        return True
    return hirq.local_name(f[0]) == base_local_name


def global_field_expr(n, field):
    """n (peeled of & and *) is `<guard on GlobalData>.field`."""
    m = peel(n, NO_T)
    return m.get("k") == "field" and m["n"] == field and owner_in_type(m.get("bty", ""), "GlobalData")


def calls_in(fn, suffix, root=None):
    return fn.calls(suffix, root=root)


def hir_call_blocks(fn, node):
    """MIR blocks of a HIR call node (same span, call terminator)."""
    bl = [b for b in fn.blocks_of_span(node["s"]) if fn.blocks[b]["t"]["k"] == "call"]
    return bl


def dominates_hir(fn, a, b):
    """Every path to call-site b passes call-site a (MIR dominators; a, b HIR call nodes of fn's own body)."""
    ba, bb = hir_call_blocks(fn, a), hir_call_blocks(fn, b)
    if not ba or not bb:
        raise AnchorMissing("cannot map HIR call at %s / %s to MIR in %s" % (line_of(a), line_of(b), fn.path))
    cfg = fn.cfg
    # the *last* block of a's evaluation must dominate the first of b's: any block with that span is the call itself
    return all(any(cfg.dominates(x, y) and x != y or (x == y and False) for x in ba) for y in bb)


def method_chain(fn, n, follow_lets=True, depth=6):
    """Decomposes `base.m1(..).m2(..)` into (base, [(name, callnode), ...]) innermost first.
    Single-assignment `let x = <chain>` is followed when the base is such a local."""
    chain = []
    while depth > 0:
        n = peel(n, NO_T)
        if n.get("k") == "mcall":
            chain.append((n["m"], n))
            n = n["r"]
            continue
        if follow_lets:
            b = local_of(n, NO_T)
            if b is not None:
                d = hirq.single_def(fn, b)
                if d is not None:
                    init = peel(d, NO_T)
                    if init.get("k") == "mcall" or local_of(init, NO_T) is not None:
                        n = init
                        depth -= 1
                        continue
        break
    return n, list(reversed(chain))


def comparator_of(fn, sortcall):
    """For `.sort(&cmp)` / `.sort_by(&cmp)`: (function name, argument order) of the comparator.
    cmp is either a closure |a,b| self.F(a,b) or a path to fn F. Argument order is the tuple of
    closure-parameter indexes passed to F, e.g. (0,1) or (1,0)."""
    a = peel(sortcall["a"][0], NO_T)
    if a.get("k") == "closure":
        body = peel(a["body"], NO_T)
        if body.get("k") in ("mcall", "call") and body.get("p"):
            params = [p.get("b") for p in a["params"]]
            order = []
            for x in body["a"]:
                lb = local_of(x)
                order.append(params.index(lb) if lb in params else None)
            return body["p"].split("::")[-1], tuple(order)
        return None, None
    if a.get("k") == "path" and a["r"].get("k") == "def":
        return a["r"]["p"].split("::")[-1], (0, 1)
    return None, None


def param_index(fn, n):
    """index of the fn parameter that n (peeled) denotes, else None."""
    o = hirq.origin(fn, n)
    if o.get("from") == "param" and not o.get("destruct"):
        return o["index"]
    return None


def only_stmt_call(body):
    """If a block consists of exactly one expression (tail or single stmt) return it peeled."""
    b = body
    while b.get("k") == "block":
        seq = list(b["st"]) + ([b["tail"]] if "tail" in b else [])
        if len(seq) != 1:
            return None
        b = seq[0]
    return b
