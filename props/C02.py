"""C02 — each microstep takes exactly the W3C optimal transition set, deterministically.

Decided: structural necessary conditions of the selection procedures (orders, polarity,
first-match, pre-emption branches, microstep phases) and a K9 determinism audit of the region
reachable from Fsm::interpret.
Not decided: equality with the W3C result on every document (behaviour), guard values.
"""
import re

from common import *
import hirq
import speccov

ALG = "fsm::Fsm::"
LT, EQ, GT = "Less", "Equal", "Greater"


# ---------------------------------------------------------------------------------------------
# small helpers (property specific)
# ---------------------------------------------------------------------------------------------

def is_trace_node(n):
    p = n.get("p") or ""
    return hirq.in_trace_macro(n) or "tracer::" in p


def is_trace_only(fn, s):
    """statement s does nothing but tracing (no assignment, no jump, every call is a trace call
    or sits below one)."""
    for n in fn.walk(s):
        k = n.get("k")
        if k in ("assign", "assignop", "break", "continue", "ret", "for", "while", "loop"):
            return False
        if k in ("call", "mcall") and not is_trace_node(n):
            if not any(is_trace_node(a) for a in fn.ancestors(n) if a.get("k") in ("call", "mcall", "block")):
                # plain accessors inside a trace argument are fine, a free-standing call is not
                return False
    return True


def leaves_loop_after(fn, node, loop):
    """After the expression statement `node` nothing but tracing runs before a `break` out of `loop`."""
    cur = node
    for anc in fn.ancestors(node):
        if anc is loop:
            return False
        k = anc.get("k")
        if k == "block":
            seq = list(anc["st"]) + ([anc["tail"]] if "tail" in anc else [])
            pos = [j for j, s in enumerate(seq) if s is cur]
            if pos:
                for s in seq[pos[0] + 1:]:
                    if s.get("k") == "break" and s.get("to") == loop.get("id") and "e" not in s:
                        return True
                    if is_trace_only(fn, s):
                        continue
                    return False
        elif k in ("for", "while", "loop", "closure"):
            return False
        cur = anc
    return False


def local_uses(fn, b):
    """[(role, node)] for every mention of local b: ('recv', mcall) when it is the receiver of a method call
    (through & and *), ('iter', for) when it is what a for loop iterates (directly or via iter()/into_iter()),
    ('trace', n) inside tracing, ('other', parent) else. In evaluation order."""
    out = []
    for n in fn.walk():
        if not (n.get("k") == "path" and n["r"].get("k") == "local" and n["r"]["b"] == b):
            continue
        cur, p = n, fn.parent(n)
        while p is not None and (p.get("k") in ("ref", "cast") or (p.get("k") == "un" and p["op"] == "Deref") or
                                 (p.get("k") == "block" and p.get("inl") and p.get("tail") is cur)):   # value of an absorbed helper call
            cur, p = p, fn.parent(p)
        if p is None:
            out.append(("other", n))
        elif any(is_trace_node(a) for a in [p] + list(fn.ancestors(p)) if a.get("k") in ("call", "mcall", "block")):
            out.append(("trace", p))
        elif p.get("k") == "mcall" and p["r"] is cur:
            if p["m"] in ("iter", "into_iter", "iterator") and not p["a"]:
                pp = fn.parent(p)
                if pp is not None and pp.get("k") == "for" and pp["iter"] is p:
                    out.append(("iter", pp))
                    continue
            out.append(("recv", p))
        elif p.get("k") == "for" and p["iter"] is cur:
            out.append(("iter", p))
        elif p.get("k") == "assign" and p["l"] is cur:
            out.append(("assign", p))
        else:
            out.append(("other", p))
    return out


def let_of(fn, b):
    info = fn.bindings().get(b)
    if info and info["from"] == "let":
        return info["node"]
    return None


def expr_of(fn, e, transparent=NO_T):
    """e, or the initialiser of the single-assignment local e denotes."""
    o = hirq.origin(fn, e)
    if o.get("from") == "expr":
        return peel(o["expr"], transparent)
    return peel(e, transparent)


def sorts_in(fn, chain):
    return [(m, n) for m, n in chain if m in ("sort", "sort_by", "sort_unstable_by")]


def loop_sorted_with(fn, loop):
    """(comparator name, argument order, base, method names) of the list a for loop iterates."""
    base, chain = method_chain(fn, loop["iter"])
    srt = sorts_in(fn, chain)
    cmp_name, order = comparator_of(fn, srt[-1][1]) if srt else (None, None)
    return cmp_name, order, base, [m for m, _ in chain], chain


# ---------------------------------------------------------------------------------------------
# K4: comparator tables by abstract evaluation of the comparator body on (a<b, a==b, a>b)
# ---------------------------------------------------------------------------------------------

class _Unknown(Exception):
    pass


class _Return(Exception):
    def __init__(self, v):
        self.v = v


def _ord_of_ints(a, b):
    return ("ord", LT if a < b else (EQ if a == b else GT))


def _ev(F, fn, n, env, depth):
    k = n.get("k")
    if k == "block":
        for s in n["st"]:
            _ev(F, fn, s, env, depth)
        if "tail" in n:
            return _ev(F, fn, n["tail"], env, depth)
        return ("unit",)
    if k == "let":
        if "init" in n and n["pat"].get("k") == "bind":
            try:
                env[n["pat"]["b"]] = _ev(F, fn, n["init"], env, depth)
            except _Unknown:
                env[n["pat"]["b"]] = ("unknown",)
        return ("unit",)
    if k in ("ref", "cast") or (k == "un" and n["op"] == "Deref"):
        return _ev(F, fn, n["e"], env, depth)
    if k == "un" and n["op"] == "Not":
        v = _ev(F, fn, n["e"], env, depth)
        if isinstance(v, bool):
            return not v
        raise _Unknown("not of %r" % (v,))
    if k == "lit":
        v = const_eval(n)
        if v is None:
            raise _Unknown("literal")
        return v
    if k == "path":
        r = n["r"]
        if r.get("k") == "local":
            if r["b"] not in env:
                raise _Unknown("local " + r.get("n", "?"))
            v = env[r["b"]]
            if v == ("unknown",):
                raise _Unknown("local " + r.get("n", "?"))
            return v
        p = r.get("p", "")
        for o in (LT, EQ, GT):
            if p.endswith("cmp::Ordering::" + o):
                return ("ord", o)
        raise _Unknown("path " + p)
    if k == "field":
        v = _ev(F, fn, n["e"], env, depth)
        if isinstance(v, tuple) and v[0] == "obj" and n["n"] == "doc_id":
            return v[1]
        raise _Unknown("field ." + n["n"])
    if k == "bin":
        op = n["op"]
        if op in ("And", "Or"):
            l = _ev(F, fn, n["l"], env, depth)
            if not isinstance(l, bool):
                raise _Unknown("bool")
            if (op == "And" and not l) or (op == "Or" and l):
                return l
            r = _ev(F, fn, n["r"], env, depth)
            if not isinstance(r, bool):
                raise _Unknown("bool")
            return r
        l, r = _ev(F, fn, n["l"], env, depth), _ev(F, fn, n["r"], env, depth)
        if isinstance(l, tuple) and isinstance(r, tuple) and l[0] == r[0] == "ord" and op in ("Eq", "Ne"):
            return (l == r) == (op == "Eq")
        if not (isinstance(l, int) and isinstance(r, int)):
            raise _Unknown("operands of " + op)
        table = {"Gt": l > r, "Lt": l < r, "Ge": l >= r, "Le": l <= r, "Eq": l == r, "Ne": l != r}
        if op not in table:
            raise _Unknown("operator " + op)
        return table[op]
    if k == "if":
        c = _ev(F, fn, n["c"], env, depth)
        if not isinstance(c, bool):
            raise _Unknown("condition")
        if c:
            return _ev(F, fn, n["t"], env, depth)
        return _ev(F, fn, n["e"], env, depth) if "e" in n else ("unit",)
    if k == "ret":
        raise _Return(_ev(F, fn, n["e"], env, depth) if "e" in n else ("unit",))
    if k == "match":
        v = _ev(F, fn, n["e"], env, depth)
        for arm in n["arms"]:
            pat = arm["pat"]
            pk = pat.get("k")
            if pk == "bind" and "sub" not in pat:
                env[pat["b"]] = v
            elif pk == "wild":
                pass
            elif pk == "plit":
                if const_eval(pat["v"]) != v if isinstance(pat.get("v"), dict) and pat["v"].get("k") else True:
                    raise _Unknown("literal pattern")
            elif pk == "ppath":
                p = pat["r"].get("p", "")
                hit = [o for o in (LT, EQ, GT) if p.endswith("cmp::Ordering::" + o)]
                if not hit or not (isinstance(v, tuple) and v[0] == "ord"):
                    raise _Unknown("path pattern")
                if v[1] != hit[0]:
                    continue
            else:
                raise _Unknown("pattern " + str(pk))
            if "guard" in arm:
                g = _ev(F, fn, arm["guard"], env, depth)
                if not isinstance(g, bool):
                    raise _Unknown("guard")
                if not g:
                    continue
            return _ev(F, fn, arm["body"], env, depth)
        raise _Unknown("no arm matches")
    if k in ("call", "mcall"):
        if is_trace_node(n):
            return ("unit",)
        p = n.get("p") or ""
        name = p.split("::")[-1]
        args = ([n["r"]] if k == "mcall" else []) + list(n["a"])
        if name in ("get_state_by_id", "get_transition_by_id") and p.startswith("fsm::Fsm::"):
            v = _ev(F, fn, args[-1], env, depth)
            if isinstance(v, tuple) and v[0] == "obj":
                return v
            raise _Unknown("lookup of a non-object")
        if name == "clone" and len(args) == 1:
            return _ev(F, fn, args[0], env, depth)
        if name == "cmp" and len(args) == 2:
            l, r = _ev(F, fn, args[0], env, depth), _ev(F, fn, args[1], env, depth)
            if isinstance(l, int) and isinstance(r, int):
                return _ord_of_ints(l, r)
            raise _Unknown("cmp operands")
        if name == "reverse" and "Ordering" in p and len(args) == 1:
            v = _ev(F, fn, args[0], env, depth)
            if isinstance(v, tuple) and v[0] == "ord":
                return ("ord", {LT: GT, GT: LT, EQ: EQ}[v[1]])
            raise _Unknown("reverse")
        if p in F.fns and depth < 4:
            callee_fn = F.fns[p]
            vals = []
            for a in args:
                try:
                    vals.append(_ev(F, fn, a, env, depth))
                except _Unknown:
                    vals.append(("unknown",))
            return _call(F, callee_fn, vals, depth + 1)
        raise _Unknown("call " + p)
    raise _Unknown("node " + str(k))


def _call(F, fn, vals, depth):
    if fn.hir is None or len(vals) != len(fn.params):
        raise _Unknown("callee " + fn.path)
    env = {}
    for p, v in zip(fn.params, vals):
        if p.get("k") == "bind":
            env[p["b"]] = v
    try:
        return _ev(F, fn, fn.hir, env, depth)
    except _Return as r:
        return r.v


def comparator_table(F, fn):
    """{'lt': .., 'eq': .., 'gt': ..}: the Ordering the comparator returns when the first object's doc_id is
    smaller / equal / larger than the second's (None when the body cannot be evaluated)."""
    out = {}
    for tag, (a, b) in (("lt", (1, 2)), ("eq", (2, 2)), ("gt", (2, 1))):
        vals = []
        objs = [("obj", a), ("obj", b)]
        for p in fn.params:
            if p.get("n") == "self":
                vals.append(("self",))
            else:
                vals.append(objs.pop(0) if objs else ("unknown",))
        try:
            v = _call(F, fn, vals, 0)
            out[tag] = v[1] if isinstance(v, tuple) and v[0] == "ord" else None
        except _Unknown as e:
            out[tag] = None
            out["why"] = str(e)
    return out


# ---------------------------------------------------------------------------------------------
# K9 determinism
# ---------------------------------------------------------------------------------------------

HASH_ITER_TY = re.compile(r'\bstd::collections::hash_(map|set)::(Iter|IterMut|Keys|Values|ValuesMut|IntoIter|IntoKeys|IntoValues|'
                          r'Drain|ExtractIf|Difference|Intersection|Union|SymmetricDifference)\b')
HASH_ORDER_CALLBACK = re.compile(r'\bHash(Map|Set)::<[^>]*>::(retain|extract_if)$')
NONDET_READ = re.compile(r'(\bInstant::now\b|\bSystemTime::now\b|::elapsed\b|\bUtc::now\b|\bLocal::now\b|\brand::|\bgetrandom\b|\bthread_rng\b|'
                         r'\bfastrand::|\buuid::|\bthread::current\b|\bThread::id\b|\bprocess::id\b)')


def is_hash_iter_ty(t):
    return bool(HASH_ITER_TY.search(t or ""))


def hash_iteration_sites(fn):
    """MIR calls of fn that start an iteration in hash order: a call producing a hash-container iterator from
    something that is not already one (iter/keys/values/drain/into_iter, `for x in &map`), or retain/extract_if."""
    out = []
    for bi, t in fn.mir_calls():
        if is_hash_iter_ty(t.get("dty")) and not any(is_hash_iter_ty(a) for a in t.get("argtys", [])):
            out.append((bi, t))
        elif HASH_ORDER_CALLBACK.search(t["f"]):
            out.append((bi, t))
    return out


def owner_module(p):
    if p.startswith("<"):
        p = p[1:].split(" as ")[0]
    return p


def outside_region(p):
    """datamodel internals (everything in the datamodel / expression-engine modules except the routing default
    methods of the Datamodel trait itself) and tracing."""
    if p.startswith("datamodel::Datamodel::"):
        return False
    o = owner_module(p)
    return o.startswith(("datamodel::", "expression_engine::", "tracer::")) or "ExecutableContentTracer" in p


# audited, order-insensitive hash iterations inside the region: function -> (container type fragment, reason)
AUDITED_HASH_ITER = {
    "fsm::Fsm::exitStates": ("HashMap<std::string::String, fsm::ScxmlSession>",
                             "scan of child_sessions selecting the sessions to cancel; each is sent the same cancel event, "
                             "nothing of this session's trace depends on the order"),
    "fsm::Fsm::exitInterpreter": ("HashMap<std::string::String, fsm::ScxmlSession>",
                                  "scan of child_sessions to cancel every child when the interpreter exits"),
    "fsm::HashTable::<K, T>::put_all": ("HashMap<K, T>", "copies map to map (insert per key): result independent of order"),
}


def run(ctx):
    F = ctx.facts
    ctx.explanation = ("C02: W3C vocabulary coverage of 7 procedures; document-order comparators evaluated abstractly; "
                       "sort/filter/ancestor order of both selectors; event polarity and first-match; pre-emption branches of "
                       "removeConflictingTransitions; microstep phase order on every path; no hash-order iteration, clock, random "
                       "or thread-id read in the region reachable from Fsm::interpret")
    ctx.assumptions += [
        "the W3C pseudo-code is the definition of the optimal transition set",
        "rustc's HIR/MIR and type resolution for the analysed configuration",
        "std Vec/slice sort_by and iteration are deterministic; HashMap/HashSet iteration order is not",
        "datamodel implementations (ECMAScript, rfsm-expression) and tracing are outside the determinism region",
    ]

    # ---------------------------------------------------------------- R02.1
    ctx.rule("R02.1", "every algorithm-vocabulary call of the W3C pseudo-code of selectEventlessTransitions, selectTransitions, "
                      "removeConflictingTransitions, microstep, exitStates, executeTransitionContent, enterStates is made by the "
                      "implementing procedure (order-free; declared deviations in tables/spec_deviations.json)")
    ctx.guard("R02.1", lambda: speccov.check(ctx, "R02.1", ["selectEventlessTransitions", "selectTransitions", "removeConflictingTransitions",
                                                            "microstep", "exitStates", "executeTransitionContent", "enterStates"]))

    # ---------------------------------------------------------------- R02.2 orders
    ctx.rule("R02.2", "orders: both selectors iterate configuration filtered by isAtomicState and sorted by state_document_order; per "
                      "atomic state the searched list is [state] followed by getProperAncestors(state, 0); per state the transitions "
                      "are sorted by transition_document_order and candidates are appended in that order; the three *_document_order "
                      "comparators return Greater exactly when the first doc_id is larger (Equal when equal); state_entry_order is "
                      "document order, state_exit_order its reverse; exitStates works in exit order, enterStates and the invoke "
                      "phase in entry order, invokes of a state in invoke_document_order")

    sel = {}  # per selector: the loops identified here, reused by R02.3

    def selector_shape(name):
        fn = F.fn(ALG + name)
        tail = fn.hir.get("tail")
        res = local_of(tail, NO_T) if tail is not None else None
        adds = [c for c in fn.calls("OrderedSet::add") if res is not None and local_of(c["r"], NO_T) == res]
        ctx.exact("R02.2", "enabledTransitions.add sites in " + name, len(adds), 1)
        if len(adds) != 1:
            return None
        add = adds[0]
        ct_loop = hirq.loop_var_of(fn, add["a"][0])
        ok = ct_loop is not None
        ctx.ob("R02.2", site_key(fn, "added transition is the variable of the candidate loop"), ok, line_of(add),
               "enabledTransitions.add(%s)" % describe(add["a"][0]))
        if not ok:
            return None
        cand = local_of(ct_loop["iter"])
        outer = hirq.enclosing_loops(fn, ct_loop)
        ok = cand is not None and len(outer) == 1 and outer[0].get("k") == "for"
        ctx.ob("R02.2", site_key(fn, "candidate loop iterates a local list, directly inside the atomic-state loop"), ok, line_of(ct_loop),
               "iterates %s inside %d loop(s)" % (describe(ct_loop["iter"]), len(outer)))
        if not ok:
            return None
        atom_loop = outer[0]
        d = dict(fn=fn, add=add, ct_loop=ct_loop, cand=cand, atom_loop=atom_loop, res=res)
        sel[name] = d

        # (a) atomic states in document order
        cmp_name, order, base, names, chain = loop_sorted_with(fn, atom_loop)
        flt = [n for m, n in chain if m == "filter_by"]
        flt_ok = False
        if flt:
            cl = peel(flt[0]["a"][0], NO_T)
            if cl.get("k") == "closure":
                body = peel(cl["body"], NO_T)
                while body.get("k") == "block" and not body["st"] and "tail" in body:
                    body = peel(body["tail"], NO_T)
                if is_call(body, ALG + "isAtomicStateId"):
                    flt_ok = local_of(body["a"][0]) == cl["params"][0].get("b")
                elif is_call(body, ALG + "isAtomicState"):
                    inner = peel(body["a"][0], NO_T)
                    flt_ok = is_call(inner, ALG + "get_state_by_id") and local_of(inner["a"][0]) == cl["params"][0].get("b")
            elif cl.get("k") == "path" and cl["r"].get("k") == "def":
                flt_ok = cl["r"]["p"].split("::")[-1] in ("isAtomicStateId",)
        cfg_ok = global_field_expr(base, "configuration")
        ok = cfg_ok and flt_ok and cmp_name == "state_document_order" and order == (0, 1)
        ctx.ob("R02.2", site_key(fn, "atomic states of the configuration in document order"), ok, line_of(atom_loop),
               "base is configuration: %s; filter isAtomicState(element): %s; sorted by %s%s via %s" % (cfg_ok, flt_ok, cmp_name, order, ".".join(names)))
        sv = atom_loop["pat"].get("b")

        # the candidate list: fresh per atomic state, only appended to
        let = let_of(fn, cand)
        fresh = let is not None and [l for l in hirq.enclosing_loops(fn, let)][:1] == [atom_loop]
        empty = let is not None and "init" in let and is_call(peel(let["init"], NO_T), "Vec::new")
        uses = local_uses(fn, cand)
        pushes = [n for r, n in uses if r == "recv"]
        iters = [n for r, n in uses if r == "iter"]
        others = [(r, n) for r, n in uses if r in ("other", "assign")]
        only_push = bool(pushes) and all(is_call(p, "Vec::<T, A>::push") for p in pushes)
        ok = fresh and empty and only_push and iters == [ct_loop] and not others
        ctx.ob("R02.2", site_key(fn, "candidate list is created empty per atomic state and only appended to"), ok, line_of(ct_loop),
               "declared in the atomic-state loop: %s; starts empty: %s; mutated only by push (%d site(s)): %s; other uses: %d" % (
                   fresh, empty, len(pushes), only_push, len(others)))
        d["pushes"] = pushes
        ctx.floor("R02.2", "candidate push sites in " + name, len(pushes), 1)
        idx = hirq.order_index(fn)
        for i, p in enumerate(pushes):
            loops = hirq.enclosing_loops(fn, p)
            shape = len(loops) == 3 and loops[2] is atom_loop and all(l.get("k") == "for" for l in loops)
            before = idx[id(p)] < idx[id(ct_loop)]
            okp = shape and before
            detail = "push nested in %d loop(s), before the candidate loop: %s" % (len(loops), before)
            if okp:
                t_loop, s_loop = loops[0], loops[1]
                tv, stv = t_loop["pat"].get("b"), s_loop["pat"].get("b")
                # pushed value is <transition loop variable>.id
                f = hirq.field_of(p["a"][0], NO_T)
                is_id = bool(f) and f[1] == "id" and local_of(f[0]) == tv
                # (b) state first, then its proper ancestors
                b_ok, b_detail = self_then_ancestors(fn, s_loop, sv, atom_loop)
                # (c) transitions of that state in document order
                c_ok, c_detail = transitions_in_document_order(fn, t_loop, stv, s_loop)
                okp = is_id and b_ok and c_ok
                detail = "pushes %s (id of the transition loop variable: %s); %s; %s" % (describe(p["a"][0]), is_id, b_detail, c_detail)
                d.setdefault("t_loops", []).append((p, t_loop))
            ctx.ob("R02.2", site_key(fn, "candidates: state then ancestors, transitions in document order", i), okp, line_of(p), detail)
        return d

    def self_then_ancestors(fn, s_loop, sv, atom_loop):
        def is_state(e):
            return local_of(e) == sv

        def is_anc(e):
            c = expr_of(fn, e, {"toList", "clone"})
            return is_call(c, ALG + "getProperAncestors") and is_state(c["a"][0]) and const_eval(peel(c["a"][1], NO_T)) == 0

        def is_singleton(e):
            c = expr_of(fn, e)
            if is_call(c, "fsm::List::from_array"):
                arr = peel(c["a"][0], NO_T)
                return arr.get("k") == "array" and len(arr["a"]) == 1 and is_state(arr["a"][0])
            return False

        base, chain = method_chain(fn, s_loop["iter"])
        ops = [(m, n) for m, n in chain if m not in ("iterator", "iter", "clone")]
        if is_singleton(base):
            ok = len(ops) == 1 and ops[0][0] in ("append_set", "append") and is_anc(ops[0][1]["a"][0])
            return ok, "list is [state].%s(getProperAncestors(state, 0)): %s" % (".".join(m for m, _ in ops), ok)
        lb = local_of(base, NO_T)
        if lb is None or ops:
            return False, "searched list %s is neither [state].append(ancestors) nor a local list" % describe(s_loop["iter"])
        let = let_of(fn, lb)
        fresh = let is not None and hirq.enclosing_loops(fn, let)[:1] == [atom_loop] and "init" in let and \
            is_call(peel(let["init"], NO_T), "fsm::List::new")
        uses = local_uses(fn, lb)
        ev = [n for r, n in uses if r == "recv"]
        rest = [n for r, n in uses if r in ("other", "assign")]
        its = [n for r, n in uses if r == "iter"]
        seq_ok = len(ev) == 2 and ev[0]["m"] == "push" and is_state(ev[0]["a"][0]) and \
            ev[1]["m"] in ("push_set", "append_set") and is_anc(ev[1]["a"][0]) and ev[1]["m"] == "push_set"
        idx = hirq.order_index(fn)
        before = bool(ev) and all(idx[id(e)] < idx[id(s_loop)] for e in ev) and not any(hirq.enclosing_loops(fn, e)[:1] != [atom_loop] for e in ev)
        ok = fresh and seq_ok and before and not rest and its == [s_loop]
        return ok, "list built per state as %s (push(state) then push_set(getProperAncestors(state, 0)): %s, fresh: %s)" % (
            [e["m"] for e in ev], seq_ok, fresh)

    def transitions_in_document_order(fn, t_loop, stv, s_loop):
        def is_transitions_of_state(e):
            f = hirq.field_of(e)
            if not f or f[1] != "transitions":
                return False
            c = expr_of(fn, f[0])
            return is_call(c, ALG + "get_state_by_id") and local_of(c["a"][0]) == stv

        cmp_name, order, base, names, chain = loop_sorted_with(fn, t_loop)
        if sorts_in(fn, chain):
            src = is_transitions_of_state(base) or any(is_transitions_of_state(x) for m, n in chain for x in n["a"])
            last_is_sort = [m for m in names if m not in ("iterator", "iter", "clone")][-1:] in (["sort"], ["sort_by"])
            ok = src and cmp_name == "transition_document_order" and order == (0, 1) and last_is_sort
            return ok, "transitions of the searched state: %s, sorted by %s%s" % (src, cmp_name, order)
        # not sorted in the iterated expression: a local Vec that is sorted in place before the loop
        base, _chain0 = method_chain(fn, t_loop["iter"], follow_lets=False)
        vb = local_of(base)
        if vb is None:
            return False, "transition loop iterates %s: no sort found" % describe(t_loop["iter"])
        let = let_of(fn, vb)
        # filled by pushes into a fresh Vec, or collected: `<transitions of the state>.iterator().map(|tid| get_transition_by_id(*tid)).collect()`
        collected = False
        if let is not None and "init" in let:
            base_i, chain_i = method_chain(fn, let["init"])
            names_i = [m for m, _ in chain_i]
            if names_i[-1:] == ["collect"] and names_i.count("map") == 1 and all(m in ("iterator", "iter", "map", "collect") for m in names_i) and \
                    is_transitions_of_state(base_i):
                mp = [n for m, n in chain_i if m == "map"][0]
                cl = peel(mp["a"][0], NO_T)
                body = peel(cl["body"], NO_T) if cl.get("k") == "closure" else {}
                collected = is_call(body, ALG + "get_transition_by_id") and len(cl.get("params", [])) == 1 and \
                    local_of(body["a"][0]) == cl["params"][0].get("b")
        fresh = let is not None and hirq.enclosing_loops(fn, let)[:1] == [s_loop] and "init" in let and \
            (is_call(peel(let["init"], NO_T), "Vec::new") or collected)
        uses = local_uses(fn, vb)
        ev = [n for r, n in uses if r == "recv"]
        rest = [n for r, n in uses if r in ("other", "assign")]
        its = [n for r, n in uses if r == "iter"]
        if not ev or ev[-1]["m"] not in ("sort_by", "sort_unstable_by"):
            return False, "local list %s is not sorted last before being searched (%s)" % (describe(base), [e["m"] for e in ev])
        cmp_name, order = comparator_of(fn, ev[-1])
        src = collected or len(ev) > 1
        for e in ev[:-1]:
            good = e["m"] == "push"
            if good:
                c = expr_of(fn, e["a"][0])
                lp = hirq.loop_var_of(fn, c["a"][0]) if is_call(c, ALG + "get_transition_by_id") else None
                good = lp is not None and is_transitions_of_state(method_chain(fn, lp["iter"])[0])
            src = src and good
        idx = hirq.order_index(fn)
        in_iter = any(x is ev[-1] for x in hirq.walk(t_loop["iter"]))   # sorted inside the iterated expression (absorbed helper)
        before = (idx[id(ev[-1])] < idx[id(t_loop)] or in_iter) and hirq.enclosing_loops(fn, ev[-1])[:1] == [s_loop]
        ok = fresh and src and before and not rest and its == [t_loop] and cmp_name == "transition_document_order" and order == (0, 1)
        return ok, "transitions of the searched state pushed into a fresh Vec: %s, then sort_by %s%s" % (src and fresh, cmp_name, order)

    def r2_selectors():
        for name in ("selectEventlessTransitions", "selectTransitions"):
            selector_shape(name)
    ctx.guard("R02.2", r2_selectors)

    def r2_tables():
        expect_doc = {"lt": LT, "eq": EQ, "gt": GT}
        expect_rev = {"lt": GT, "eq": EQ, "gt": LT}
        for name, exp in (("state_document_order", expect_doc), ("transition_document_order", expect_doc),
                          ("invoke_document_order", expect_doc), ("state_entry_order", expect_doc), ("state_exit_order", expect_rev)):
            if name == "state_entry_order" and not F.has_fn(ALG + name):
                continue   # the one-line wrapper was inlined: callers sort by state_document_order itself (is_entry_order)
            fn = F.fn(ALG + name)
            tab = comparator_table(F, fn)
            got = {k: tab.get(k) for k in ("lt", "eq", "gt")}
            ctx.ob("R02.2", site_key(fn, "comparator table"), got == exp, fn.where,
                   "first doc_id <,==,> second gives %s (expected %s)%s" % (
                       [got[k] for k in ("lt", "eq", "gt")], [exp[k] for k in ("lt", "eq", "gt")],
                       "; not evaluable: " + tab["why"] if "why" in tab else ""))
    ctx.guard("R02.2", r2_tables)

    def r2_phases():
        # exitStates: every loop over the exit set that does work beyond statesToInvoke.delete runs in exit order
        ex = F.fn(ALG + "exitStates")
        n = 0
        for lp in ex.nodes("for"):
            if hirq.enclosing_loops(ex, lp):
                continue
            cmp_name, order, base, names, chain = loop_sorted_with(ex, lp)
            if "computeExitSet" not in names:
                continue
            work = [c for c in ex.calls(root=lp["body"]) if not is_trace_node(c) and (
                path_matches(c["p"], ALG + "executeContent") or path_matches(c["p"], ALG + "cancelInvoke") or
                c["p"].startswith("fsm::HashTable") or (path_matches(c["p"], "OrderedSet::delete") and global_field_expr(c["r"], "configuration")))]
            if not work:
                continue
            n += 1
            ok = cmp_name == "state_exit_order" and order == (0, 1)
            ctx.ob("R02.2", site_key(ex, "loop over the exit set runs in exit order", n), ok, line_of(lp),
                   "loop doing %s iterates %s sorted by %s%s" % (sorted({c["p"].split("::")[-1] for c in work}), ".".join(names), cmp_name, order))
        ctx.floor("R02.2", "working loops over the exit set in exitStates", n, 2)

        en = F.fn(ALG + "enterStates")
        n = 0
        ces = en.calls(ALG + "computeEntrySet")
        ctx.exact("R02.2", "computeEntrySet calls in enterStates", len(ces), 1)
        ste = local_of(ces[0]["a"][2], NO_T) if ces else None
        for lp in en.nodes("for"):
            if hirq.enclosing_loops(en, lp):
                continue
            cmp_name, order, base, names, chain = loop_sorted_with(en, lp)
            if ste is None or local_of(base, NO_T) != ste:
                continue
            n += 1
            ok = is_entry_order(cmp_name, order)
            ctx.ob("R02.2", site_key(en, "loop over statesToEnter runs in entry order", n), ok, line_of(lp),
                   "iterates %s sorted by %s%s" % (".".join(names), cmp_name, order))
        ctx.floor("R02.2", "loops over statesToEnter in enterStates", n, 1)

        ml = F.fn(ALG + "mainEventLoop")
        invs = ml.calls(ALG + "invoke")
        ctx.exact("R02.2", "invoke call sites in mainEventLoop", len(invs), 1)
        for c in invs:
            loops = [l for l in hirq.enclosing_loops(ml, c) if l.get("k") == "for"]
            ok = len(loops) == 2
            detail = "invoke is inside %d for loop(s)" % len(loops)
            if ok:
                inner, outer = loops[0], loops[1]
                icmp, iord, ibase, inames, _ = loop_sorted_with(ml, inner)
                ocmp, oord, obase, onames, _ = loop_sorted_with(ml, outer)
                f = hirq.field_of(ibase)
                st = expr_of(ml, f[0]) if f else None
                of_state = bool(f) and f[1] == "invoke" and is_call(st, ALG + "get_state_by_id") and local_of(st["a"][0]) == outer["pat"].get("b")
                sti = global_field_expr(obase, "statesToInvoke")
                args_ok = local_of(c["a"][1]) == outer["pat"].get("b") and local_of(c["a"][2]) == inner["pat"].get("b")
                ok = of_state and sti and icmp == "invoke_document_order" and iord == (0, 1) and is_entry_order(ocmp, oord) and args_ok
                detail = "statesToInvoke sorted by %s%s: %s; invokes of that state sorted by %s%s: %s; invoke(state, inv): %s" % (
                    ocmp, oord, sti, icmp, iord, of_state, args_ok)
            ctx.ob("R02.2", site_key(ml, "invoke phase in entry order, invokes in document order"), ok, line_of(c), detail)
    ctx.guard("R02.2", r2_phases)

    # ---------------------------------------------------------------- R02.3 polarity and first match
    ctx.rule("R02.3", "a transition becomes a candidate exactly under events.is_empty() (selectEventlessTransitions) resp. "
                      "!events.is_empty() && nameMatch(event.name) (selectTransitions); enabledTransitions.add(ct) is reached exactly "
                      "under conditionMatch(ct) and is followed by leaving the candidate loop of this atomic state (first match wins)")

    def events_empty_atom(a, pol, tv):
        """True: asserts `t.events` empty, False: asserts non-empty, None: not about t.events."""
        def is_events(e):
            f = hirq.field_of(e, NO_T)
            return bool(f) and f[1] == "events" and local_of(f[0]) == tv
        if a.get("k") == "mcall" and a["m"] == "is_empty" and is_events(a["r"]):
            return pol
        if a.get("k") == "bin" and a["op"] in ("Eq", "Ne", "Gt"):
            l = peel(a["l"], NO_T)
            if l.get("k") == "mcall" and l["m"] in ("len", "size") and is_events(l["r"]) and const_eval(peel(a["r"], NO_T)) == 0:
                empty = a["op"] == "Eq"
                return empty if pol else (not empty)
        return None

    def r3():
        for name in ("selectEventlessTransitions", "selectTransitions"):
            d = sel.get(name)
            if d is None:
                ctx.ob("R02.3", "%s|shape" % name, False, "", "selector shape not recognised (see R02.2)", kind="anchor")
                continue
            fn, add, ct_loop, atom_loop = d["fn"], d["add"], d["ct_loop"], d["atom_loop"]
            ev_idx = [i for i, p in enumerate(fn.params) if p.get("n") == "event"]
            for i, (p, t_loop) in enumerate(d.get("t_loops", [])):
                tv = t_loop["pat"].get("b")
                kinds = []
                for a, pol in hirq.guard_atoms(fn, p):
                    if pol is None:
                        kinds.append("match-arm")
                        continue
                    if not any(x is atom_loop for x in fn.ancestors(a)):
                        continue  # conditions outside the per-state search do not select transitions
                    e = events_empty_atom(a, pol, tv)
                    if e is not None:
                        kinds.append("eventless" if e else "has-event")
                        continue
                    if a.get("k") == "mcall" and is_call(a, "fsm::Transition::nameMatch") and local_of(a["r"]) == tv:
                        root, fields = hirq.field_chain(a["a"][0])
                        from_event = bool(ev_idx) and param_index(fn, root) == ev_idx[0] and fields == ["name"]
                        kinds.append("name-matches" if (pol and from_event) else "name-other")
                        continue
                    kinds.append("other:" + describe(a))
                want = ["eventless"] if name == "selectEventlessTransitions" else ["has-event", "name-matches"]
                ok = sorted(kinds) == sorted(want)
                ctx.ob("R02.3", site_key(fn, "candidate condition", i), ok, line_of(p),
                       "candidate pushed under %s (required exactly %s)" % (sorted(kinds), sorted(want)))
            ctx.floor("R02.3", "candidate sites in " + name, len(d.get("t_loops", [])), 1)
            # the add
            kinds = []
            for a, pol in hirq.guard_atoms(fn, add):
                if pol is None:
                    kinds.append("match-arm")
                    continue
                if not any(x is ct_loop for x in fn.ancestors(a)):
                    continue
                if is_call(a, ALG + "conditionMatch") and local_of(a["a"][1]) == ct_loop["pat"].get("b"):
                    kinds.append("cond" if pol else "not-cond")
                else:
                    kinds.append("other:" + describe(a))
            ctx.ob("R02.3", site_key(fn, "add under conditionMatch(candidate)"), kinds == ["cond"], line_of(add),
                   "enabledTransitions.add guarded by %s (required exactly conditionMatch(candidate))" % kinds)
            ok = leaves_loop_after(fn, add, ct_loop)
            ctx.ob("R02.3", site_key(fn, "first enabled candidate ends the search of this state"), ok, line_of(add),
                   "enabledTransitions.add is %sfollowed by break out of the candidate loop" % ("" if ok else "NOT "))
    ctx.guard("R02.3", r3)

    # ---------------------------------------------------------------- R02.4 removeConflictingTransitions
    ctx.rule("R02.4", "removeConflictingTransitions: t1 ranges over enabledTransitions, t2 over the filtered set so far; the test is "
                      "computeExitSet([t1]).hasIntersection(computeExitSet([t2])); isDescendant true => transitionsToRemove.add(t2), "
                      "false => t1Preempted = true and leave the t2 loop; only when not preempted the removals are applied and t1 is "
                      "added; the filtered set is returned")

    def r4():
        fn = F.fn(ALG + "removeConflictingTransitions")
        tail = fn.hir.get("tail")
        res = local_of(tail, NO_T) if tail is not None else None
        rets = [n for n in fn.nodes("ret") if hirq.enclosing_closure(fn, n) is None]
        ctx.ob("R02.4", site_key(fn, "returns the filtered set"), res is not None and not rets, fn.where,
               "tail expression %s, %d early return(s)" % (describe(tail) if tail is not None else "none", len(rets)))
        his = fn.calls("OrderedSet::hasIntersection")
        ctx.exact("R02.4", "hasIntersection sites", len(his), 1)
        if len(his) != 1 or res is None:
            return
        hi = his[0]
        loops = hirq.enclosing_loops(fn, hi)
        ok = len(loops) == 2 and all(l.get("k") == "for" for l in loops)
        ctx.ob("R02.4", site_key(fn, "conflict test inside the t1/t2 loops"), ok, line_of(hi), "%d enclosing loop(s)" % len(loops))
        if not ok:
            return
        inner, outer = loops
        v1, v2 = outer["pat"].get("b"), inner["pat"].get("b")
        obase, ochain = method_chain(fn, outer["iter"])
        ibase, ichain = method_chain(fn, inner["iter"])
        o_ok = param_index(fn, obase) == 2 and not sorts_in(fn, ochain)
        i_ok = local_of(ibase, NO_T) == res and not sorts_in(fn, ichain)
        ctx.ob("R02.4", site_key(fn, "t1 over enabledTransitions, t2 over filteredTransitions"), o_ok and i_ok, line_of(outer),
               "outer iterates the parameter (in its order): %s; inner iterates the result set so far: %s" % (o_ok, i_ok))

        def exit_set_of(e):
            c = expr_of(fn, e)
            if not is_call(c, ALG + "computeExitSet"):
                return None
            l = expr_of(fn, c["a"][1])
            if not is_call(l, "fsm::List::from_array"):
                return None
            arr = peel(l["a"][0], NO_T)
            if arr.get("k") != "array" or len(arr["a"]) != 1:
                return None
            return local_of(arr["a"][0])
        sides = {exit_set_of(hi["r"]), exit_set_of(hi["a"][0])}
        ctx.ob("R02.4", site_key(fn, "intersection of computeExitSet([t1]) and computeExitSet([t2])"), sides == {v1, v2}, line_of(hi),
               "operands are the exit sets of the singleton lists of the outer and the inner loop variable: %s" % (sides == {v1, v2}))
        # the if on hasIntersection, and below it the if on isDescendant
        iff = [x for x in fn.ancestors(hi) if x.get("k") == "if" and peel(x["c"], NO_T) is hi]
        isd = fn.calls(ALG + "isDescendant")
        ctx.exact("R02.4", "isDescendant sites", len(isd), 1)
        ok = False
        detail = "no `if hasIntersection { if isDescendant {..} else {..} }` structure"
        pre = None
        rem = None
        if iff and len(isd) == 1 and "e" not in iff[0]:
            dif = [x for x in fn.ancestors(isd[0]) if x.get("k") == "if" and peel(x["c"], NO_T) is isd[0]]
            inside = dif and any(x is iff[0]["t"] for x in fn.ancestors(dif[0]))
            if inside and "e" in dif[0]:
                then_calls = [c for c in fn.calls(root=dif[0]["t"]) if not is_trace_node(c)]
                then_ok = len(then_calls) == 1 and is_call(then_calls[0], "OrderedSet::add") and local_of(then_calls[0]["a"][0]) == v2 and \
                    not [x for x in fn.walk(dif[0]["t"]) if x.get("k") in ("assign", "break", "continue", "ret")]
                if then_ok:
                    rem = local_of(then_calls[0]["r"], NO_T)
                asg = [x for x in fn.walk(dif[0]["e"]) if x.get("k") == "assign"]
                else_calls = [c for c in fn.calls(root=dif[0]["e"]) if not is_trace_node(c)]
                else_ok = len(asg) == 1 and const_eval(peel(asg[0]["r"], NO_T)) is True and local_of(asg[0]["l"], NO_T) is not None and \
                    not else_calls and leaves_loop_after(fn, asg[0], inner)
                if else_ok:
                    pre = local_of(asg[0]["l"], NO_T)
                ok = then_ok and else_ok
                detail = "descendant branch adds t2 to the removal set: %s; other branch sets the pre-empted flag and leaves the t2 loop: %s" % (then_ok, else_ok)
        ctx.ob("R02.4", site_key(fn, "pre-emption branches"), ok, line_of(isd[0]) if isd else fn.where, detail)
        if not ok:
            return
        # flag and removal set are per t1
        plet, rlet = let_of(fn, pre), let_of(fn, rem)
        fresh = plet is not None and rlet is not None and hirq.enclosing_loops(fn, plet) == [outer] and hirq.enclosing_loops(fn, rlet) == [outer] and \
            const_eval(peel(plet["init"], NO_T)) is False and is_call(peel(rlet["init"], NO_T), "fsm::OrderedSet::new") and \
            len(fn.assignments_to(pre)) == 1 and [r for r, n in local_uses(fn, rem) if r in ("other", "assign")] == []
        ctx.ob("R02.4", site_key(fn, "flag and removal set are fresh per t1"), fresh, line_of(outer),
               "t1Preempted starts false and transitionsToRemove empty inside the t1 loop, flag assigned once: %s" % fresh)
        # application
        adds = [c for c in fn.calls("OrderedSet::add") if local_of(c["r"], NO_T) == res]
        dels = [c for c in fn.calls("OrderedSet::delete") if local_of(c["r"], NO_T) == res]
        ctx.exact("R02.4", "filteredTransitions.add sites", len(adds), 1)
        ctx.exact("R02.4", "filteredTransitions.delete sites", len(dels), 1)
        other_mut = [n for r, n in local_uses(fn, res) if (r == "recv" and n["m"] not in ("add", "delete", "toList", "iterator", "clone", "size", "isEmpty")) or r in ("assign",)]

        def under_not_preempted(n):
            ats = [(a, pol) for a, pol in hirq.guard_atoms(fn, n) if any(x is outer for x in fn.ancestors(a))]
            return len(ats) == 1 and ats[0][1] is False and local_of(ats[0][0], NO_T) == pre

        for c in adds:
            ok = under_not_preempted(c) and local_of(c["a"][0]) == v1 and hirq.enclosing_loops(fn, c) == [outer]
            ctx.ob("R02.4", site_key(fn, "t1 added iff not pre-empted"), ok and not other_mut, line_of(c),
                   "filteredTransitions.add(%s) under exactly !t1Preempted, after the t2 loop: %s; other mutations of the result: %d" % (
                       describe(c["a"][0]), ok, len(other_mut)))
        for c in dels:
            lp = hirq.loop_var_of(fn, c["a"][0])
            from_rem = lp is not None and local_of(method_chain(fn, lp["iter"])[0], NO_T) == rem
            ok = under_not_preempted(c) and from_rem and hirq.enclosing_loops(fn, c)[1:] == [outer]
            idx = hirq.order_index(fn)
            order_ok = bool(adds) and idx[id(c)] < idx[id(adds[0])]
            ctx.ob("R02.4", site_key(fn, "removals applied iff not pre-empted"), ok and order_ok, line_of(c),
                   "filteredTransitions.delete(element of transitionsToRemove) under exactly !t1Preempted: %s" % ok)
    ctx.guard("R02.4", r4)

    # ---------------------------------------------------------------- R02.5 microstep phases
    ctx.rule("R02.5", "microstep calls exitStates, executeTransitionContent, enterStates exactly once each, in this order, on every "
                      "path to its return, each with its own enabledTransitions parameter")

    def r5():
        fn = F.fn(ALG + "microstep")
        if not F.has_fn(ALG + "executeTransitionContent"):
            # the three-line procedure was inlined: its loop `for t in enabledTransitions: executeContent(t)` stands between the two calls
            loops = []
            for lp in fn.nodes("for"):
                base, chain = method_chain(fn, lp["iter"])
                if param_index(fn, base) == 2 and all(m in ("iterator", "iter") for m, _ in chain) and fn.calls(ALG + "executeContent", root=lp["body"]):
                    loops.append(lp)
            ctx.exact("R02.5", "inlined executeTransitionContent loops in microstep", len(loops), 1)
            ex_c, en_c = fn.calls(ALG + "exitStates"), fn.calls(ALG + "enterStates")
            ctx.exact("R02.5", "exitStates call sites in microstep", len(ex_c), 1)
            ctx.exact("R02.5", "enterStates call sites in microstep", len(en_c), 1)
            if len(loops) != 1 or len(ex_c) != 1 or len(en_c) != 1:
                return
            idx5 = hirq.order_index(fn)
            lp = loops[0]
            same_path = all(not hirq.enclosing_loops(fn, x) and not hirq.guards(fn, x) for x in (ex_c[0], lp, en_c[0]))
            order = idx5[id(ex_c[0])] < idx5[id(lp)] < idx5[id(en_c[0])]
            lv = lp["pat"].get("b")
            content_ok = True
            for c in fn.calls(ALG + "executeContent", root=lp["body"]):
                f = hirq.field_of(hirq.resolve(fn, c["a"][1]), NO_T)
                src = expr_of(fn, f[0]) if f else None
                content_ok = content_ok and bool(f) and f[1] == "content" and is_call(src, ALG + "get_transition_by_id") and local_of(src["a"][0]) == lv
            ctx.ob("R02.5", site_key(fn, "exit, then transition content, then entry"), same_path and order and content_ok, line_of(lp),
                   "unconditional and outside loops: %s; exitStates < content loop < enterStates: %s; runs the content of each enabled transition: %s" % (
                       same_path, order, content_ok))
            for nm, cs in (("exitStates", ex_c), ("enterStates", en_c)):
                ok = param_index(fn, cs[0]["a"][1]) == 2
                ctx.ob("R02.5", site_key(fn, nm + " gets enabledTransitions"), ok, line_of(cs[0]), "argument %s" % describe(cs[0]["a"][1]))
            return
        names = ("exitStates", "executeTransitionContent", "enterStates")
        blocks = []
        for nm in names:
            cs = fn.mir_calls(ALG + nm)
            ctx.exact("R02.5", "%s call sites in microstep" % nm, len(cs), 1)
            if len(cs) != 1:
                return
            blocks.append(cs[0][0])
        cfg = fn.cfg
        for nm, b in zip(names, blocks):
            ok = cfg.every_path_to_return_passes([b]) and not cfg.in_cycle(b)
            ctx.ob("R02.5", site_key(fn, nm + " on every path, once"), ok, fn.where,
                   "every path to the return passes the call: %s; call inside a cycle: %s" % (cfg.every_path_to_return_passes([b]), cfg.in_cycle(b)))
        ok = cfg.dominates(blocks[0], blocks[1]) and cfg.dominates(blocks[1], blocks[2]) and blocks[0] != blocks[1] != blocks[2]
        ctx.ob("R02.5", site_key(fn, "exit, then transition content, then entry"), ok, fn.where,
               "exitStates dominates executeTransitionContent dominates enterStates: %s" % ok)
        for nm in names:
            for c in fn.calls(ALG + nm):
                ok = param_index(fn, c["a"][1]) == 2
                ctx.ob("R02.5", site_key(fn, nm + " gets enabledTransitions"), ok, line_of(c), "argument %s" % describe(c["a"][1]))
    ctx.guard("R02.5", r5)

    # ---------------------------------------------------------------- R02.6 determinism
    ctx.rule("R02.6", "in the functions reachable from Fsm::interpret (datamodel implementations and tracing excluded) there is no "
                      "iteration in hash order (HashMap/HashSet iter/keys/values/drain/into_iter/retain) except the audited "
                      "order-insensitive sites, and a clock / random / thread-id read only when its value reaches nothing but tracing; "
                      "positive control: the same query finds the hash iterations outside the region")

    def r6():
        cg = F.callgraph
        root = F.fn(ALG + "interpret").path
        seen = cg.reachable([root], stop=outside_region)
        ctx.floor("R02.6", "functions in the determinism region", len(seen), 150 if ctx.config == "default" else 80)
        for must in ("selectTransitions", "selectEventlessTransitions", "removeConflictingTransitions", "exitStates", "enterStates",
                     "computeEntrySet", "computeExitSet", "executeContent", "invoke"):
            p = F.fn(ALG + must).path
            ctx.ob("R02.6", "region|" + must, p in seen, "", "%s is %sin the region" % (p, "" if p in seen else "NOT "), kind="floor")
        # closures run where their parent runs unless they are only handed to a thread / timer
        async_only = set()
        sync = set()
        for es in cg.edges.values():
            for e in es:
                if e["kind"] == "closure":
                    (async_only if e["async"] else sync).add(e["callee"])
        async_only -= sync

        def in_region(fn):
            if fn.path in seen:
                return True
            return fn.kind == "Closure" and fn.parent_path in seen and fn.path not in async_only and not outside_region(fn.path)
        inside, outside = [], []
        for fn in F.fn_list:
            for bi, t in hash_iteration_sites(fn):
                (inside if in_region(fn) else outside).append((fn, bi, t))
        per_fn = {}
        import inline
        for fn, bi, t in inside:
            owner = inline.owner_of(F, fn.path)   # a site moved into a new private helper is still its caller's audited site
            k = per_fn[owner] = per_fn.get(owner, 0) + 1
            aud = AUDITED_HASH_ITER.get(owner)
            aty = (t.get("argtys") or [""])[0]
            ok = aud is not None and k == 1 and aud[0] in aty
            why = ("audited: " + aud[1]) if ok else "iteration over %s in hash order; call chain: %s" % (aty, " -> ".join(cg.witness(seen, owner)[-3:]))
            ctx.ob("R02.6", "%s|hash-order iteration|%d" % (owner, k), ok, "%s:%d" % (t["s"][6], t["s"][3]), why)
        ctx.extra["hash_iterations_in_region"] = len(inside)
        ctx.extra["hash_iterations_outside_region"] = len(outside)
        # positive control
        ctx.floor("R02.6", "hash iterations found outside the region (positive control)", len(outside), 10 if ctx.config == "default" else 4)
        out_owners = {fn.path for fn, _, _ in outside}
        for ctl in ("event_io_processor::ExternalQueueContainer::shutdown", "actions::ActionWrapper::get_map_copy", "fsm::display_transition_map"):
            ctx.ob("R02.6", "control|" + ctl, ctl in out_owners, "", "positive control: hash iteration in %s %s" % (ctl, "found" if ctl in out_owners else "NOT found"), kind="floor")

        # clock / random / thread id
        n_reads = 0
        for p in sorted(seen):
            fn = F.fns.get(p)
            if fn is None:
                continue
            reads = [(bi, t) for bi, t in fn.mir_calls() if NONDET_READ.search(t["f"]) or NONDET_READ.search(t.get("raw", ""))]
            if not reads:
                continue
            host = fn if fn.hir is not None else F.fns.get(fn.parent_path)
            for k, (bi, t) in enumerate(reads):
                n_reads += 1
                ok, why = read_reaches_only_tracing(host, t)
                ctx.ob("R02.6", site_key(fn, "clock/random/thread-id read", k), ok, "%s:%d" % (t["s"][6], t["s"][3]),
                       "%s: %s" % (t["f"], why))
        ctx.extra["nondeterministic_reads_in_region"] = n_reads
        # positive control for the read query: the pattern recognises the std clock
        ctl = any(NONDET_READ.search(t["f"]) for fn in F.fn_list for _, t in fn.mir_calls("SystemTime::now"))
        ctx.ob("R02.6", "control|clock-read query", ctl, "", "positive control: the query recognises SystemTime::now call sites: %s" % ctl, kind="floor")

    def read_reaches_only_tracing(fn, t):
        """The HIR call with the MIR call's span is (part of) the initialiser of a `let x`, and x is mentioned only inside trace macros."""
        if fn is None or fn.hir is None:
            return False, "no HIR to follow the value"
        key = tuple(t["s"][:3])
        node = [n for n in fn.walk() if n.get("k") in ("call", "mcall") and tuple(n["s"][:3]) == key]
        if not node:
            return False, "call not found in HIR"
        n = node[0]
        if is_trace_node(n) or any(is_trace_node(a) for a in fn.ancestors(n) if a.get("k") in ("call", "mcall", "block")):
            return True, "inside a trace statement"
        let = None
        for a in fn.ancestors(n):
            k = a.get("k")
            if k == "let" and a["pat"].get("k") == "bind":
                let = a
                break
            if k in ("mcall", "call", "ref", "cast", "try"):
                continue
            break
        if let is None:
            return False, "value is used directly"
        b = let["pat"]["b"]
        uses = [(r, u) for r, u in local_uses(fn, b)]
        bad = [r for r, u in uses if r != "trace"]
        return (not bad), "value bound to `%s`, mentioned %d time(s), outside tracing: %d" % (let["pat"].get("n"), len(uses), len(bad))
    ctx.guard("R02.6", r6)
