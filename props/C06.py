"""C06 — history states restore exactly what was active when the parent was left.

Decided: structural necessary conditions on the three places that implement history
(exitStates records, addDescendantStatesToEnter / getEffectiveTargetStates dereference,
enterStates runs the default content): who writes the table, that recording precedes every
removal, the deep / shallow filters and their key, the provenance of every recursive call in
the history branch, and the order and source of the content run per entered state.
Not decided: equality of the restored and the recorded configuration over event histories.
"""
from common import *
import hirq
import bflow
from bflow import term, show, guard_terms, under, call_named, call_args, same_elements, mentions, mentions_where

ALG = "fsm::Fsm::"
CFG = ("global", "configuration")
HV = ("global", "historyValue")


def _owner(fn):
    return fn.path if fn.kind != "Closure" else fn.parent_path


def _is_cfg_elems(t):
    """t denotes the elements of the configuration (through element-preserving conversions)."""
    return same_elements(t) == CFG


def run(ctx):
    F = ctx.facts
    ctx.explanation = ("C06: single writer of GlobalData.historyValue, recording dominates every removal in exitStates, deep/shallow "
                       "filter predicates and the key they are stored under, provenance of the recursive calls of the history branch of "
                       "addDescendantStatesToEnter and getEffectiveTargetStates, order/source/guards of the content enterStates runs")
    ctx.assumptions += [
        "the W3C algorithm restores the recorded configuration when its history steps are implemented as written",
        "rustc's HIR/MIR and type resolution for the analysed configuration",
        "HashTable::put/put_move/put_all/has/get are the map operations their names say (checked once: R06.5 confines the backing map)",
    ]

    # ---------------------------------------------------------------- R06.5 who writes
    ctx.rule("R06.5", "GlobalData.historyValue is written only by Fsm::exitStates (put*) and cleared only by Fsm::interpret; "
                      "HashTable.data is touched only inside HashTable methods")

    def r5():
        allowed = {("fsm::Fsm::exitStates", "put_all"), ("fsm::Fsm::exitStates", "put"), ("fsm::Fsm::exitStates", "put_move"),
                   ("fsm::Fsm::interpret", "clear")}
        seen = set()
        for fn, n, kind, meth, par in mutations_of_field(F, "GlobalData", "historyValue"):
            key = (_owner(fn), meth)
            seen.add(key)
            ctx.ob("R06.5", "%s|historyValue.%s" % (key[0], meth or kind), key in allowed, line_of(n),
                   "%s mutates GlobalData.historyValue via %s" % (key[0], meth or kind))
        ctx.ob("R06.5", "present|exitStates records", any(o == "fsm::Fsm::exitStates" for o, _ in seen), "",
               "exitStates writes historyValue: %s" % sorted(seen))
        ctx.ob("R06.5", "present|interpret clears", ("fsm::Fsm::interpret", "clear") in seen, "", "interpret clears historyValue")
        uses = field_uses(F, "GlobalData", "historyValue")
        ctx.floor("R06.5", "uses of GlobalData.historyValue", len(uses), 6)
        n_data = 0
        for fn, n in field_uses(F, "HashTable", "data"):
            n_data += 1
            ok = "HashTable" in fn.self_ty
            if not ok:
                ctx.ob("R06.5", "%s|HashTable.data" % fn.path, False, line_of(n), "%s touches HashTable.data" % fn.path)
        ctx.floor("R06.5", "uses of HashTable.data", n_data, 6)
        ctx.ob("R06.5", "HashTable.data|confined", True, "", "%d uses, all inside HashTable methods" % n_data)
        # the interpret-time clear precedes the first enterStates
        it = F.fn(ALG + "interpret")
        clr = [par for fn, n, kind, meth, par in mutations_of_field(F, "GlobalData", "historyValue") if _owner(fn) == it.path and meth == "clear"]
        ent = it.calls(ALG + "enterStates")
        ctx.exact("R06.5", "enterStates calls in interpret", len(ent), 1)
        for c in clr:
            for e in ent:
                ctx.ob("R06.5", site_key(it, "clear before first entry"), dominates_hir(it, c, e), line_of(c),
                       "historyValue.clear() dominates the initial enterStates")
    ctx.guard("R06.5", r5)

    # ---------------------------------------------------------------- R06.1 / R06.2 recording in exitStates
    ctx.rule("R06.1", "in exitStates every write of historyValue (and every configuration read that feeds a recorded value) "
                      "dominates configuration.delete, the onexit executeContent and cancelInvoke, and is not reachable from them")
    ctx.rule("R06.2", "the value recorded for a history state h of an exited state s is configuration.filter(f) with "
                      "f = isAtomicState(s0) && isDescendant(s0, s) under h.history_type == Deep, else f = (s0.parent == s); the key is h's id; "
                      "s ranges over computeExitSet(enabledTransitions)")
    feeds = []  # configuration reads that feed recorded values (call nodes), filled by r2, used by r1

    def r2():
        ex = F.fn(ALG + "exitStates")
        # record sites: put / put_move on a table that reaches historyValue
        writes = [par for fn, n, kind, meth, par in mutations_of_field(F, "GlobalData", "historyValue") if _owner(fn) == ex.path]
        tables = set()
        direct = []
        for w in writes:
            if w.get("m") in ("put", "put_move"):
                direct.append(w)
            elif w.get("m") == "put_all":
                b = local_of(w["a"][0], NO_T)
                if b is not None:
                    tables.add(b)
        sites = list(direct)
        for b in sorted(tables):
            adds, outs, other = bflow.fills(ex, b)
            sites += [c for m, c, how in adds if m in ("put", "put_move")]
            ctx.ob("R06.2", site_key(ex, "history table filled only by put"), not outs and not other and all(m in ("put", "put_move") for m, c, h in adds),
                   ex.where, "fills: %s" % sorted(m for m, c, h in adds))
        ctx.floor("R06.2", "history record sites in exitStates", len(sites), 2)
        kinds = {}
        idx = hirq.order_index(ex)
        for i, c in enumerate(sorted(sites, key=lambda c: idx[id(c)])):
            key_t = term(ex, c["a"][0])
            # key: element of <state>.history
            ok_key = key_t[0] == "elem" and key_t[1][0] == "field" and key_t[1][1] == "history"
            owner_t = key_t[1][2] if ok_key else None
            ok_owner = ok_key and owner_t[0] == "elem" and call_named(same_elements(owner_t[1]), "computeExitSet") and \
                call_args(same_elements(owner_t[1]))[-1] == ("param", 2)
            # deep or shallow branch
            kind = None
            foreign = []   # conditions other than the deep/shallow test: every history child of every exited state is recorded
            for t, pol, raw in guard_terms(ex, c):
                is_ht = False
                if t[0] == "bin" and t[1] in ("Eq", "Ne") and pol is not None:
                    sides = [t[2], t[3]]
                    ht = [s for s in sides if s == ("field", "history_type", key_t)]
                    dv = [s for s in sides if s[0] == "def" and (s[1] or "").startswith("fsm::HistoryType::")]
                    is_ht = bool(ht and dv)
                elif t[0] == "arm" and t[2] == ("field", "history_type", key_t):
                    is_ht = True
                if not is_ht:
                    foreign.append((show(t), pol))
            for t, pol, raw in guard_terms(ex, c):
                if t[0] == "bin" and t[1] in ("Eq", "Ne") and pol is not None:
                    sides = [t[2], t[3]]
                    ht = [s for s in sides if s == ("field", "history_type", key_t)]
                    dv = [s for s in sides if s[0] == "def" and (s[1] or "").startswith("fsm::HistoryType::")]
                    if ht and dv:
                        which = dv[0][1].split("::")[-1]
                        positive = (t[1] == "Eq") == pol
                        if which == "Deep":
                            kind = "deep" if positive else "shallow"
                        elif which == "Shallow":
                            kind = "shallow" if positive else "deep"
                elif t[0] == "arm" and t[2] == ("field", "history_type", key_t):
                    kind = {"Deep": "deep", "Shallow": "shallow"}.get(t[1], kind)
            # value: configuration filtered by a closure
            val = c["a"][1]
            flt = _find_filter(ex, val)
            ok_val, why = False, "no filter_by over the configuration found in the recorded value"
            if flt is not None:
                base_t = term(ex, flt["r"])
                cl = peel(flt["a"][0], NO_T)
                if not _is_cfg_elems(base_t):
                    why = "filter base is %s, not the configuration" % show(base_t)
                elif cl.get("k") != "closure":
                    why = "filter predicate is not an inline closure"
                else:
                    p0 = ("cparam", cl.get("p"), 0)
                    ats = [(term(ex, a), pol) for a, pol in hirq.atoms(cl["body"], True)]
                    if kind == "deep":
                        want = {("atomic", True), ("desc", True)}
                        got = set()
                        for t, pol in ats:
                            if (call_named(t, "isAtomicState") or call_named(t, "isAtomicStateId")) and call_args(t) == (p0,):
                                got.add(("atomic", pol))
                            elif call_named(t, "isDescendant") and call_args(t) == (p0, owner_t):
                                got.add(("desc", pol))
                            else:
                                got.add(("other:" + show(t), pol))
                        ok_val = got == want
                        why = "deep predicate atoms: %s" % sorted(got)
                    elif kind == "shallow":
                        ok_val = len(ats) == 1 and ats[0][1] is True and ats[0][0][0] == "bin" and ats[0][0][1] == "Eq" and \
                            {ats[0][0][2], ats[0][0][3]} == {("field", "parent", p0), owner_t} and owner_t is not None
                        why = "shallow predicate: %s" % [(show(t), p) for t, p in ats]
                    else:
                        why = "site is not under a test of h.history_type"
                # the configuration read that feeds the value
                rd = _cfg_read_call(ex, flt)
                if rd is not None:
                    feeds.append(rd)
            kinds.setdefault(kind, 0)
            kinds[kind] += 1
            ctx.ob("R06.2", site_key(ex, "key is the history state's id", i), ok_key and ok_owner, line_of(c),
                   "key %s; owner ranges over computeExitSet(enabledTransitions): %s" % (show(key_t), bool(ok_owner)))
            ctx.ob("R06.2", site_key(ex, "%s filter" % (kind or "unclassified"), i), ok_val, line_of(c), why)
            ctx.ob("R06.2", site_key(ex, "recorded for every history child of every exited state", i), not foreign, line_of(c),
                   "conditions besides the deep/shallow test: %s" % (foreign or "none"))
        ctx.ob("R06.2", site_key(ex, "one deep and one shallow branch"), kinds.get("deep") == 1 and kinds.get("shallow") == 1, ex.where,
               "record sites by branch: %s" % sorted((str(k), v) for k, v in kinds.items()))
        ctx.floor("R06.2", "configuration reads feeding recorded values", len(feeds), 2)
    ctx.guard("R06.2", r2)

    def r1():
        ex = F.fn(ALG + "exitStates")
        writes = [par for fn, n, kind, meth, par in mutations_of_field(F, "GlobalData", "historyValue") if _owner(fn) == ex.path]
        ctx.floor("R06.1", "historyValue writes in exitStates", len(writes), 1)
        removals = [("configuration.delete", c) for c in ex.calls("OrderedSet::delete") if global_field_expr(c["r"], "configuration")]
        removals += [("onexit executeContent", c) for c in ex.calls(ALG + "executeContent")]
        removals += [("cancelInvoke", c) for c in ex.calls(ALG + "cancelInvoke")]
        ctx.floor("R06.1", "removal sites in exitStates", len(removals), 3)
        cfg = ex.cfg
        for wi, w in enumerate(writes):
            bw = bflow.call_blocks(ex, w)
            if not bw:
                raise AnchorMissing("historyValue write at %s has no MIR call block" % line_of(w))
            counts = {}
            for what, r in removals:
                j = counts.get(what, 0)
                counts[what] = j + 1
                br = bflow.call_blocks(ex, r)
                if not br:
                    raise AnchorMissing("%s at %s has no MIR call block" % (what, line_of(r)))
                dom = all(any(cfg.dominates(x, y) and x != y for x in bw) for y in br)
                back = any(x in cfg.reachable_from(y) for y in br for x in bw)
                ctx.ob("R06.1", site_key(ex, "recorded before %s #%d" % (what, j), wi), dom and not back, line_of(w),
                       "historyValue.%s dominates %s: %s; reachable again after it: %s" % (w.get("m"), what, dom, back))
        for fi, rd in enumerate(feeds):
            br_ = bflow.call_blocks(ex, rd)
            if not br_:
                raise AnchorMissing("configuration read at %s has no MIR call block" % line_of(rd))
            back = False
            for what, r in removals:
                for y in bflow.call_blocks(ex, r):
                    if any(x in cfg.reachable_from(y) for x in br_):
                        back = True
            ctx.ob("R06.1", site_key(ex, "recorded value read from the configuration before any removal", fi), not back, line_of(rd),
                   "configuration read feeding a history value reachable after a removal: %s" % back)
    ctx.guard("R06.1", r1)

    # ---------------------------------------------------------------- R06.3 dereferencing
    ctx.rule("R06.3", "history branch of addDescendantStatesToEnter: under isHistoryState(state) && historyValue.has(state) recurse "
                      "(addDescendantStatesToEnter, then addAncestorStatesToEnter up to state.parent) over historyValue.get(state); else "
                      "defaultHistoryContent[state.parent] = t.content and recurse over t.target, t the history state's transition; "
                      "getEffectiveTargetStates unions historyValue.get(s) resp. the effective targets of s's transition; "
                      "(vocabulary coverage of both procedures: R01.3)")

    def r3():
        fn = F.fn(ALG + "addDescendantStatesToEnter")
        sid = ("param", 2)
        hist = lambda t, p: call_named(t, "isHistoryState") and call_args(t) == (sid,) and p is True
        has_t = lambda t, p: t == ("m", "has", HV, sid) and p is True
        has_f = lambda t, p: t == ("m", "has", HV, sid) and p is False
        stored = ("elem", ("m", "get", HV, sid))
        ttrans = None
        desc = fn.calls(ALG + "addDescendantStatesToEnter")
        anc = fn.calls(ALG + "addAncestorStatesToEnter")
        got = {"desc-stored": [], "anc-stored": [], "desc-default": [], "anc-default": []}
        for c in desc + anc:
            if not under(fn, c, hist):
                continue
            isd = c in desc
            a = term(fn, c["a"][1])
            if under(fn, c, has_t):
                ok = a == stored
                if not isd:
                    ok = ok and term(fn, c["a"][2]) == ("field", "parent", sid)
                got["desc-stored" if isd else "anc-stored"].append((c, ok, show(a)))
            elif under(fn, c, has_f):
                # element of <transition of the history state>.target
                ok = a[0] == "elem" and a[1][0] == "field" and a[1][1] == "target" and _is_own_transition(a[1][2], sid)
                if not isd:
                    ok = ok and term(fn, c["a"][2]) == ("field", "parent", sid)
                got["desc-default" if isd else "anc-default"].append((c, ok, show(a)))
            else:
                ctx.ob("R06.3", site_key(fn, "recursion outside the has/else split"), False, line_of(c), "history-branch call not under historyValue.has(state)")
        for name, lst in sorted(got.items()):
            ctx.ob("R06.3", site_key(fn, "%s recursion present" % name), len(lst) == 1, fn.where, "%d site(s)" % len(lst))
            for c, ok, d in lst:
                ctx.ob("R06.3", site_key(fn, "%s recursion provenance" % name), ok, line_of(c), "state argument: %s" % d)
        # descendants before ancestors in each branch (the spec's order; ancestors completion reads statesToEnter)
        idx = hirq.order_index(fn)
        for br in ("stored", "default"):
            d, a = got["desc-" + br], got["anc-" + br]
            if len(d) == 1 and len(a) == 1:
                ctx.ob("R06.3", site_key(fn, "%s: descendants added before ancestors" % br), idx[id(d[0][0])] < idx[id(a[0][0])], line_of(d[0][0]),
                       "addDescendantStatesToEnter loop precedes addAncestorStatesToEnter loop")
                # two passes, not one: the descendants of *every* recorded state are added before the ancestors of *any* of them
                # (ancestor completion default-enters sibling regions that a later recorded state would have filled)
                la = [l for l in hirq.enclosing_loops(fn, a[0][0]) if l.get("k") == "for"]
                ld = [l for l in hirq.enclosing_loops(fn, d[0][0]) if l.get("k") == "for"]
                separate = bool(la) and bool(ld) and la[0] is not ld[0]
                ctx.ob("R06.3", site_key(fn, "%s: separate passes for descendants and ancestors" % br), separate, line_of(a[0][0]),
                       "the addAncestorStatesToEnter loop %s the addDescendantStatesToEnter loop" % ("is a different loop from" if separate else "IS"))
        # default history content
        dhc = fn.params[5]["b"] if len(fn.params) > 5 else None
        puts = [c for c in fn.calls("HashTable::put") + fn.calls("HashTable::put_move") if local_of(c["r"], NO_T) == dhc]
        ctx.exact("R06.3", "defaultHistoryContent writes in addDescendantStatesToEnter", len(puts), 1)
        for c in puts:
            k, v = term(fn, c["a"][0]), term(fn, c["a"][1])
            ok = k == ("field", "parent", sid) and v[0] == "field" and v[1] == "content" and _is_own_transition(v[2], sid)
            okg = under(fn, c, hist) and under(fn, c, has_f)
            ctx.ob("R06.3", site_key(fn, "defaultHistoryContent[state.parent] = transition.content"), ok, line_of(c), "key %s value %s" % (show(k), show(v)))
            ctx.ob("R06.3", site_key(fn, "default content stored only when nothing is recorded"), okg, line_of(c),
                   "guards: %s" % [(show(t), p) for t, p, _ in guard_terms(fn, c)])
        other = [par for f2, n, kind, meth, par in _param_mutations(fn, dhc)]
        ctx.ob("R06.3", site_key(fn, "defaultHistoryContent written nowhere else here"), len(other) == len(puts), fn.where,
               "%d mutating use(s) of the table parameter" % len(other))

        # getEffectiveTargetStates
        ge = F.fn(ALG + "getEffectiveTargetStates")
        uni = ge.calls("OrderedSet::union")
        adds = ge.calls("OrderedSet::add")
        ctx.exact("R06.3", "union sites in getEffectiveTargetStates", len(uni), 2)
        ctx.exact("R06.3", "add sites in getEffectiveTargetStates", len(adds), 1)
        tgt = ("elem", ("field", "target", ("param", 2)))
        h2 = lambda pol: (lambda t, p: call_named(t, "isHistoryState") and call_args(t) == (tgt,) and p is pol)
        has2 = lambda pol: (lambda t, p: t == ("m", "has", HV, tgt) and p is pol)
        seen = set()
        for c in uni:
            a = term(ge, c["a"][0])
            if under(ge, c, h2(True)) and under(ge, c, has2(True)):
                ok = same_elements(a) == ("m", "get", HV, tgt)
                seen.add("stored")
                ctx.ob("R06.3", site_key(ge, "recorded value dereferenced"), ok, line_of(c), "union(%s)" % show(a))
            elif under(ge, c, h2(True)) and under(ge, c, has2(False)):
                ok = call_named(a, "getEffectiveTargetStates") and _is_own_transition(call_args(a)[-1], tgt)
                seen.add("default")
                ctx.ob("R06.3", site_key(ge, "default transition dereferenced"), ok, line_of(c), "union(%s)" % show(a))
            else:
                ctx.ob("R06.3", site_key(ge, "union outside the history branch"), False, line_of(c), "guards: %s" % [(show(t), p) for t, p, _ in guard_terms(ge, c)])
        ctx.ob("R06.3", site_key(ge, "both dereference branches present"), seen == {"stored", "default"}, ge.where, "branches: %s" % sorted(seen))
        for c in adds:
            ok = term(ge, c["a"][0]) == tgt and under(ge, c, h2(False))
            ctx.ob("R06.3", site_key(ge, "plain target added only when not a history state"), ok, line_of(c), "add(%s)" % show(term(ge, c["a"][0])))
        # the returned set is the one that was filled
        tail = ge.hir.get("tail")
        okr = tail is not None and local_of(tail, NO_T) is not None and all(local_of(c["r"], NO_T) == local_of(tail, NO_T) for c in uni + adds)
        ctx.ob("R06.3", site_key(ge, "returns the filled set"), okr, ge.where, "tail expression is the set receiving union/add")
    ctx.guard("R06.3", r3)

    # ---------------------------------------------------------------- R06.4 order of content in enterStates
    ctx.rule("R06.4", "enterStates runs per entered state s: s.onentry, then the initial transition's content iff statesForDefaultEntry.isMember(s), "
                      "then defaultHistoryContent[s] iff the table has s - in this order, nothing else, the two tables being the fresh locals "
                      "handed to computeEntrySet")

    def r4():
        en = F.fn(ALG + "enterStates")
        s_t = ("elem", ("out", "computeEntrySet", 2))
        execs = en.calls(ALG + "executeContent")
        ctx.floor("R06.4", "executeContent sites in enterStates", len(execs), 1)
        seq = []  # (class, node, guards ok, detail) in execution order
        idx = hirq.order_index(en)
        for c in execs:
            a = c["a"][1]
            lp = hirq.loop_var_of(en, a)
            items = []
            if lp is not None and local_of(lp["iter"]) is not None and en.bindings().get(local_of(lp["iter"]), {}).get("from") == "let" and \
                    bflow.is_empty_ctor(en.bindings()[local_of(lp["iter"])].get("init") or {"k": "?"}):
                b = local_of(lp["iter"])
                adds, outs, other = bflow.fills(en, b)
                okc = not outs and not other and all(m in ("push", "extend_from_slice", "extend") for m, _, _ in adds)
                ctx.ob("R06.4", site_key(en, "content list is append-only"), okc, line_of(lp), "fills: %s, other mutations: %d" % (sorted(m for m, _, _ in adds), len(other) + len(outs)))
                # appended in straight-line order: no fill inside a loop nested deeper than the list's own scope
                for m, f, how in sorted(adds, key=lambda x: idx[id(x[1])]):
                    inner = [l for l in hirq.enclosing_loops(en, f) if l not in hirq.enclosing_loops(en, lp)]
                    ctx.ob("R06.4", site_key(en, "content appended once per entered state", len(items)), not inner, line_of(f), "fill not in a nested loop")
                    t = term(en, f["a"][0])
                    items.append((f, t if how == "one" else bflow.elem_of(t), f))
                # the list is consumed after it is filled, in the same iteration
                ctx.ob("R06.4", site_key(en, "content list consumed after it is filled"), all(idx[id(f)] < idx[id(lp)] for f, _, _ in items), line_of(lp), "fills precede the loop that executes them")
                ctx.ob("R06.4", site_key(en, "content list is per entered state"), _same_loops(en, lp, en.bindings()[b]["node"]), line_of(lp), "list created inside the entry loop")
            else:
                items.append((c, term(en, a), c))
            for site, t, gnode in items:
                seq.append((site, t))
        classes = []
        for i, (site, t) in enumerate(seq):
            cls, ok, why = "other", False, show(t)
            if t == ("elem", ("field", "onentry", s_t)):
                cls, ok = "onentry", True
            elif t[0] == "field" and t[1] == "content" and call_named(t[2], "get_transition_by_id") and call_args(t[2]) == (("field", "initial", s_t),):
                cls = "initial"
                ok = under(en, site, lambda g, p: p is True and g[0] == "m" and g[1] == "isMember" and g[3] == s_t and
                           g[2] == ("coll", frozenset({("elem", ("out", "computeEntrySet", 3))})))
                why = "guards: %s" % [(show(g), p) for g, p, _ in guard_terms(en, site)]
            elif t[0] == "m" and t[1] == "get" and t[3] == s_t and t[2] == ("coll", frozenset({("elem", ("out", "computeEntrySet", 4))})):
                cls = "history-default"
                ok = under(en, site, lambda g, p: p is True and g == ("m", "has", t[2], s_t))
                # ... and under nothing else: the default content runs whenever this microstep used the history default
                # (the table is per microstep; no further condition such as "first entry" belongs here)
                extra = [(show(g), p) for g, p, _ in guard_terms(en, site) if not (p is True and g == ("m", "has", t[2], s_t))]
                ok = ok and not extra
                why = "guards: %s%s" % ([(show(g), p) for g, p, _ in guard_terms(en, site)], ("; unexpected extra condition(s): %s" % extra) if extra else "")
            classes.append(cls)
            ctx.ob("R06.4", site_key(en, "content #%d: %s" % (i, cls)), ok, line_of(site), why)
        ctx.ob("R06.4", site_key(en, "order onentry, initial, history-default"), classes == ["onentry", "initial", "history-default"], en.where,
               "content run per entered state, in order: %s" % classes)
        # the entered-state loop is the one that adds to the configuration
        adds = [c for c in en.calls("OrderedSet::add") if global_field_expr(c["r"], "configuration")]
        ok = bool(adds) and all(term(en, c["a"][0]) == s_t for c in adds) and \
            all(_same_loops(en, e, adds[0]) or _nested_in(en, e, adds[0]) for e in execs)
        ctx.ob("R06.4", site_key(en, "content runs inside the loop that enters s"), ok, en.where, "executeContent shares the entry loop with configuration.add(s)")
    ctx.guard("R06.4", r4)

    # ------------------------------------------------------------------------------ R06.5
    ctx.rule("R06.5", "historyValue is a W3C HashTable (`table[foo] = bar` REPLACES the value of foo): HashTable::put, put_move and put_all store "
                      "through HashMap::insert on self.data, unconditionally, key and value being the parameters (put_all: once per element of "
                      "the argument's data, in one for loop); no other operation touches self.data there - so the value recorded at the LAST "
                      "exit is the one restored")

    def r5():
        n_ins = 0
        for name in ("put", "put_move", "put_all"):
            fn = F.fn("fsm::HashTable::<K, T>::" + name) if F.has_fn("fsm::HashTable::<K, T>::" + name) else F.fn("fsm::HashTable::" + name)
            selfb = fn.params[0]["b"]

            def on_data(e):
                f = hirq.field_of(e, NO_T)
                return bool(f) and f[1] == "data" and local_of(f[0], NO_T) == selfb
            touching = [c for c in fn.walk() if c.get("k") == "mcall" and on_data(c["r"])]
            ins = [c for c in touching if c["m"] == "insert" and path_matches(c.get("p") or "", "HashMap::insert")]
            others = [c["m"] for c in touching if c not in ins]
            ok = len(ins) == 1 and not others
            detail = "operations on self.data: %s" % [c["m"] for c in touching]
            if ok:
                c = ins[0]
                n_ins += 1
                gts = guard_terms(fn, c)
                loops = hirq.enclosing_loops(fn, c)
                if name == "put_all":
                    lp_ok = len(loops) == 1 and loops[0].get("k") == "for"
                    src = hirq.field_of(loops[0]["iter"], NO_T) if lp_ok else None
                    lp_ok = lp_ok and bool(src) and src[1] == "data" and param_index(fn, src[0]) == 1
                    lv = [b for b, info in fn.bindings().items() if info.get("from") == "for" and info.get("node") is loops[0]] if lp_ok else []
                    a0, a1 = local_of(hirq.peel(c["a"][0])), local_of(hirq.peel(c["a"][1]))
                    args_ok = lp_ok and len(lv) == 2 and a0 in lv and a1 in lv and a0 != a1
                    ok = lp_ok and args_ok and not gts
                    detail += "; one `for` over t.data: %s; insert(key, value) of the loop element: %s; conditions: %s" % (lp_ok, args_ok, [(show(g), p) for g, p, _ in gts])
                else:
                    args_ok = param_index(fn, hirq.peel(c["a"][0])) == 1 and param_index(fn, hirq.peel(c["a"][1])) == 2
                    ok = args_ok and not gts and not loops
                    detail += "; insert(k, v) of the parameters: %s; conditions: %s" % (args_ok, [(show(g), p) for g, p, _ in gts])
            ctx.ob("R06.5", site_key(fn, "replaces the value through HashMap::insert, unconditionally"), ok, fn.where, detail)
        ctx.floor("R06.5", "HashMap::insert sites in HashTable::put*", n_ins, 3)
        ex = F.fn(ALG + "exitStates")
        pub = [c for c in ex.walk() if c.get("k") == "mcall" and c["m"] in ("put", "put_move", "put_all") and is_field_of(c["r"], "historyValue")]
        ctx.floor("R06.5", "historyValue.put* sites in exitStates", len(pub), 1)
    ctx.guard("R06.5", r5)


# ------------------------------------------------------------------------------------------ helpers

def _find_filter(fn, n, depth=8):
    """the filter_by call a value is computed from (through receivers, conversion helpers and single lets)."""
    while depth > 0:
        depth -= 1
        n = peel(n, NO_T)
        k = n.get("k")
        if k == "mcall":
            if n["m"] == "filter_by":
                return n
            if n["m"] in bflow.SAME_ELEMENTS or n["m"] in bflow.SAME_VALUE:
                # self.helper(x) converts its argument, x.helper() its receiver
                if local_of(n["r"], NO_T) == fn.params[0].get("b") and len(n["a"]) == 1:
                    n = n["a"][0]
                else:
                    n = n["r"]
                continue
            return None
        b = local_of(n, NO_T)
        if b is not None:
            d = hirq.single_def(fn, b)
            if d is None:
                return None
            n = d
            continue
        return None
    return None


def _cfg_read_call(fn, flt, depth=8):
    """the innermost call node (with MIR blocks) that takes the configuration as receiver / argument below a filter_by call."""
    n = flt["r"]
    while depth > 0:
        depth -= 1
        n = peel(n, NO_T)
        k = n.get("k")
        if k == "mcall":
            if global_field_expr(n["r"], "configuration") or any(global_field_expr(a, "configuration") for a in n["a"]):
                return n
            if local_of(n["r"], NO_T) == fn.params[0].get("b") and len(n["a"]) == 1:
                n = n["a"][0]
            else:
                n = n["r"]
            continue
        b = local_of(n, NO_T)
        if b is not None:
            d = hirq.single_def(fn, b)
            if d is None:
                return None
            n = d
            continue
        return None
    return None


def _is_own_transition(t, sid):
    """t = get_transition_by_id(<an element / the head of> sid.transitions)."""
    if not call_named(t, "get_transition_by_id"):
        return False
    a = call_args(t)[0]
    tr = ("field", "transitions", sid)
    return a == ("m", "head", tr) or a == ("elem", tr) or a == ("m", "first", tr)


def _param_mutations(fn, b):
    out = []
    for n in fn.walk():
        if n.get("k") == "mcall" and local_of(n["r"], NO_T) == b and n.get("rty", "").startswith("&mut") and n["m"] not in bflow.SAME_VALUE:
            out.append((fn, n, "mut-call", n["m"], n))
        if n.get("k") in ("assign", "assignop") and local_of(n["l"], NO_T) == b:
            out.append((fn, n, "assign", None, n))
    return out


def _same_loops(fn, a, b):
    la = [id(x) for x in hirq.enclosing_loops(fn, a)]
    lb = [id(x) for x in hirq.enclosing_loops(fn, b)]
    return la == lb


def _nested_in(fn, a, b):
    """a's enclosing loops extend b's."""
    la = [id(x) for x in hirq.enclosing_loops(fn, a)]
    lb = [id(x) for x in hirq.enclosing_loops(fn, b)]
    return len(la) >= len(lb) and la[len(la) - len(lb):] == lb
