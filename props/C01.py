"""C01 — the active configuration is always a legal SCXML configuration.

Decided: structural necessary conditions (who mutates the configuration, which values flow
into add/delete, argument roles of isDescendant, history never entered, set semantics).
Not decided: legality of reachable configurations per document (behaviour).
"""
from common import *
import hirq
import speccov

ALG = "fsm::Fsm::"


def run(ctx):
    F = ctx.facts
    ctx.explanation = ("C01: ownership of GlobalData.configuration, provenance of the values added/deleted, "
                       "argument roles of every isDescendant call in the entry/exit-set procedures, history "
                       "states excluded from the entry set, OrderedSet semantics, W3C vocabulary coverage of 8 procedures")
    ctx.assumptions += [
        "the W3C algorithm yields legal configurations for conformant documents (the Recommendation's own claim)",
        "rustc's HIR/MIR and type resolution for the analysed configuration",
    ]

    # ---------------------------------------------------------------- R01.1 who mutates
    ctx.rule("R01.1", "GlobalData.configuration is mutated only by Fsm::enterStates (add), Fsm::exitStates (delete) and "
                      "Fsm::exitInterpreter (delete); OrderedSet.data only inside OrderedSet/List methods")

    def r1():
        allowed = {("fsm::Fsm::enterStates", "add"), ("fsm::Fsm::exitStates", "delete"), ("fsm::Fsm::exitInterpreter", "delete")}
        muts = mutations_of_field(F, "GlobalData", "configuration")
        seen = set()
        for fn, n, kind, meth, par in muts:
            owner = fn.path if fn.kind != "Closure" else fn.parent_path
            key = (owner, meth)
            seen.add(key)
            ctx.ob("R01.1", "%s|configuration.%s" % (owner, meth or kind), key in allowed, line_of(n),
                   "%s mutates GlobalData.configuration via %s" % (owner, meth or kind))
        for a in sorted(allowed):
            ctx.ob("R01.1", "present|%s.%s" % a, a in seen, "", "expected mutation %s.%s %s" % (a[0], a[1], "found" if a in seen else "MISSING"))
        reads = [x for x in field_uses(F, "GlobalData", "configuration")]
        ctx.floor("R01.1", "uses of GlobalData.configuration", len(reads), 12)
        # the backing vector of OrderedSet
        for fn, n, kind, meth, par in mutations_of_field(F, "OrderedSet", "data"):
            ok = "OrderedSet" in fn.self_ty or "List" in fn.self_ty
            ctx.ob("R01.1", "%s|OrderedSet.data.%s" % (fn.path, meth or kind), ok, line_of(n),
                   "%s mutates OrderedSet.data (%s)" % (fn.path, meth or kind))
    ctx.guard("R01.1", r1)

    # ---------------------------------------------------------------- R01.2 provenance of add/delete
    ctx.rule("R01.2", "configuration.add(x): x is the loop variable over statesToEnter (the set filled by computeEntrySet) sorted by "
                      "state_entry_order; configuration.delete(x) in exitStates: x is the loop variable over "
                      "computeExitSet(enabledTransitions) sorted by state_exit_order")

    def r2():
        en = F.fn(ALG + "enterStates")
        adds = [c for c in en.calls("OrderedSet::add") if global_field_expr(c["r"], "configuration")]
        ctx.exact("R01.2", "configuration.add sites in enterStates", len(adds), 1)
        for c in adds:
            loop = hirq.loop_var_of(en, c["a"][0])
            ok = loop is not None
            detail = "argument %s is not a for-loop variable" % describe(c["a"][0])
            if ok:
                base, chain = method_chain(en, loop["iter"])
                names = [m for m, _ in chain]
                srt = [n for m, n in chain if m == "sort"]
                cmp_name, order = comparator_of(en, srt[0]) if srt else (None, None)
                bl = local_of(base, NO_T)
                # the same local must be handed to computeEntrySet as out-parameter #2 (statesToEnter)
                ces = en.calls(ALG + "computeEntrySet")
                passed = any(local_of(x["a"][2], NO_T) == bl for x in ces) if bl is not None else False
                ok = bool(srt) and is_entry_order(cmp_name, order) and passed and "iterator" in names
                detail = "iterates %s via %s; comparator %s%s; set passed to computeEntrySet arg#2: %s" % (
                    describe(base), ".".join(names), cmp_name, order, passed)
            ctx.ob("R01.2", site_key(en, "configuration.add"), ok, line_of(c), detail)

        ex = F.fn(ALG + "exitStates")
        dels = [c for c in ex.calls("OrderedSet::delete") if global_field_expr(c["r"], "configuration")]
        ctx.exact("R01.2", "configuration.delete sites in exitStates", len(dels), 1)
        for c in dels:
            loop = hirq.loop_var_of(ex, c["a"][0])
            ok = loop is not None
            detail = "argument %s is not a for-loop variable" % describe(c["a"][0])
            if ok:
                base, chain = method_chain(ex, loop["iter"])
                names = [m for m, _ in chain]
                srt = [n for m, n in chain if m == "sort"]
                cmp_name, order = comparator_of(ex, srt[0]) if srt else (None, None)
                # base must be computeExitSet(datamodel, <param enabledTransitions>)
                ces = [n for m, n in chain if m == "computeExitSet"]
                from_param = bool(ces) and param_index(ex, ces[0]["a"][1]) == 2
                ok = bool(srt) and cmp_name == "state_exit_order" and order == (0, 1) and from_param
                detail = "iterates %s via %s; comparator %s%s; computeExitSet(enabledTransitions): %s" % (
                    describe(base), ".".join(names), cmp_name, order, from_param)
            ctx.ob("R01.2", site_key(ex, "configuration.delete"), ok, line_of(c), detail)
    ctx.guard("R01.2", r2)

    # ---------------------------------------------------------------- R01.3 spec coverage + prose-only functions
    ctx.rule("R01.3", "every algorithm-vocabulary call of the W3C pseudo-code is made by the implementing procedure "
                      "(order-free; declared deviations in tables/spec_deviations.json); isDescendant / getProperAncestors "
                      "(prose-only in the spec) walk .parent from state1 and stop at 0 or state2")
    ctx.guard("R01.3", lambda: speccov.check(ctx, "R01.3", ["computeExitSet", "computeEntrySet", "addDescendantStatesToEnter",
                                                            "addAncestorStatesToEnter", "getTransitionDomain", "findLCCA",
                                                            "getEffectiveTargetStates", "isInFinalState"]))

    def r3b():
        for name in ("isDescendant", "getProperAncestors"):
            fn = F.fn(ALG + name)
            p1, p2 = fn.params[1]["b"], fn.params[2]["b"]
            whiles = fn.nodes("while")
            ctx.ob("R01.3", site_key(fn, "one parent walk"), len(whiles) == 1, fn.where, "%d while loop(s)" % len(whiles))
            if len(whiles) != 1:
                continue
            w = whiles[0]
            ats = hirq.atoms(w["cond"], True)
            # the walking variable: a local compared != 0 in the loop condition
            cur = None
            for a, pol in ats:
                if a.get("k") == "bin" and a["op"] == "Ne" and pol and const_eval(a["r"]) == 0:
                    cur = local_of(a["l"])
            stop2 = any(a.get("k") == "bin" and a["op"] == "Ne" and pol and local_of(a["l"]) == cur and local_of(a["r"]) == p2 for a, pol in ats)
            ctx.ob("R01.3", site_key(fn, "walk stops at 0 and at state2"), cur is not None and stop2, line_of(w),
                   "loop condition: %s" % describe(w["cond"]))
            if cur is None:
                continue

            def is_parent_of(e, who):
                # get_state_by_id(<who>).parent
                f = hirq.field_of(e, NO_T)
                if not f or f[1] != "parent":
                    return False
                c = peel(f[0], NO_T)
                return is_call(c, "Fsm::get_state_by_id") and local_of(c["a"][0]) == who

            init = fn.bindings()[cur].get("init")
            ctx.ob("R01.3", site_key(fn, "walk starts at state1.parent"), init is not None and is_parent_of(init, p1), line_of(w),
                   "initialiser: %s" % (describe(init) if init else "none"))
            steps = [a for a in fn.assignments_to(cur) if any(x is w for x in fn.ancestors(a))]
            ctx.ob("R01.3", site_key(fn, "walk steps to parent"), len(steps) == 1 and is_parent_of(steps[0]["r"], cur), line_of(w),
                   "step: %s" % (describe(steps[0]["r"]) if steps else "none"))
            if name == "isDescendant":
                # result is (cur == state2); false when an argument is 0 or both are equal
                eqs = [n for n in fn.walk() if n.get("k") == "bin" and n["op"] == "Eq" and {local_of(n["l"]), local_of(n["r"])} == {cur, p2}
                       and not any(x is w for x in fn.ancestors(n))]
                ctx.ob("R01.3", site_key(fn, "result is curr == state2"), len(eqs) == 1, fn.where, "%d comparison(s) curr == state2 after the walk" % len(eqs))
                g = hirq.guard_atoms(fn, w)
                conds = set()
                for a, pol in g:
                    if pol is False and a.get("k") == "bin" and a["op"] == "Eq":
                        l, r = local_of(a["l"]), local_of(a["r"])
                        if {l, r} == {p1, p2}:
                            conds.add("eq")
                        if l == p1 and const_eval(a["r"]) == 0:
                            conds.add("z1")
                        if l == p2 and const_eval(a["r"]) == 0:
                            conds.add("z2")
                ctx.ob("R01.3", site_key(fn, "false for 0 / identical states"), conds == {"eq", "z1", "z2"}, fn.where,
                       "walk guarded by not(%s)" % ",".join(sorted(conds)))
            else:
                adds = [c for c in fn.calls("OrderedSet::add", root=w) if local_of(c["a"][0]) == cur]
                ctx.ob("R01.3", site_key(fn, "collects the walked states"), len(adds) == 1, line_of(w), "%d add(curr) in the walk" % len(adds))
                if adds:
                    idx = hirq.order_index(fn)
                    ctx.ob("R01.3", site_key(fn, "collects before stepping"), bool(steps) and idx[id(adds[0])] < idx[id(steps[0])], line_of(adds[0]),
                           "add precedes the step to parent")
                g = hirq.guard_atoms(fn, w)
                ok = any(pol is False and is_call(a, "Fsm::isDescendant") and local_of(a["a"][0]) == p2 and local_of(a["a"][1]) == p1 for a, pol in g)
                ctx.ob("R01.3", site_key(fn, "guarded by !isDescendant(state2, state1)"), ok, fn.where, "guards: %s" % [describe(a) for a, _ in g])
    ctx.guard("R01.3", r3b)

    # ---------------------------------------------------------------- R01.4 argument roles of isDescendant
    ctx.rule("R01.4", "argument roles at every isDescendant call in the entry/exit-set procedures")

    def r4():
        def calls_of(fnname):
            fn = F.fn(ALG + fnname)
            return fn, fn.calls(ALG + "isDescendant")

        # computeExitSet: (element of configuration, getTransitionDomain(t))
        fn, cs = calls_of("computeExitSet")
        ctx.exact("R01.4", "isDescendant in computeExitSet", len(cs), 1)
        for c in cs:
            lp = hirq.loop_var_of(fn, c["a"][0])
            a0 = lp is not None and global_field_expr(method_chain(fn, lp["iter"], follow_lets=False)[0], "configuration")
            o1 = hirq.origin(fn, c["a"][1])
            a1 = o1.get("from") == "expr" and is_call(o1["expr"], ALG + "getTransitionDomain")
            ctx.ob("R01.4", site_key(fn, "isDescendant(config element, domain)"), a0 and a1, line_of(c),
                   "arg0 %s configuration element: %s; arg1 %s is getTransitionDomain(..): %s" % (describe(c["a"][0]), a0, describe(c["a"][1]), a1))
            # the guarded action is statesToExit.add(same element)
            par = [x for x in fn.ancestors(c) if x.get("k") == "if"]
            ok = False
            if par:
                adds = fn.calls("OrderedSet::add", root=par[0]["t"])
                ok = len(adds) == 1 and local_of(adds[0]["a"][0]) == local_of(c["a"][0]) and c is peel(par[0]["c"], NO_T)
            ctx.ob("R01.4", site_key(fn, "descendant of domain => statesToExit.add(element)"), ok, line_of(c), "then-branch adds the tested element")

        # parallel completion: (closure param of statesToEnter.some, loop var over getChildStates)
        for fname in ("addDescendantStatesToEnter", "addAncestorStatesToEnter"):
            fn, cs = calls_of(fname)
            ctx.exact("R01.4", "isDescendant in " + fname, len(cs), 1)
            for c in cs:
                cp = closure_param(fn, c["a"][0])
                a0 = False
                if cp:
                    call = hirq.enclosing_call_of_closure(fn, cp[0])
                    a0 = call is not None and call.get("m") == "some" and param_index(fn, call["r"]) is not None and \
                        fn.params[param_index(fn, call["r"])]["n"] == "statesToEnter"
                lp = hirq.loop_var_of(fn, c["a"][1])
                a1 = False
                if lp is not None:
                    base, chain = method_chain(fn, lp["iter"])
                    a1 = any(m == "getChildStates" for m, _ in chain)
                ctx.ob("R01.4", site_key(fn, "isDescendant(entered state, child region)"), a0 and a1, line_of(c),
                       "arg0 %s is the statesToEnter.some parameter: %s; arg1 %s iterates getChildStates: %s" % (
                           describe(c["a"][0]), a0, describe(c["a"][1]), a1))
                # polarity: the recursive add is under NOT some(...)
                recs = fn.calls(ALG + "addDescendantStatesToEnter", root=lp["body"]) if lp is not None else []
                okp = False
                for r in recs:
                    for a, pol in hirq.guard_atoms(fn, r):
                        if pol is False and a.get("k") == "mcall" and a["m"] == "some" and any(x is c for x in hirq.walk(a)):
                            okp = local_of(r["a"][1]) == local_of(c["a"][1])
                ctx.ob("R01.4", site_key(fn, "child entered iff no descendant already in statesToEnter"), okp, line_of(c),
                       "addDescendantStatesToEnter(child) guarded by !statesToEnter.some(isDescendant(s, child))")

        # findLCCA: (closure param of stateList.tail().every, candidate ancestor)
        fn, cs = calls_of("findLCCA")
        ctx.exact("R01.4", "isDescendant in findLCCA", len(cs), 1)
        for c in cs:
            cp = closure_param(fn, c["a"][0])
            a0 = False
            if cp:
                call = hirq.enclosing_call_of_closure(fn, cp[0])
                if call is not None and call.get("m") == "every":
                    base, chain = method_chain(fn, call["r"])
                    a0 = [m for m, _ in chain] == ["tail"] and param_index(fn, base) == 1
            src = hirq.element_source(fn, c["a"][1])   # `for anc in <src>` or `<src>.find(|anc| ..)`
            a1 = False
            if src is not None:
                base, chain = method_chain(fn, src)
                names = [m for m, _ in chain]
                gpa = [n for m, n in chain if m == "getProperAncestors"]
                flt = [n for m, n in chain if m == "filter_by"]
                a1 = bool(gpa) and bool(flt) and const_eval(gpa[0]["a"][1]) == 0 and \
                    any(is_call(x, ALG + "isCompoundStateOrScxmlElement") or is_call(x, ALG + "isCompoundState") for x in hirq.walk(flt[0]["a"][0]))
                # (which states the filter lets through - <scxml> root and compound states only - is decided by R01.10 on the closure itself)
                # head of the list is the start of the ancestor walk
                hb, hc = method_chain(fn, gpa[0]["a"][0]) if gpa else (None, [])
                a1 = a1 and [m for m, _ in hc] == ["head"] and param_index(fn, hb) == 1
            ctx.ob("R01.4", site_key(fn, "isDescendant(other state, candidate ancestor)"), a0 and a1, line_of(c),
                   "arg0 from stateList.tail().every: %s; arg1 iterates compound proper ancestors of stateList.head(): %s" % (a0, a1))

        # getTransitionDomain: (effective target, t.source)
        fn, cs = calls_of("getTransitionDomain")
        ctx.exact("R01.4", "isDescendant in getTransitionDomain", len(cs), 1)
        for c in cs:
            cp = closure_param(fn, c["a"][0])
            a0 = False
            if cp:
                call = hirq.enclosing_call_of_closure(fn, cp[0])
                if call is not None and call.get("m") == "every":
                    o = hirq.origin(fn, call["r"])
                    a0 = o.get("from") == "expr" and is_call(o["expr"], ALG + "getEffectiveTargetStates")
            a1 = is_field_of(c["a"][1], "source") and param_index(fn, hirq.field_of(c["a"][1], NO_T)[0]) == 2
            ctx.ob("R01.4", site_key(fn, "isDescendant(effective target, t.source)"), a0 and a1, line_of(c),
                   "arg0 from getEffectiveTargetStates(t).every: %s; arg1 is t.source: %s" % (a0, a1))
            # the internal-transition branch: domain = t.source under type==Internal && isCompoundState(t.source) && every(...)
            g = hirq.guard_atoms(fn, c)
            # c sits inside the condition itself; look at the `if` whose condition contains c
            iff = [x for x in fn.ancestors(c) if x.get("k") == "if" and any(y is c for y in hirq.walk(x["c"]))]
            ok = False
            if iff:
                ats = hirq.atoms(iff[0]["c"], True)
                has_int = any(a.get("k") == "bin" and a["op"] == "Eq" and pol and "TransitionType::Internal" in (hirq.def_path(a["r"]) or "") for a, pol in ats)
                has_cmp = any(pol and is_call(a, ALG + "isCompoundState") and is_field_of(a["a"][0], "source") for a, pol in ats)
                asg = [x for x in hirq.walk(iff[0]["t"]) if x.get("k") == "assign" and is_field_of(x["r"], "source")]
                # statement form (`domain = t.source;`) or expression form (`let domain = if .. { t.source } ..`)
                tb = peel(iff[0]["t"], NO_T)
                tail = peel(tb["tail"], NO_T) if tb.get("k") == "block" and "tail" in tb and not tb.get("st") else (tb if tb.get("k") != "block" else None)
                ok = has_int and has_cmp and (len(asg) == 1 or (tail is not None and is_field_of(tail, "source")))
            ctx.ob("R01.4", site_key(fn, "internal transition keeps the source as domain"), ok, line_of(c),
                   "domain = t.source iff type == Internal && isCompoundState(t.source) && all targets descend from source")

        # removeConflictingTransitions: (t1.source, t2.source)
        fn, cs = calls_of("removeConflictingTransitions")
        ctx.exact("R01.4", "isDescendant in removeConflictingTransitions", len(cs), 1)
        for c in cs:
            loops = hirq.enclosing_loops(fn, c)  # innermost first
            ok = False
            detail = "not inside two nested loops"
            if len(loops) >= 2:
                inner, outer = loops[0], loops[1]

                def tid_loop(e):
                    # e = X.source where X = get_transition_by_id(*loopvar)
                    f = hirq.field_of(e, NO_T)
                    if not f or f[1] != "source":
                        return None
                    o = hirq.origin(fn, f[0])
                    if o.get("from") == "expr" and is_call(o["expr"], "Fsm::get_transition_by_id"):
                        return hirq.loop_var_of(fn, o["expr"]["a"][0])
                    return None
                l0, l1 = tid_loop(c["a"][0]), tid_loop(c["a"][1])
                ok = l0 is outer and l1 is inner
                detail = "arg0 is the outer (t1) transition's source: %s; arg1 the inner (t2): %s" % (l0 is outer, l1 is inner)
            ctx.ob("R01.4", site_key(fn, "isDescendant(t1.source, t2.source)"), ok, line_of(c), detail)
    ctx.guard("R01.4", r4)

    # ---------------------------------------------------------------- R01.5 history never entered
    ctx.rule("R01.5", "addDescendantStatesToEnter adds sid to statesToEnter only when !isHistoryState(sid); "
                      "addAncestorStatesToEnter adds only elements of getProperAncestors(state, ancestor)")

    def r5():
        fn = F.fn(ALG + "addDescendantStatesToEnter")
        ste = [p["b"] for p in fn.params if p["n"] == "statesToEnter"]
        adds = [c for c in fn.calls("OrderedSet::add") if local_of(c["r"], NO_T) in ste]
        ctx.exact("R01.5", "statesToEnter.add in addDescendantStatesToEnter", len(adds), 1)
        for c in adds:
            g = hirq.guard_atoms(fn, c)
            ok = any(pol is False and is_call(a, ALG + "isHistoryState") and local_of(a["a"][0]) == local_of(c["a"][0]) for a, pol in g)
            ok = ok and param_index(fn, c["a"][0]) == 2
            ctx.ob("R01.5", site_key(fn, "statesToEnter.add(sid) under !isHistoryState(sid)"), ok, line_of(c),
                   "guards: %s" % [(describe(a), p) for a, p in g])
        fn = F.fn(ALG + "addAncestorStatesToEnter")
        ste = [p["b"] for p in fn.params if p["n"] == "statesToEnter"]
        adds = [c for c in fn.calls("OrderedSet::add") if local_of(c["r"], NO_T) in ste]
        ctx.exact("R01.5", "statesToEnter.add in addAncestorStatesToEnter", len(adds), 1)
        for c in adds:
            lp = hirq.loop_var_of(fn, c["a"][0])
            ok = False
            if lp is not None:
                base, chain = method_chain(fn, lp["iter"])
                gpa = [n for m, n in chain if m == "getProperAncestors"]
                ok = bool(gpa) and param_index(fn, gpa[0]["a"][0]) == 2 and param_index(fn, gpa[0]["a"][1]) == 3
            ctx.ob("R01.5", site_key(fn, "adds getProperAncestors(state, ancestor) elements"), ok, line_of(c),
                   "loop over getProperAncestors(state, ancestor): %s" % ok)
    ctx.guard("R01.5", r5)

    # ---------------------------------------------------------------- R01.9 two passes
    ctx.rule("R01.9", "in addDescendantStatesToEnter the descendants of every target state are added before the ancestors of any of them: "
                      "no loop contains both an addDescendantStatesToEnter and an addAncestorStatesToEnter call (ancestor completion default-enters "
                      "sibling regions which a later target would have filled: the W3C pseudo-code uses two loops at all three places)")

    def r9():
        fn = F.fn(ALG + "addDescendantStatesToEnter")
        anc = fn.calls(ALG + "addAncestorStatesToEnter")
        ctx.floor("R01.9", "addAncestorStatesToEnter calls in addDescendantStatesToEnter", len(anc), 3)
        for i, a in enumerate(anc):
            loops = [l for l in hirq.enclosing_loops(fn, a) if l.get("k") == "for"]
            mixed = bool(loops) and bool(fn.calls(ALG + "addDescendantStatesToEnter", root=loops[0]["body"]))
            ctx.ob("R01.9", site_key(fn, "ancestor pass is a loop of its own", i), bool(loops) and not mixed, line_of(a),
                   "the loop around this addAncestorStatesToEnter call %s" % ("also calls addDescendantStatesToEnter" if mixed else "contains no addDescendantStatesToEnter call"))
    ctx.guard("R01.9", r9)

    # ---------------------------------------------------------------- R01.6 reader: history is never a child state
    ctx.rule("R01.6", "State.states (children) is pushed only in the reader's get_or_create_state_with_attributes under parent != 0 "
                      "(and by the deserializer); start_history creates its state with parent 0 and registers it in State.history only")

    def r6():
        muts = mutations_of_field(F, "State", "states")
        allowed = {"scxml_reader::ReaderState::get_or_create_state_with_attributes", "serializer::fsm_reader::FsmReader::<'a, R>::read_state"}
        n_reader = 0
        for fn, n, kind, meth, par in muts:
            ok = any(path_matches(fn.path, a) or fn.path == a for a in allowed) or fn.path.endswith("::read_state")
            ctx.ob("R01.6", "%s|State.states.%s" % (fn.path, meth or kind), ok, line_of(n), "%s mutates State.states" % fn.path)
            if "get_or_create_state_with_attributes" in fn.path:
                n_reader += 1
                g = hirq.guard_atoms(fn, par)
                okg = any((pol is True and a.get("k") == "bin" and a["op"] == "Ne" and const_eval(a["r"]) == 0) or
                          (pol is True and a.get("k") == "bin" and a["op"] == "Gt" and const_eval(a["r"]) == 0) or
                          (pol is False and a.get("k") == "bin" and a["op"] == "Eq" and const_eval(a["r"]) == 0)
                          for a, pol in g if a is not None and isinstance(a, dict) and a.get("k") == "bin")
                ctx.ob("R01.6", site_key(fn, "children pushed under parent != 0", n_reader), okg, line_of(n),
                       "guards: %s" % [(describe(a), p) for a, p in g if isinstance(a, dict) and a.get("k")])
        ctx.floor("R01.6", "State.states push sites in the reader", n_reader, 1)
        sh = F.fn("scxml_reader::ReaderState::start_history")
        goc = sh.calls("get_or_create_state_with_attributes")
        ctx.exact("R01.6", "state creation in start_history", len(goc), 1)
        for c in goc:
            # signature: (&mut self, attr, parallel: bool, parent: StateId)
            callee_fn = F.fn("scxml_reader::ReaderState::get_or_create_state_with_attributes")
            pidx = [i for i, p in enumerate(callee_fn.params) if p.get("n") == "parent"]
            ok = bool(pidx) and const_eval(c["a"][pidx[0] - 1]) == 0
            ctx.ob("R01.6", site_key(sh, "history state created with parent 0"), ok, line_of(c),
                   "parent argument = %s" % (describe(c["a"][pidx[0] - 1]) if pidx else "?"))
        hist = [(fn, n, kind, meth) for fn, n, kind, meth, par in mutations_of_field(F, "State", "history")]
        ok = any(fn.path.endswith("start_history") for fn, *_ in hist)
        ctx.ob("R01.6", "start_history|State.history.push", ok, sh.where, "history registered in State.history by start_history")
    ctx.guard("R01.6", r6)

    # ---------------------------------------------------------------- R01.7 conflict filter on the return path
    ctx.rule("R01.7", "selectEventlessTransitions / selectTransitions return the value of removeConflictingTransitions applied to the collected set")

    def r7():
        for name in ("selectEventlessTransitions", "selectTransitions"):
            fn = F.fn(ALG + name)
            tail = fn.hir.get("tail")
            rets = [n["e"] for n in fn.nodes("ret") if "e" in n and hirq.enclosing_closure(fn, n) is None]
            outs = ([tail] if tail is not None else []) + rets
            ok = bool(outs)
            detail = []
            for o in outs:
                b = local_of(o, NO_T)
                good = False
                if b is not None:
                    asg = fn.assignments_to(b)
                    # the last assignment (in evaluation order) must be removeConflictingTransitions(dm, &same local)
                    idx = hirq.order_index(fn)
                    if asg:
                        last = max(asg, key=lambda a: idx[id(a)])
                        r = peel(last["r"], NO_T)
                        good = is_call(r, ALG + "removeConflictingTransitions") and local_of(r["a"][1], NO_T) == b \
                            and not hirq.enclosing_loops(fn, last) and not [g for g in hirq.guards(fn, last)]
                else:
                    r = peel(o, NO_T)
                    good = is_call(r, ALG + "removeConflictingTransitions")
                ok = ok and good
                detail.append("%s <- removeConflictingTransitions: %s" % (describe(o), good))
            ctx.ob("R01.7", site_key(fn, "returns removeConflictingTransitions(enabledTransitions)"), ok, fn.where, "; ".join(detail))
    ctx.guard("R01.7", r7)

    # ---------------------------------------------------------------- R01.8 set semantics
    ctx.rule("R01.8", "OrderedSet::add pushes only when the element is not contained; OrderedSet::delete removes by retain(x != e)")

    def r8():
        add = F.fn("fsm::OrderedSet::<T>::add")
        pushes = add.calls("Vec::<T, A>::push") + add.calls("Vec::<T, A>::insert")
        ctx.exact("R01.8", "push sites in OrderedSet::add", len(pushes), 1)
        for c in pushes:
            g = hirq.guard_atoms(add, c)
            ok = any(pol is False and a.get("k") == "mcall" and a["m"] in ("contains", "isMember") and local_of(a["a"][0]) == add.params[1]["b"]
                     for a, pol in g)
            ctx.ob("R01.8", site_key(add, "push under !contains(e)"), ok, line_of(c), "guards: %s" % [(describe(a), p) for a, p in g])
        de = F.fn("fsm::OrderedSet::<T>::delete")
        rets = de.calls("Vec::<T, A>::retain")
        ok = False
        if len(rets) == 1:
            cl = peel(rets[0]["a"][0], NO_T)
            if cl.get("k") == "closure":
                b = peel(cl["body"], NO_T)
                ok = b.get("k") == "bin" and b["op"] == "Ne" and {local_of(b["l"]), local_of(b["r"])} == {cl["params"][0].get("b"), de.params[1]["b"]}
        ctx.ob("R01.8", site_key(de, "retain(|x| x != e)"), ok, de.where, "delete keeps exactly the elements different from e")
    ctx.guard("R01.8", r8)

    # ---------------------------------------------------------------- R01.10 the state-kind predicates
    ctx.rule("R01.10", "the state-kind predicates the entry/exit-set procedures branch on (isSCXMLElement, isAtomicState[Id], isCompoundState, "
                       "isCompoundStateOrScxmlElement, isParallelState, isFinalState[Id], isHistoryState) have the truth table of the audited "
                       "tree over the six kinds of state (<scxml> root, compound, atomic, parallel, final, history): each body is evaluated "
                       "abstractly on one representative per kind, whatever its spelling")

    def r10():
        class Unknown(Exception):
            pass

        class Ret(Exception):
            def __init__(self, v):
                self.v = v
        ROOT = 1
        KINDS = {   # id -> (name, is_final, is_parallel, has no children, history_type is None)
            1: ("root", False, False, False, True), 2: ("compound", False, False, False, True), 3: ("atomic", False, False, True, True),
            4: ("parallel", False, True, False, True), 5: ("final", True, False, True, True), 6: ("history", False, False, True, False)}
        PREDS = ("isSCXMLElement", "isAtomicState", "isAtomicStateId", "isCompoundState", "isCompoundStateOrScxmlElement", "isParallelState",
                 "isFinalState", "isFinalStateId", "isHistoryState")
        EXPECT = {   # kind order: root, compound, atomic, parallel, final, history
            "isSCXMLElement": "TFFFFF", "isAtomicState": "FFTFTT", "isAtomicStateId": "FFTFTT", "isCompoundState": "TTFFFF",
            "isCompoundStateOrScxmlElement": "TTFFFF", "isParallelState": "FFFTFF", "isFinalState": "FFFFTF", "isFinalStateId": "FFFFTF",
            "isHistoryState": "FFFFFT"}

        def ev(fn, n, env, depth):
            k = n.get("k")
            if hirq.in_trace_macro(n) or "tracer::" in (n.get("p") or ""):
                return ("unit",)
            if k == "block":
                for s in n["st"]:
                    ev(fn, s, env, depth)
                return ev(fn, n["tail"], env, depth) if "tail" in n else ("unit",)
            if k == "let":
                if "init" in n and n["pat"].get("k") == "bind":
                    try:
                        env[n["pat"]["b"]] = ev(fn, n["init"], env, depth)
                    except Unknown:
                        env[n["pat"]["b"]] = ("unknown",)
                return ("unit",)
            if k in ("ref", "cast") or (k == "un" and n["op"] == "Deref"):
                return ev(fn, n["e"], env, depth)
            if k == "un" and n["op"] == "Not":
                v = ev(fn, n["e"], env, depth)
                if isinstance(v, bool):
                    return not v
                raise Unknown("! of a non-boolean")
            if k == "lit":
                v = const_eval(n)
                if v is None:
                    raise Unknown("literal")
                return v
            if k == "path":
                r = n["r"]
                if r.get("k") == "local":
                    v = env.get(r["b"], ("unknown",))
                    if v == ("unknown",):
                        raise Unknown("local " + r.get("n", "?"))
                    return v
                p = r.get("p", "")
                if "HistoryType::" in p:
                    return ("hist", p.split("::")[-1])
                raise Unknown("path " + p)
            if k == "field":
                b = ev(fn, n["e"], env, depth)
                if b == ("self",):
                    if n["n"] == "pseudo_root":
                        return ROOT
                    raise Unknown("self." + n["n"])
                if isinstance(b, tuple) and b[0] == "state":
                    _, fin, par, empty, hnone = KINDS[b[1]]
                    if n["n"] == "is_final":
                        return fin
                    if n["n"] == "is_parallel":
                        return par
                    if n["n"] == "states":
                        return ("children", empty)
                    if n["n"] == "history_type":
                        return ("hist", "None" if hnone else "Deep")
                    if n["n"] == "id":
                        return b[1]
                raise Unknown("field ." + n["n"])
            if k == "bin":
                op = n["op"]
                if op in ("And", "Or"):
                    l = ev(fn, n["l"], env, depth)
                    if not isinstance(l, bool):
                        raise Unknown("bool")
                    if (op == "And" and not l) or (op == "Or" and l):
                        return l
                    r = ev(fn, n["r"], env, depth)
                    if not isinstance(r, bool):
                        raise Unknown("bool")
                    return r
                l, r = ev(fn, n["l"], env, depth), ev(fn, n["r"], env, depth)
                if op in ("Eq", "Ne"):
                    return (l == r) == (op == "Eq")
                if isinstance(l, int) and isinstance(r, int) and not isinstance(l, bool) and op in ("Gt", "Lt", "Ge", "Le"):
                    return {"Gt": l > r, "Lt": l < r, "Ge": l >= r, "Le": l <= r}[op]
                raise Unknown("operator " + op)
            if k == "if":
                c = ev(fn, n["c"], env, depth)
                if not isinstance(c, bool):
                    raise Unknown("condition")
                if c:
                    return ev(fn, n["t"], env, depth)
                return ev(fn, n["e"], env, depth) if "e" in n else ("unit",)
            if k == "ret":
                raise Ret(ev(fn, n["e"], env, depth) if "e" in n else ("unit",))
            if k in ("call", "mcall"):
                p = n.get("p") or ""
                args = ([n["r"]] if k == "mcall" else []) + list(n["a"])
                name = p.split("::")[-1]
                if k == "mcall" and n["m"] == "is_empty" and not n["a"]:
                    v = ev(fn, n["r"], env, depth)
                    if isinstance(v, tuple) and v[0] == "children":
                        return v[1]
                    raise Unknown("is_empty of something else")
                if path_matches(p, ALG + "get_state_by_id"):
                    sid = ev(fn, args[1], env, depth)
                    if sid in KINDS:
                        return ("state", sid)
                    raise Unknown("get_state_by_id(%r)" % (sid,))
                if name in PREDS and p.startswith(ALG):
                    if depth <= 0:
                        raise Unknown("depth")
                    return run_pred(name, [ev(fn, a, env, depth) for a in args], depth - 1)
                if k == "mcall" and n["m"] in ("clone", "to_owned") and not n["a"]:
                    return ev(fn, n["r"], env, depth)
                raise Unknown("call " + (p or n.get("m", "?")))
            raise Unknown("node " + str(k))

        def run_pred(name, argv, depth=3):
            fn = F.fn(ALG + name)
            env = {}
            for pat, v in zip(fn.params, argv):
                if pat.get("k") == "bind":
                    env[pat["b"]] = v
            try:
                return ev(fn, fn.hir, env, depth)
            except Ret as r:
                return r.v

        # the candidate-ancestor filter of findLCCA (`filter_by(&|s| ..)`): root and compound states only, whether it calls the helper
        # isCompoundStateOrScxmlElement or spells the disjunction out
        lcca = F.fn(ALG + "findLCCA")
        filt = [c for c in lcca.walk() if c.get("k") == "mcall" and c["m"] == "filter_by" and c["a"]]
        ctx.exact("R01.10", "filter_by calls in findLCCA", len(filt), 1)
        for c in filt:
            clos = [x for x in hirq.walk(c["a"][0]) if x.get("k") == "closure"]
            got, why = "", ""
            if len(clos) == 1 and len(clos[0]["params"]) == 1 and clos[0]["params"][0].get("k") == "bind":
                for sid in sorted(KINDS):
                    try:
                        try:
                            v = ev(lcca, clos[0]["body"], {clos[0]["params"][0]["b"]: sid, lcca.params[0].get("b"): ("self",)}, 3)
                        except Ret as r:
                            v = r.v
                        got += "T" if v is True else ("F" if v is False else "?")
                    except Unknown as e:
                        got += "?"
                        why = str(e)
            ctx.ob("R01.10", site_key(lcca, "candidate ancestors are the root and compound states"), got == "TTFFFF", line_of(c),
                   "the filter closure gives %s over root/compound/atomic/parallel/final/history, expected TTFFFF%s" % (got or "nothing", ("; not evaluable: " + why) if "?" in got or not got else ""))

        for name in PREDS:
            if name == "isCompoundStateOrScxmlElement" and not F.has_fn(ALG + name):
                continue    # a private helper of findLCCA: inlined, its table is the filter closure's (above)
            fn = F.fn(ALG + name)
            takes_state = "State" in (fn.params[1].get("ty", "") if len(fn.params) > 1 else "") and "StateId" not in fn.params[1].get("ty", "")
            got = ""
            why = ""
            for sid in sorted(KINDS):
                try:
                    v = run_pred(name, [("self",), ("state", sid) if takes_state else sid])
                    got += "T" if v is True else ("F" if v is False else "?")
                except Unknown as e:
                    got += "?"
                    why = str(e)
            ctx.ob("R01.10", site_key(fn, "truth table over root/compound/atomic/parallel/final/history"), got == EXPECT[name], fn.where,
                   "%s gives %s, the audited tree %s%s" % (name, got, EXPECT[name], ("; not evaluable: " + why) if "?" in got else ""))
    ctx.guard("R01.10", r10)
