"""C04 — the XML reader mirrors the document (thin structural slice R04.1 – R04.5).

Decided: dispatch tables of start_element/end_element over the element constants and the pairing of
executable-content regions (R04.1), allowed-parent tables (R04.2), element names taken through
local_name() only (R04.3), raw document slices pass an unescape before they are stored (R04.4),
document-order ids taken once per declared state/transition in the start handlers and state ids =
index + 1 (R04.5).
Not decided: that nesting, kinds, content blocks, data, invoke, send, donedata mirror the document for
every document and rendering (document <-> model equivalence).
"""
from common import *
import hirq

MODP = "scxml_reader::"
RS = "scxml_reader::ReaderState::"

# W3C SCXML content model (parents of each element that is not executable content), by section; the
# reader's own tables are compared with it. Executable content is checked by sibling consistency instead.
W3C_PARENTS = {
    "state": {"scxml", "state", "parallel"},                       # 3.3
    "parallel": {"scxml", "state", "parallel"},                    # 3.4
    "transition": {"state", "parallel", "initial", "history"},     # 3.5 (+3.6, 3.10)
    "initial": {"state"},                                          # 3.6 (the reader also admits <parallel>: DECLARED_SUPERSET)
    "final": {"scxml", "state"},                                   # 3.7
    "onentry": {"state", "parallel", "final"},                     # 3.8
    "onexit": {"state", "parallel", "final"},                      # 3.9
    "history": {"state", "parallel"},                              # 3.10
    "datamodel": {"scxml", "state", "parallel"},                   # 5.2
    "data": {"datamodel"},                                         # 5.3
    "donedata": {"final"},                                         # 5.5
    "content": {"send", "invoke", "donedata"},                     # 5.6
    "param": {"send", "invoke", "donedata"},                       # 5.7
    "invoke": {"state", "parallel"},                               # 6.4
    "finalize": {"invoke"},                                        # 6.5
    "elseif": {"if"},                                              # 4.3
    "else": {"if"},                                                # 4.4
}
# 3.6: <initial> is a child of <state> only in the W3C text; the reader also admits <parallel>. Declared deviation (accepts more).
DECLARED_SUPERSET = {("initial", "parallel")}
# executable content that may raise events is not allowed in <finalize> (6.5: "MUST NOT raise events or invoke external actions")
NO_FINALIZE = {"raise", "send", "cancel"}
EXECUTABLE = {"if", "foreach", "log", "assign", "script", "raise", "send", "cancel"}


# ------------------------------------------------------------------------------------------------
# helpers
# ------------------------------------------------------------------------------------------------

def const_path(n):
    """def path of a const the (peeled) expression names, else None."""
    n = peel(n, NO_T)
    if n.get("k") == "path" and n["r"].get("k") == "def" and n["r"].get("dk", "").startswith("Const"):
        return n["r"]["p"]
    return None


def pat_const(p):
    if isinstance(p, dict) and p.get("k") == "ppath" and p["r"].get("dk", "").startswith("Const"):
        return p["r"]["p"]
    return None


def short(p):
    return p.split("::")[-1] if p else p


def reader_fns(F):
    return [f for f in F.fn_list if f.hir is not None and f.path.startswith(MODP)]


def attribute_keys(F):
    """Constants used as attribute keys: argument of AttributeMap::get, or the attribute argument of get_required_attr."""
    out = set()
    for fn in reader_fns(F):
        for c in fn.calls("HashMap::<K, V, S, A>::get"):
            if "HashMap<std::string::String, std::string::String>" in c.get("rty", "") and c["a"]:
                p = const_path(c["a"][0])
                if p:
                    out.add(p)
        for c in fn.calls(RS + "get_required_attr"):
            p = const_path(c["a"][1])
            if p:
                out.add(p)
    return out


def handler_calls(fn, body):
    """In-crate ReaderState method calls made by a dispatch arm body."""
    return [c for c in hirq.walk(body) if c.get("k") in ("call", "mcall") and (c.get("p") or "").startswith(RS)]


def dispatch(fn):
    """The match over element constants in start_element/end_element: (match node, {const path: [arm, handler calls]})."""
    best = None
    for m in fn.nodes("match"):
        arms = [(pat_const(a["pat"]), a) for a in m["arms"]]
        n = sum(1 for p, a in arms if p)
        if n and (best is None or n > best[0]):
            best = (n, m, arms)
    if best is None:
        raise AnchorMissing("no dispatch over element constants in %s" % fn.path)
    table = {}
    for p, a in best[2]:
        if p:
            table.setdefault(p, []).append((a, handler_calls(fn, a["body"])))
    return best[1], table


def region_calls(F, h):
    """(opens [(stack flag, tag const, node)], closes [(tag const, node)]) of executable-content regions in handler h."""
    opens, closes = [], []
    for c in h.calls(RS + "start_executable_content_region"):
        opens.append((const_eval(c["a"][0]), const_path(c["a"][1]), c))
    for c in h.calls(RS + "end_executable_content_region"):
        closes.append((const_path(c["a"][0]), c))
    return opens, closes


def parent_tables(F, h):
    """[(self tag const, [allowed parent consts], node)] of verify_parent_tag calls in handler h."""
    out = []
    for c in h.calls(RS + "verify_parent_tag"):
        lst = peel(c["a"][1], NO_T)
        allowed = [const_path(x) for x in lst["a"]] if lst.get("k") == "array" else None
        out.append((const_path(c["a"][0]), allowed, c))
    return out


def structural_ancestors(fn, n):
    return [a for a in fn.ancestors(n) if a.get("k") in ("if", "match", "for", "while", "loop", "closure") or (a.get("k") is None and "pat" in a)]


def guard_sig(fn, n):
    return sorted((describe(a) if isinstance(a, dict) and a.get("k") else "arm", str(p)) for a, p in hirq.guard_atoms(fn, n))


# ------------------------------------------------------------------------------------------------

def run(ctx):
    F = ctx.facts
    ctx.explanation = ("C04 (structural slice): element-constant dispatch of start_element/end_element against the set of TAG_* element constants, "
                       "handler <-> tag agreement, pairing of executable-content regions by tag constant, SAX event arms, allowed-parent tables "
                       "against the W3C content model and sibling consistency, local_name provenance of every compared element name, raw-buffer "
                       "slices vs unescape, DOC_ID_COUNTER sites and state-id arithmetic")
    ctx.assumptions += [
        "quick-xml: local_name() strips the prefix, name() is the qualified name, read_to_end_into matches qualified names, BytesText::unescape resolves entities",
        "rustc's HIR/MIR and type resolution for the analysed configuration",
        "the W3C content model table (W3C_PARENTS) transcribed from SCXML 1.0 sections 3-6",
    ]
    se = F.fn(RS + "start_element")
    ee = F.fn(RS + "end_element")
    val = lambda p: F.const_value(p) if p in F.consts else None

    # shared facts --------------------------------------------------------------------------------
    shared = {}

    def tables():
        if shared:
            return shared
        attr_keys = attribute_keys(F)
        tags = sorted(p for p, c in F.consts.items() if p.startswith(MODP) and short(p).startswith("TAG_") and isinstance(val(p), str))
        elements = [p for p in tags if p not in attr_keys]
        sm, stab = dispatch(se)
        em, etab = dispatch(ee)
        handlers = {}
        for p, lst in stab.items():
            for arm, calls in lst:
                for c in calls:
                    handlers.setdefault(p, []).append(F.fn(c["p"]))
        ehandlers = {}
        for p, lst in etab.items():
            for arm, calls in lst:
                for c in calls:
                    ehandlers.setdefault(p, []).append(F.fn(c["p"]))
        shared.update(attr_keys=attr_keys, tags=tags, elements=elements, sm=sm, stab=stab, em=em, etab=etab, handlers=handlers, ehandlers=ehandlers)
        return shared

    # -------------------------------------------------------------------------------------------- R04.1
    ctx.rule("R04.1", "start_element dispatches every element constant (TAG_* not used as an attribute key) to exactly one handler whose own "
                      "verify_parent_tag names the same constant; element constants are pairwise distinct; a handler that opens an executable-content "
                      "region with tag T either closes T itself under the same condition or T is the element's constant and end_element dispatches that "
                      "constant to a handler closing exactly T; <else>/<elseif> close TAG_IF before reopening TAG_IF; nested regions are stacked, "
                      "top-level ones are not; end_executable_content_region pops through to the tag it was given; the element stack is pushed once "
                      "per start and popped once per end; the SAX arms Start/End/Empty call start_element(true) / end_element / start_element(false)+end_element")

    def r1():
        T = tables()
        stab, etab, handlers, ehandlers = T["stab"], T["etab"], T["handlers"], T["ehandlers"]
        ctx.floor("R04.1", "element constants", len(T["elements"]), 27)
        # a. coverage
        for p in T["elements"]:
            n = len(stab.get(p, []))
            hs = handlers.get(p, [])
            ctx.ob("R04.1", "start_element|dispatches %s" % short(p), n == 1 and len(hs) == 1, se.where,
                   "%d arm(s), handler(s) %s" % (n, [short(h.path) for h in hs]))
        for p in stab:
            ctx.ob("R04.1", "start_element|arm %s is an element constant" % short(p), p in T["elements"], se.where,
                   "%s = %r%s" % (short(p), val(p), " is also used as an attribute key" if p in T["attr_keys"] else ""))
        vals = {}
        for p in T["elements"]:
            vals.setdefault(val(p), []).append(short(p))
        dup = {v: ps for v, ps in vals.items() if len(ps) > 1 or not v}
        ctx.ob("R04.1", "element constants pairwise distinct and non-empty", not dup, "", "clashes: %s" % dup if dup else "%d distinct names" % len(vals))
        used = {}
        for p, hs in handlers.items():
            for h in hs:
                used.setdefault(h.path, []).append(short(p))
        for hp, ps in sorted(used.items()):
            ctx.ob("R04.1", "%s|serves one element" % hp, len(ps) == 1, F.fn(hp).where, "dispatched for %s" % ps)
        # handler <-> tag agreement (K4)
        n_agree = 0
        for p, hs in sorted(handlers.items()):
            for h in hs:
                own = {t for t, allowed, c in parent_tables(F, h)}
                if own:
                    n_agree += 1
                    ctx.ob("R04.1", "%s|verifies its own tag" % h.path, own == {p}, h.where, "dispatched for %s, verifies as %s" % (short(p), sorted(short(x) for x in own)))
        ctx.floor("R04.1", "handlers with a parent check", n_agree, 25)

        # b. regions
        openers = set()
        info = {}
        for p, hs in handlers.items():
            for h in hs:
                o, c = region_calls(F, h)
                info[p] = (h, o, c)
                if o:
                    openers.add(p)
        ctx.floor("R04.1", "elements opening an executable-content region", len(openers), 9)
        idx_cache = {}

        def idx_of(fn):
            if fn.path not in idx_cache:
                idx_cache[fn.path] = hirq.order_index(fn)
            return idx_cache[fn.path]
        tag_if = [p for p in T["elements"] if val(p) == "if"]
        for p in sorted(openers):
            h, opens, closes = info[p]
            idx = idx_of(h)
            parents = set()
            for t, allowed, c in parent_tables(F, h):
                parents |= set(allowed or [])
            nested = bool(parents & openers)
            name = short(p)
            if closes and tag_if and [t for t, c in closes] == tag_if and val(p) in ("else", "elseif"):
                # else / elseif: end the <if> region, reopen with TAG_IF, (elseif: + its own stacked region)
                first = opens[0]
                ok = first[1] == tag_if[0] and first[0] is True and idx[id(closes[0][1])] < idx[id(first[2])] and not structural_ancestors(h, closes[0][1]) \
                    and not structural_ancestors(h, first[2])
                ctx.ob("R04.1", "%s|ends TAG_IF then reopens TAG_IF (stacked)" % h.path, ok, line_of(first[2]),
                       "closes %s, then opens %s" % ([short(t) for t, c in closes], [(f, short(t)) for f, t, c in opens]))
                rest = opens[1:]
                ctx.ob("R04.1", "%s|further regions carry the element's own tag, stacked" % h.path, all(t == p and f is True for f, t, c in rest), h.where,
                       "%s" % [(f, short(t)) for f, t, c in rest])
                continue
            if closes:
                # opened and closed by the same handler (root <script>)
                ok = len(opens) == 1 and len(closes) == 1 and opens[0][1] == p and closes[0][0] == p and idx[id(opens[0][2])] < idx[id(closes[0][1])] \
                    and guard_sig(h, opens[0][2]) == guard_sig(h, closes[0][1]) and opens[0][0] is False
                ctx.ob("R04.1", "%s|opens and closes %s itself under one condition" % (h.path, name), ok, h.where,
                       "opens %s under %s; closes %s under %s" % ([(f, short(t)) for f, t, c in opens], guard_sig(h, opens[0][2]) if opens else "-",
                                                                  [short(t) for t, c in closes], guard_sig(h, closes[0][1]) if closes else "-"))
                continue
            ok = len(opens) == 1 and opens[0][1] == p and not structural_ancestors(h, opens[0][2])
            ctx.ob("R04.1", "%s|opens one region tagged %s unconditionally" % (h.path, name), ok, h.where, "opens %s" % [(f, short(t)) for f, t, c in opens])
            if opens:
                ctx.ob("R04.1", "%s|region stacked iff the element nests in executable content" % h.path, opens[0][0] is nested, line_of(opens[0][2]),
                       "stack=%s; allowed parents %s contain a region opener: %s" % (opens[0][0], sorted(short(x) for x in parents), nested))
            eh = ehandlers.get(p, [])
            ecl = [region_calls(F, g)[1] for g in eh]
            ok = len(etab.get(p, [])) == 1 and len(eh) == 1 and [t for t, c in ecl[0]] == [p] and not structural_ancestors(eh[0], ecl[0][0][1])
            ctx.ob("R04.1", "end_element|closes the region of %s with the same constant" % name, ok, ee.where,
                   "end handler(s) %s close %s" % ([short(g.path) for g in eh], [[short(t) for t, c in x] for x in ecl]))
        # reverse: an end handler that closes T belongs to the arm T whose start handler opens T
        for p, hs in sorted(ehandlers.items()):
            for g in hs:
                o, c = region_calls(F, g)
                if c or o:
                    ok = not o and [t for t, _ in c] == [p] and p in openers
                    ctx.ob("R04.1", "%s|closes only its own element's region" % g.path, ok, g.where, "dispatched for %s, closes %s, opens %s" % (short(p), [short(t) for t, _ in c], len(o)))
        # no other function opens/closes regions
        for fn in reader_fns(F):
            o, c = region_calls(F, fn)
            if (o or c) and fn.path not in {h.path for hs in handlers.values() for h in hs} | {g.path for hs in ehandlers.values() for g in hs}:
                rec = fn.path == RS + "end_executable_content_region" and not o
                ctx.ob("R04.1", "%s|region calls only from dispatched handlers" % fn.path, rec, fn.where, "%d open(s), %d close(s)" % (len(o), len(c)))
        # pop-through
        er = F.fn(RS + "end_executable_content_region")
        tagp = [p_["b"] for p_ in er.params if p_.get("n") == "tag"]
        pops = [c for c in er.calls("Vec::<T, A>::pop") if is_field_of(c["r"], "executable_content_stack")]
        rec = er.calls(RS + "end_executable_content_region")
        ok = False
        detail = "pops %d, recursive calls %d" % (len(pops), len(rec))
        if len(pops) == 1 and len(rec) == 1 and tagp:
            same_tag = local_of(rec[0]["a"][0]) == tagp[0]
            u = None
            cmp_ok = False
            for a, pol in hirq.guard_atoms(er, rec[0]):
                if isinstance(a, dict) and a.get("k") == "mcall" and a["m"] in ("ne", "eq") and ((a["m"] == "ne") == bool(pol)):
                    sides = [local_of(a["r"]), local_of(a["a"][0])]
                    if tagp[0] in sides:
                        other = [s for s in sides if s != tagp[0]]
                        info_b = er.bindings().get(other[0]) if other and other[0] is not None else None
                        cmp_ok = bool(info_b) and info_b["from"] in ("match", "iflet") and any(x is pops[0] for x in hirq.walk(info_b.get("scrutinee") or info_b.get("init")))
                if isinstance(a, dict) and a.get("k") == "bin" and a["op"] in ("Ne", "Eq") and ((a["op"] == "Ne") == bool(pol)):
                    sides = [local_of(a["l"]), local_of(a["r"])]
                    if tagp[0] in sides:
                        other = [s for s in sides if s != tagp[0]]
                        info_b = er.bindings().get(other[0]) if other and other[0] is not None else None
                        cmp_ok = bool(info_b) and info_b["from"] in ("match", "iflet") and any(x is pops[0] for x in hirq.walk(info_b.get("scrutinee") or info_b.get("init")))
            ok = same_tag and cmp_ok
            detail = "recursion passes the same tag: %s; guarded by tag != popped tag: %s" % (same_tag, cmp_ok)
        ctx.ob("R04.1", site_key(er, "pops through to the requested tag"), ok, er.where, detail)

        # c. element stack
        pushes = se.calls(RS + "push")
        okp = len(pushes) == 1 and not structural_ancestors(se, pushes[0]) and local_of(pushes[0]["a"][0]) == local_of(T["sm"]["e"]) \
            and idx_of(se)[id(pushes[0])] < idx_of(se)[id(T["sm"])]
        ctx.ob("R04.1", site_key(se, "pushes the element name once, before dispatch"), okp, se.where, "%d push call(s)" % len(pushes))
        pops = ee.calls(RS + "pop")
        okp = len(pops) == 1 and not structural_ancestors(ee, pops[0]) and idx_of(ee)[id(pops[0])] > idx_of(ee)[id(T["em"])]
        ctx.ob("R04.1", site_key(ee, "pops the element once, after dispatch"), okp, ee.where, "%d pop call(s)" % len(pops))
        okd = local_of(T["em"]["e"]) == ee.params[1]["b"]
        ctx.ob("R04.1", site_key(ee, "dispatches on the name it was given"), okd, ee.where, "scrutinee %s" % describe(T["em"]["e"]))

        # d. SAX arms
        pr = F.fn(RS + "process")
        arms = {}
        for m in pr.nodes("match"):
            for a in m["arms"]:
                pat = a["pat"]
                if pat.get("k") == "pts" and short(pat["r"].get("p", "")) == "Ok" and pat["a"] and isinstance(pat["a"][0], dict) and pat["a"][0].get("k") == "pts":
                    ev = short(pat["a"][0]["r"].get("p", ""))
                    if ev in ("Start", "End", "Empty"):
                        arms[ev] = (a, pat["a"][0]["a"][0].get("b"))
        ctx.exact("R04.1", "SAX arms Start/End/Empty in process", len(arms), 3)
        idxp = idx_of(pr)
        for ev, (a, eb) in sorted(arms.items()):
            st = pr.calls(RS + "start_element", root=a["body"])
            en = pr.calls(RS + "end_element", root=a["body"])
            if ev == "Start":
                ok = len(st) == 1 and not en and const_eval(st[0]["a"][2]) is True and local_of(st[0]["a"][1]) == eb
            elif ev == "End":
                ok = len(en) == 1 and not st and hirq.mentions_local(en[0]["a"][0], eb)
            else:
                ok = len(st) == 1 and len(en) == 1 and const_eval(st[0]["a"][2]) is False and local_of(st[0]["a"][1]) == eb \
                    and hirq.mentions_local(en[0]["a"][0], eb) and idxp[id(st[0])] < idxp[id(en[0])]
            ctx.ob("R04.1", site_key(pr, "SAX arm " + ev), ok, line_of(a["body"]),
                   "start_element x%d (has_content %s), end_element x%d" % (len(st), [const_eval(x["a"][2]) for x in st], len(en)))
    ctx.guard("R04.1", r1)

    # -------------------------------------------------------------------------------------------- R04.2
    ctx.rule("R04.2", "every dispatched handler except <scxml>/<include> checks its parent exactly once, not under a condition other than the "
                      "root-<script> exemption; the allowed parents of if/foreach/log/assign/script are one common set X (script additionally scxml) "
                      "= the elements that open an executable-content region except the if-branches; raise/send/cancel allow X minus finalize; every other "
                      "element's table equals the W3C content model")

    def r2():
        T = tables()
        handlers = T["handlers"]
        byname = {val(p): p for p in T["elements"]}
        tabs = {}
        n = 0
        for p, hs in sorted(handlers.items()):
            name = val(p)
            for h in hs:
                pt = parent_tables(F, h)
                if name in ("scxml", "include"):
                    continue
                n += len(pt)
                ok = len(pt) == 1 and pt[0][1] is not None and all(pt[0][1])
                cond = ""
                if ok:
                    sa = structural_ancestors(h, pt[0][2])
                    if sa:
                        # only `if !(<parent tag> == P)` with P allowed is equivalent to an unconditional check
                        ok = False
                        g = hirq.guard_atoms(h, pt[0][2])
                        if len(sa) == 1 and len(g) == 1 and g[0][1] is False:
                            o = hirq.origin(h, g[0][0])
                            e = o.get("expr") if o.get("from") == "expr" else None
                            if e is not None and e.get("k") == "mcall" and e["m"] == "eq" and is_call(peel(e["r"], NO_T), RS + "get_parent_tag"):
                                ok = const_path(e["a"][0]) in pt[0][1]
                                cond = " (skipped only when the parent is %s, which is allowed)" % short(const_path(e["a"][0]))
                ctx.ob("R04.2", "%s|one unconditional parent check" % h.path, ok, h.where, "%d verify_parent_tag call(s)%s" % (len(pt), cond))
                if pt and pt[0][1] is not None:
                    tabs[name] = {val(x) for x in pt[0][1]}
        ctx.floor("R04.2", "verify_parent_tag calls in dispatched handlers", n, 25)
        # executable content: sibling consistency
        T1 = tables()
        openers = set()
        for p, hs in handlers.items():
            for h in hs:
                if region_calls(F, h)[0]:
                    openers.add(val(p))
        X = openers - {"else", "elseif", "script"}
        ctx.ob("R04.2", "executable containers", X == {"onentry", "onexit", "transition", "foreach", "if", "finalize"}, "", "region-opening elements (without else/elseif/root script): %s" % sorted(X))
        for name in sorted(EXECUTABLE):
            got = tabs.get(name)
            want = set(X)
            if name in NO_FINALIZE:
                want -= {"finalize"}
            if name == "script":
                want |= {"scxml"}
            ctx.ob("R04.2", "allowed parents of <%s>" % name, got == want, F.fn(handlers[byname[name]][0].path).where if name in byname and byname[name] in handlers else "",
                   "table %s; expected %s%s" % (sorted(got) if got is not None else None, sorted(want),
                                                 "" if got == want else "; differs by %s" % sorted((got or set()) ^ want)))
        for name, want in sorted(W3C_PARENTS.items()):
            got = tabs.get(name)
            extra = {(name, x) for x in (got or set()) - want} - DECLARED_SUPERSET
            ok = got is not None and want <= got and not extra
            ctx.ob("R04.2", "allowed parents of <%s>" % name, ok, F.fn(handlers[byname[name]][0].path).where if name in byname and byname[name] in handlers else "",
                   "table %s; W3C %s" % (sorted(got) if got is not None else None, sorted(want)))
        unknown = set(tabs) - set(W3C_PARENTS) - EXECUTABLE
        ctx.ob("R04.2", "every parent table has a reference", not unknown, "", "elements without reference table: %s" % sorted(unknown))
    ctx.guard("R04.2", r2)

    # -------------------------------------------------------------------------------------------- R04.3
    ctx.rule("R04.3", "the name start_element dispatches on and every name handed to end_element is from_utf8(<event>.local_name()); no qualified "
                      "name (quick-xml name()) of a parsed event is compared or dispatched in the reader; a name that quick-xml compares with the "
                      "document's qualified names (read_to_end*) is the document's own start-tag name, not a constant")

    def r3():
        T = tables()

        def via_local_name(fn, e, ev_binding=None):
            """e == from_utf8(X.local_name().as_ref()).unwrap() (through lets); returns X's binding."""
            seen = 0
            cur = e
            while seen < 8:
                seen += 1
                o = hirq.origin(fn, cur)
                x = o.get("expr") if o.get("from") == "expr" else None
                if x is None:
                    return None
                if x.get("k") == "call" and path_matches(x.get("p") or "", "std::str::from_utf8"):
                    cur = x["a"][0]
                    continue
                if x.get("k") == "mcall" and x["m"] == "local_name" and "quick_xml::events::Bytes" in (x.get("p") or ""):
                    return local_of(x["r"])
                if x.get("k") == "mcall" and x["m"] in ("as_ref", "into_inner", "unwrap", "expect") and not x["a"][1:]:
                    cur = x["r"]
                    continue
                return None
            return None
        b = via_local_name(se, T["sm"]["e"])
        ev_param = [p["b"] for p in se.params if "BytesStart" in p.get("ty", "")]
        ctx.ob("R04.3", site_key(se, "dispatch name = local_name() of the start event"), b is not None and b in ev_param, se.where,
               "scrutinee %s derives from local_name of %s" % (describe(T["sm"]["e"]), "the event parameter" if b in ev_param else b))
        n = 0
        for fn in reader_fns(F):
            for i, c in enumerate(fn.calls(RS + "end_element")):
                n += 1
                b = via_local_name(fn, c["a"][0])
                info = fn.bindings().get(b) if b is not None else None
                ok = info is not None and info["from"] in ("match", "iflet")
                ctx.ob("R04.3", site_key(fn, "end_element(local_name of the event)", i), ok, line_of(c), "argument %s" % describe(c["a"][0]))
        ctx.floor("R04.3", "end_element call sites", n, 2)
        # qualified names
        q = 0
        for fn in reader_fns(F):
            k = 0
            for c in fn.calls():
                p = c.get("p") or ""
                if c.get("k") == "mcall" and c["m"] == "name" and "quick_xml::events::Bytes" in p:
                    # allowed only as the argument of read_to_end* (checked below)
                    par = fn.parent(c)
                    while par is not None and par.get("k") in ("ref", "cast"):
                        par = fn.parent(par)
                    feeds = par is not None and par.get("k") == "mcall" and par["m"].startswith("read_to_end")
                    if not feeds:
                        ctx.ob("R04.3", site_key(fn, "qualified name used", k), False, line_of(c), "%s is compared/dispatched outside read_to_end" % describe(c))
                        k += 1
                    q += 1
        sinks = 0
        for fn in reader_fns(F):
            for i, c in enumerate(x for x in fn.calls() if x.get("k") == "mcall" and x["m"].startswith("read_to_end") and "quick_xml" in (x.get("p") or "")):
                sinks += 1
                o = hirq.origin(fn, c["a"][0])
                x = o.get("expr") if o.get("from") == "expr" else None
                ok = False
                why = "argument %s" % describe(c["a"][0])
                if x is not None and x.get("k") == "mcall" and x["m"] == "name":
                    src = hirq.origin(fn, x["r"])
                    # the receiver must be the start event itself (a parameter / pattern binding of a parsed event), not a tag built from a constant
                    if src.get("from") in ("param", "match", "iflet"):
                        ok = True
                        why = "name() of the parsed start event %s" % describe(x["r"])
                    else:
                        why = "name() of %s, which is constructed from %s rather than taken from the document" % (
                            describe(x["r"]), describe(src.get("expr")) if src.get("expr") is not None else src.get("from"))
                ctx.ob("R04.3", site_key(fn, "read_to_end name is the document's own start-tag name", i), ok, line_of(c), why)
        ctx.floor("R04.3", "read_to_end sites (content of script/data/content/assign)", sinks, 1)
        # positive control for the query: local_name is used
        ln = sum(1 for fn in reader_fns(F) for c in fn.calls() if c.get("k") == "mcall" and c["m"] == "local_name")
        ctx.floor("R04.3", "local_name() call sites", ln, 3)
    ctx.guard("R04.3", r3)

    # -------------------------------------------------------------------------------------------- R04.4
    ctx.rule("R04.4", "a slice of the raw document buffer (ReaderState.content[..]) passes an unescape (quick-xml unescape / decode_and_unescape) "
                      "before it leaves the function that took it; text events and attribute values are unescaped")

    def r4():
        k = 0
        for fn in reader_fns(F):
            for n in fn.walk():
                if n.get("k") == "index" and is_field_of(n["e"], "content") and owner_in_type(peel(n["e"], NO_T).get("bty", ""), "ReaderState"):
                    # follow the value outwards: method calls applied to it, calls it is an argument of
                    cur = n
                    passed = False
                    chain = []
                    while True:
                        par = fn.parent(cur)
                        if par is None:
                            break
                        kk = par.get("k")
                        if kk in ("ref", "cast", "un") or (kk == "block" and par.get("tail") is cur):
                            cur = par
                            continue
                        if kk == "mcall" and par["r"] is cur:
                            chain.append(par["m"])
                            if "unescape" in par["m"]:
                                passed = True
                            cur = par
                            continue
                        if kk == "call" and any(a is cur for a in par["a"]):
                            nm = short(par.get("p") or "")
                            chain.append(nm)
                            if "unescape" in nm:
                                passed = True
                            cur = par
                            continue
                        if kk == "let":
                            b = par["pat"].get("b")
                            uses = [u for u in fn.walk() if u.get("k") in ("mcall", "call") and "unescape" in (u.get("m") or short(u.get("p") or "")) and
                                    b is not None and any(hirq.mentions_local(x, b) for x in ([u["r"]] if u.get("k") == "mcall" else []) + u["a"])]
                            if uses:
                                passed = True
                            chain.append("let " + par["pat"].get("n", "?"))
                        break
                    ctx.ob("R04.4", site_key(fn, "raw slice unescaped", k), passed, line_of(n), "self.content[..] -> %s: %s" % (".".join(chain) or "-", "unescaped" if passed else "never unescaped"))
                    k += 1
        ctx.extra["C04_raw_slices"] = k
        pr = F.fn(RS + "process")
        txt = [c for c in pr.calls() if c.get("k") == "mcall" and c["m"] == "unescape" and "BytesText" in (c.get("p") or "")]
        ctx.floor("R04.4", "text events unescaped in process (positive control)", len(txt), 1)
        da = F.fn(MODP + "decode_attributes")
        av = [c for c in F.closures_of(da) + [da] if c is not None]
        cnt = 0
        for g in [da]:
            cnt += len([c for c in g.calls() if c.get("k") == "mcall" and c["m"] in ("decode_and_unescape_value", "unescape_value", "decode_and_unescape_value_with")])
        ctx.floor("R04.4", "attribute values unescaped in decode_attributes", cnt, 1)
    ctx.guard("R04.4", r4)

    # -------------------------------------------------------------------------------------------- R04.5
    ctx.rule("R04.5", "DOC_ID_COUNTER.fetch_add occurs only in start_transition (the new transition's doc_id, unconditional), and in "
                      "get_or_create_state_with_attributes (the state's doc_id, unconditional; the initial-attribute transition's doc_id under "
                      "Some(initial attribute)); none in a loop; each result is stored in a doc_id field; these functions are reached from start_element "
                      "and not from end_element; each of start_state/parallel/final/history/scxml creates its state by exactly one unconditional call; "
                      "Fsm.states grows only in get_or_create_state with id = len + 1; State::new is called only there")

    def r5():
        want = {RS + "start_transition": 1, RS + "get_or_create_state_with_attributes": 2}
        # optional: an <invoke> may carry a document id of its own (it ties child sessions to their element, see C14 R14.9)
        optional = {RS + "start_invoke": 1}
        got = {}
        sites = []
        for fn in reader_fns(F):
            for c in fn.calls():
                if c.get("k") == "mcall" and c["m"].startswith("fetch_") and (hirq.def_path(c["r"]) or "").endswith("DOC_ID_COUNTER"):
                    owner = fn.path
                    got[owner] = got.get(owner, 0) + 1
                    sites.append((fn, c, got[owner] - 1))
        # any other use of the counter (load/store/swap)
        others = []
        for fn in F.fn_list:
            if fn.hir is None:
                continue
            for n in fn.walk():
                if n.get("k") == "path" and n["r"].get("k") == "def" and n["r"].get("p", "").endswith("scxml_reader::DOC_ID_COUNTER"):
                    par = fn.parent(n)
                    while par is not None and par.get("k") in ("ref",):
                        par = fn.parent(par)
                    if not (par is not None and par.get("k") == "mcall" and par["m"] == "fetch_add" and const_eval(par["a"][0]) == 1):
                        others.append((fn, n))
        for i, (fn, n) in enumerate(others):
            ctx.ob("R04.5", site_key(fn, "DOC_ID_COUNTER used other than fetch_add(1)", i), False, line_of(n), "counter touched by %s" % fn.path)
        for owner in sorted(set(want) | set(got)):
            okn = got.get(owner, 0) == want.get(owner, 0) or (owner in optional and got.get(owner, 0) in (0, optional[owner]))
            ctx.ob("R04.5", "%s|doc id draws" % owner, okn, F.fn(owner).where if F.has_fn(owner) else "",
                   "%d fetch_add site(s), expected %d%s" % (got.get(owner, 0), want.get(owner, 0), " (or %d: optional)" % optional[owner] if owner in optional else ""))
        kinds = {}
        for fn, c, i in sites:
            par = fn.parent(c)
            if par is not None and par.get("k") == "let" and par["pat"].get("k") == "bind":
                # hoisted: `let d = COUNTER.fetch_add(1, ..); x.doc_id = d;` (the local's only use)
                lb = par["pat"]["b"]
                uses = [n for n in fn.walk() if n.get("k") == "path" and n["r"].get("k") == "local" and n["r"].get("b") == lb]
                asg = [a for a in fn.nodes("assign") if local_of(a["r"], NO_T) == lb and is_field_of(a["l"], "doc_id")]
                if len(uses) == 1 and len(asg) == 1:
                    par = dict(asg[0], r=c)
            stored = par is not None and par.get("k") == "assign" and par["r"] is c and is_field_of(par["l"], "doc_id")
            bty = peel(par["l"], NO_T).get("bty", "") if stored else ""
            kind = "state" if owner_in_type(bty, "State") else ("transition" if owner_in_type(bty, "Transition") else
                                                                ("invoke" if owner_in_type(bty, "Invoke") else "?"))
            loops = hirq.enclosing_loops(fn, c)
            sa = structural_ancestors(fn, c)
            cond_ok = not sa
            note = "unconditional"
            if sa and kind == "transition" and fn.path.endswith("get_or_create_state_with_attributes"):
                # under the Some(..) arm of attr.get(ATTR_INITIAL) only
                g = hirq.guards(fn, c)
                cond_ok = len(g) == 1 and g[0]["how"] == "arm" and short(g[0]["pat"].get("r", {}).get("p", "")) == "Some"
                if cond_ok:
                    o = hirq.origin(fn, g[0]["cond"])
                    e = o.get("expr") if o.get("from") == "expr" else None
                    cond_ok = e is not None and e.get("k") == "mcall" and e["m"] == "get" and val(const_path(e["a"][0])) == "initial"
                note = "only when the initial attribute is present: %s" % cond_ok
            # the transition that receives the id is a fresh Transition::new() that is inserted into fsm.transitions
            fresh = True
            if kind == "transition":
                tb = local_of(hirq.field_of(par["l"], NO_T)[0], NO_T)
                d = hirq.single_def(fn, tb) if tb is not None else None
                fresh = d is not None and is_call(peel(d, NO_T), "fsm::Transition::new")
            kinds.setdefault((fn.path, kind), 0)
            kinds[(fn.path, kind)] += 1
            ctx.ob("R04.5", site_key(fn, "doc id stored once in %s.doc_id" % kind, kinds[(fn.path, kind)] - 1), stored and kind != "?" and not loops and cond_ok and fresh, line_of(c),
                   "stored in doc_id of a %s: %s; loops: %d; %s%s" % (kind, stored, len(loops), note, "" if fresh else "; receiver is not a fresh Transition::new()"))
        exp_kinds = {(RS + "start_transition", "transition"): 1, (RS + "get_or_create_state_with_attributes", "transition"): 1,
                     (RS + "get_or_create_state_with_attributes", "state"): 1}
        opt_kinds = {(RS + "start_invoke", "invoke"): 1}
        okk = all(kinds.get(k) == v for k, v in exp_kinds.items()) and all(k in exp_kinds or opt_kinds.get(k) == v for k, v in kinds.items())
        ctx.ob("R04.5", "doc id kinds", okk, "", "%s" % sorted((short(a), b, n) for (a, b), n in kinds.items()))
        # doc_id field writers
        for owner_ty in ("State", "Transition"):
            for fn, n, kind, meth, par in mutations_of_field(F, owner_ty, "doc_id"):
                o = fn.path if fn.kind != "Closure" else fn.parent_path
                ok = o in want or o.startswith("serializer::fsm_reader::")
                ctx.ob("R04.5", "%s|writes %s.doc_id" % (o, owner_ty), ok, line_of(n), "%s writes %s.doc_id" % (o, owner_ty))
        # start, not end
        cg = F.callgraph
        from_start = cg.reachable([se.path])
        from_end = cg.reachable([ee.path])
        for owner in sorted(want):
            ctx.ob("R04.5", "%s|reached from start_element only" % owner, owner in from_start and owner not in from_end, F.fn(owner).where,
                   "reachable from start_element: %s; from end_element: %s" % (owner in from_start, owner in from_end))
        # one creation per declared state
        creators = 0
        goc = RS + "get_or_create_state_with_attributes"
        for fn in reader_fns(F):
            cs = fn.calls(goc)
            if not cs:
                continue
            creators += 1
            ok = len(cs) == 1 and not structural_ancestors(fn, cs[0]) and short(fn.path) in ("start_state", "start_parallel", "start_final", "start_history", "start_scxml")
            ctx.ob("R04.5", "%s|declares its state exactly once" % fn.path, ok, fn.where, "%d call(s) of get_or_create_state_with_attributes" % len(cs))
        ctx.exact("R04.5", "handlers declaring a state", creators, 5)
        T = tables()
        for name in ("state", "parallel", "final", "history", "scxml"):
            p = [x for x in T["elements"] if val(x) == name]
            hs = T["handlers"].get(p[0], []) if p else []
            ok = len(hs) == 1 and len(hs[0].calls(goc)) == 1
            ctx.ob("R04.5", "<%s> handler declares a state" % name, ok, hs[0].where if hs else "", "handler %s" % [short(h.path) for h in hs])
        # state ids
        gs = F.fn(RS + "get_or_create_state")
        pushes = [(fn, n, par) for fn, n, kind, meth, par in mutations_of_field(F, "Fsm", "states") if fn.path.startswith(MODP) and meth in ("push", "insert")]
        for i, (fn, n, par) in enumerate(pushes):
            ctx.ob("R04.5", "%s|grows Fsm.states|%d" % (fn.path, i), fn is gs, line_of(n), "%s pushes to Fsm.states" % fn.path)
        ctx.floor("R04.5", "Fsm.states push sites in the reader", len(pushes), 1)
        news = [(fn, c) for fn in reader_fns(F) for c in fn.calls("fsm::State::new")]
        for i, (fn, c) in enumerate(news):
            ctx.ob("R04.5", "%s|State::new|%d" % (fn.path, i), fn is gs, line_of(c), "State::new called in %s" % fn.path)
        ctx.floor("R04.5", "State::new sites in the reader", len(news), 1)
        ida = [a for a in gs.nodes("assign") if is_field_of(a["l"], "id") and owner_in_type(peel(a["l"], NO_T).get("bty", ""), "State")]
        ok = False
        detail = "%d assignment(s) to State.id" % len(ida)
        if len(ida) == 1 and pushes:
            r = peel(ida[0]["r"], NO_T)
            if r.get("k") == "bin" and r["op"] == "Add":
                sides = [peel(r["l"], NO_T), peel(r["r"], NO_T)]
                lens = [s for s in sides if s.get("k") == "mcall" and s["m"] == "len" and is_field_of(s["r"], "states")]
                ones = [s for s in sides if const_eval(s) == 1]
                idx = hirq.order_index(gs)
                before = all(idx[id(ida[0])] < idx[id(par)] for fn, n, par in pushes if fn is gs)
                same = local_of(hirq.field_of(ida[0]["l"], NO_T)[0], NO_T)
                pushed_same = any(local_of(par["a"][0], NO_T) == same for fn, n, par in pushes if fn is gs and par.get("k") == "mcall")
                ok = len(lens) == 1 and len(ones) == 1 and before and pushed_same
                detail = "id = %s; assigned before the push of the same state: %s" % (describe(ida[0]["r"]), before and pushed_same)
        ctx.ob("R04.5", site_key(gs, "state id = states.len() + 1, then pushed"), ok, gs.where, detail)
    ctx.guard("R04.5", r5)

    # ---------------------------------------------------------------- R04.6 forward references
    ctx.rule("R04.6", "forward references: what a declaration contributes to its state through the parameters of get_or_create_state (the state kind) "
                      "is applied both when the entry is created and when an entry created earlier by a reference (target=, initial=) is found")

    def r6():
        gs = F.fn(RS + "get_or_create_state")
        extra = [p for p in gs.params if p.get("k") == "bind" and p["n"] not in ("self", "name")]
        ctx.floor("R04.6", "declaration parameters of get_or_create_state besides the name", len(extra), 1)
        lookups = [m for m in gs.nodes("match") if any(wire_arm(a) in ("None", "Some") for a in m["arms"])]
        ctx.exact("R04.6", "name lookups in get_or_create_state", len(lookups), 1)
        m = lookups[0]
        for p in extra:
            for a in m["arms"]:
                kind = wire_arm(a)
                if kind not in ("None", "Some"):
                    continue
                used = False
                for x in hirq.walk(a["body"]):
                    if x.get("k") == "assign":
                        if hirq.mentions_local(x["r"], p["b"]) or any(pol is not None and hirq.mentions_local(g, p["b"]) for g, pol in hirq.guard_atoms(gs, x)):
                            used = True
                ctx.ob("R04.6", site_key(gs, "`%s` applied on the %s arm" % (p["n"], "create" if kind == "None" else "found-earlier")), used, gs.where,
                       "the %s arm %s a state field from `%s`" % (kind, "sets" if used else "never sets", p["n"]))
    ctx.guard("R04.6", r6)

    # ---------------------------------------------------------------- R04.7 parse input == sliced buffer
    ctx.rule("R04.7", "element text (<data>, <script>, <assign>, <content>, ...) is cut out of ReaderState.content by the byte offsets the XML "
                      "parser reports, so the parser must be given exactly that text: the argument of every quick-xml Reader::from_str in "
                      "the reader is a plain copy (clone / as_str / to_string / to_owned / as_ref) of self.content")

    def r7():
        COPY = {"clone", "as_str", "to_string", "to_owned", "as_ref", "borrow", "deref"}
        sites = []
        for fn in reader_fns(F):
            for c in fn.calls(pred=lambda n: "quick_xml" in (n.get("p") or "") and (n.get("p") or "").endswith("::from_str")):
                sites.append((fn, c))
        ctx.floor("R04.7", "Reader::from_str sites in the reader", len(sites), 1)
        slices = sum(1 for fn in reader_fns(F) for n in fn.walk()
                     if n.get("k") == "index" and is_field_of(n["e"], "content") and owner_in_type(peel(n["e"], NO_T).get("bty", ""), "ReaderState"))
        ctx.floor("R04.7", "slices of ReaderState.content by parser offsets", slices, 1)
        for i, (fn, c) in enumerate(sites):
            e = c["a"][0]
            chain = []
            ok = None
            for _ in range(12):
                e = peel(e, NO_T)
                if e.get("k") == "mcall" and not e["a"]:
                    chain.append(e["m"])
                    if e["m"] not in COPY:
                        ok = False
                        break
                    e = e["r"]
                    continue
                b = local_of(e, NO_T)
                d = hirq.single_def(fn, b) if b is not None else None
                if d is not None:
                    e = d
                    continue
                break
            if ok is None:
                ok = is_field_of(e, "content") and owner_in_type(peel(e, NO_T).get("bty", ""), "ReaderState")
            ctx.ob("R04.7", site_key(fn, "parser input is an unmodified copy of self.content", i), ok, line_of(c),
                   "argument derives from %s through [%s]" % (describe(e), ", ".join(chain)))
    ctx.guard("R04.7", r7)

    # ---------------------------------------------------------------- R04.8 include is transparent for the including document
    ctx.rule("R04.8", "<xi:include>: every ReaderState field that process_file overwrites for the file it reads (the current path against which "
                      "relative src/href are resolved, the text buffer) is saved in ReaderState::include before the nested process_file call and "
                      "restored after it - the rest of the including document is read in the context it was started in")

    def r8():
        pf = F.fn(RS + "process_file")
        inc = F.fn(RS + "include")
        fields = sorted({n["n"] for fn, n, kind, meth, par in [(fn, n, k, m, p) for t in F.types if t.endswith("::ReaderState")
                                                               for f2 in F.types[t]["variants"][0]["f"]
                                                               for fn, n, k, m, p in mutations_of_field(F, "ReaderState", f2[0])] if fn.path == pf.path})
        ctx.floor("R04.8", "ReaderState fields overwritten by process_file", len(fields), 2)
        calls = inc.calls(RS + "process_file")
        ctx.exact("R04.8", "process_file calls in include", len(calls), 1)
        if len(calls) != 1:
            return
        idx8 = hirq.order_index(inc)
        selfb = inc.params[0]["b"]
        for fld in fields:
            saved = None
            for let in inc.nodes("let"):
                if "init" not in let or let["pat"].get("k") != "bind" or idx8[id(let)] > idx8[id(calls[0])]:
                    continue
                mentions = [x for x in hirq.walk(let["init"]) if x.get("k") == "field" and x["n"] == fld and local_of(x["e"], NO_T) == selfb]
                if mentions:
                    saved = let
            restored = None
            if saved is not None:
                for a in inc.nodes("assign"):
                    f = hirq.field_of(a["l"], NO_T)
                    if f and f[1] == fld and local_of(f[0], NO_T) == selfb and local_of(a["r"], NO_T) == saved["pat"]["b"] and idx8[id(a)] > idx8[id(calls[0])]:
                        restored = a
            unconditional = False
            if restored is not None:
                gc = [g["node"] for g in hirq.guards(inc, calls[0])]
                gr = hirq.guards(inc, restored)
                # same path as the call; the only additional conditions are "the nested read did not fail" (diverging early exits)
                unconditional = hirq.enclosing_loops(inc, restored) == hirq.enclosing_loops(inc, calls[0]) and \
                    all(any(g["node"] is c for g in gr) for c in gc) and \
                    all(g["how"].startswith("early-exit") for g in gr if not any(g["node"] is c for c in gc))
            ctx.ob("R04.8", site_key(inc, "self.%s saved before and restored after the nested process_file" % fld), saved is not None and unconditional, line_of(calls[0]),
                   "saved: %s; restored on the same path after the call: %s" % (line_of(saved) if saved is not None else "no", line_of(restored) if restored is not None else "no"))
    ctx.guard("R04.8", r8)

    # ---------------------------------------------------------------- R04.9 white-space separated lists
    ctx.rule("R04.9", "the list-valued attributes (target / initial state lists, event descriptor lists, namelist) are split on XML white "
                      "space - blank, tab, line break - whichever way the document is wrapped: each of the three tokenising functions uses "
                      "split_ascii_whitespace / split_whitespace (or split on char::is_whitespace), and nothing in the reader splits on a "
                      "single blank character")

    def r9():
        def ws_split(c):
            m = c.get("m") or ""
            if m in ("split_ascii_whitespace", "split_whitespace"):
                return True
            if m == "split" and c["a"]:
                a = peel(c["a"][0], NO_T)
                d = describe(a)
                return "is_whitespace" in d or "is_ascii_whitespace" in d
            return False

        def blank_split(c):
            if (c.get("m") or "") not in ("split", "splitn", "split_terminator", "rsplit", "split_inclusive") or not c["a"]:
                return False
            v = const_eval(peel(c["a"][-1], NO_T))
            return v in (" ", "\t", "\n", "\r") or v in (32, 9, 10, 13)
        good, bad = {}, []
        for fn in reader_fns(F):
            owner = fn.path if fn.kind != "Closure" else fn.parent_path
            for c in fn.walk():
                if c.get("k") != "mcall" or "str" not in (c.get("p") or ""):
                    continue
                if ws_split(c):
                    good.setdefault(owner, []).append(c)
                elif blank_split(c):
                    bad.append((fn, c))
        ctx.floor("R04.9", "white-space tokenisations in the reader", sum(len(v) for v in good.values()), 3)
        for must in ("parse_state_specification", "parse_location_expressions", "start_transition"):
            if not F.has_fn(RS + must):
                ctx.ob("R04.9", "%s|tokenises on white space" % must, False, "", "function %s%s not found" % (RS, must), kind="anchor")
                continue
            p = F.fn(RS + must).path
            ctx.ob("R04.9", "%s|tokenises on white space" % must, p in good, F.fn(RS + must).where,
                   "%d split_ascii_whitespace / split_whitespace call(s)" % len(good.get(p, [])))
        ctx.ob("R04.9", "reader|no split on a single blank character", not bad, line_of(bad[0][1]) if bad else "",
               "; ".join("%s: %s" % (fn.path, describe(c)) for fn, c in bad) or "none")
    ctx.guard("R04.9", r9)

    # ---------------------------------------------------------------- R04.10 children in document order
    ctx.rule("R04.10", "the reader's state tables are append-only: `Fsm.states` (state ids are positions) and `State.states` (the children, whose "
                       "order is the document order the algorithm's default entry and document-order sorts rely on) are changed by `push` only - "
                       "never inserted into at a position, sorted, removed from or reordered")

    def r10():
        READ = {"contains", "iter", "len", "is_empty", "first", "last", "get", "get_mut", "iter_mut", "first_mut", "last_mut", "as_slice", "clone",
                "binary_search", "binary_search_by", "binary_search_by_key", "to_vec", "starts_with", "ends_with", "as_ref", "deref", "into_iter",
                "capacity", "reserve", "index", "index_mut", "eq", "ne", "fmt", "borrow", "borrow_mut", "as_mut", "deref_mut", "as_mut_slice"}
        pushes, other = [], []
        for fn in reader_fns(F):
            for c in fn.walk():
                if c.get("k") != "mcall":
                    continue
                fo = hirq.field_of(c["r"], NO_T)
                if not fo or fo[1] != "states":
                    continue
                if c["m"] == "push":
                    pushes.append((fn, c))
                elif c["m"] not in READ:
                    other.append((fn, c))
        ctx.floor("R04.10", "push sites on a `states` table in the reader", len(pushes), 2)
        ctx.ob("R04.10", "reader|state tables are append-only", not other, line_of(other[0][1]) if other else "",
               "; ".join("%s: .states.%s(..)" % (fn.path, c["m"]) for fn, c in other) or "only push and reading methods")
    ctx.guard("R04.10", r10)



def wire_arm(a):
    p = a["pat"]
    if p.get("k") in ("pts", "pstruct", "ppath"):
        return str(p["r"].get("p", "?")).split("::")[-1]
    return "_"
