"""C19 — event descriptors match by whole dot-separated token prefixes, for all names.

Decided (structural necessary conditions):
  R19.1 unit consistency (bytes vs chars) of every string position used in Transition::nameMatch,
  R19.2 shape of the match (wildcard short-circuit; prefix + (equal length | next position is '.')),
        the matched value is the event's `name`, no case folding on the descriptor path,
  R19.3 the reader's normalisation closure ('.*' and '.' stripped until neither applies), wildcard
        == events.contains("*"), who writes Transition.events/.wildcard, verbatim (de)serialisation.
Not decided: the matching relation over all names (values).
"""
from common import *
import hirq

NM = "fsm::Transition::nameMatch"
ST = "scxml_reader::ReaderState::start_transition"

# functions of std that fold case (semantic table: every one maps distinct names to one)
FOLD = {"to_lowercase", "to_uppercase", "to_ascii_lowercase", "to_ascii_uppercase", "eq_ignore_ascii_case",
        "make_ascii_lowercase", "make_ascii_uppercase"}

# iterator adaptors over a string and the unit their positions are counted in
ITER_UNIT = {"chars": "chars", "char_indices": "chars", "bytes": "bytes"}
# positional consumers of such an iterator: argument 0 is a position in the iterator's unit
ITER_SINKS = {"nth", "skip", "take", "nth_back"}
# str methods whose integer argument is a byte offset
STR_BYTE_SINKS = {"split_at", "split_at_checked", "is_char_boundary", "get", "get_unchecked", "split_at_mut", "floor_char_boundary"}
# Option<usize>-returning searches and the unit of the found position
FIND_UNIT = {"find": "bytes", "rfind": "bytes"}
CMP = {"Eq", "Ne", "Lt", "Le", "Gt", "Ge"}


# ------------------------------------------------------------------------------------------------
# small structural helpers (local to this table)
# ------------------------------------------------------------------------------------------------

def is_str_method(n, name=None):
    p = n.get("p") or ""
    if n.get("k") != "mcall":
        return False
    if name is not None and n["m"] != name:
        return False
    return "impl str>::" in p or p.startswith("std::string::String::") or p.startswith("alloc::string::String::")


def some_payload(fn, b):
    """If local b is bound by a `Some(b)` pattern (if let / while let / match arm): the matched expression."""
    info = fn.bindings().get(b)
    if not info or info["from"] not in ("iflet", "match"):
        return None
    d = info.get("destruct") or ()
    if len(d) != 1 or not str(d[0][0]).endswith("Some") or d[0][1] != 0:
        return None
    return info.get("init") if info["from"] == "iflet" else info.get("scrutinee")


def resolve(fn, n, depth=6):
    """Follows `&`, `*`, casts, single-assignment lets; returns the defining expression."""
    while depth > 0:
        n = peel(n, NO_T)
        b = local_of(n, NO_T)
        if b is None:
            return n
        d = hirq.single_def(fn, b)
        if d is None:
            return n
        n = d
        depth -= 1
    return n


def unit_of(fn, e, depth=6):
    """'bytes' | 'chars' | 'const' | 'mixed' | None for an integer expression."""
    if depth <= 0:
        return None
    n = resolve(fn, e)
    k = n.get("k")
    if k == "lit" and "int" in n["v"]:
        return "const"
    if k == "mcall":
        m = n["m"]
        r = peel(n["r"], NO_T)
        if m == "len":
            if is_str_method(n):
                return "bytes"
            rr = resolve(fn, r)
            if rr.get("k") == "mcall" and rr["m"] in ("as_bytes", "into_bytes", "bytes") and is_str_method(rr):
                return "bytes"
            return None
        if m == "len_utf8":
            return "bytes"
        if m == "count":
            rr = resolve(fn, r)
            if rr.get("k") == "mcall" and rr["m"] in ITER_UNIT and is_str_method(rr):
                return ITER_UNIT[rr["m"]]
            return None
        return None
    if k == "bin" and n["op"] in ("Add", "Sub"):
        a, b = unit_of(fn, n["l"], depth - 1), unit_of(fn, n["r"], depth - 1)
        if a is None or b is None:
            return None
        if a == "const":
            return b
        if b == "const":
            return a
        return a if a == b else "mixed"
    b = local_of(n, NO_T)
    if b is not None:
        src = some_payload(fn, b)
        if src is not None:
            s = resolve(fn, src)
            if s.get("k") == "mcall" and s["m"] in FIND_UNIT and is_str_method(s):
                return FIND_UNIT[s["m"]]
            if s.get("k") == "mcall" and s["m"] == "position":
                rr = resolve(fn, s["r"])
                if rr.get("k") == "mcall" and rr["m"] in ITER_UNIT and is_str_method(rr):
                    return ITER_UNIT[rr["m"]]
    return None


def range_bounds(n):
    """Bound expressions of a range literal `a..b`, `a..`, `..b`, `a..=b` (HIR struct / call)."""
    n = peel(n, NO_T)
    if n.get("k") == "struct" and "::ops::Range" in (n["r"].get("p", "") if isinstance(n.get("r"), dict) else ""):
        return [f[1] for f in n["f"]]
    if n.get("k") == "call" and "RangeInclusive" in (n.get("p") or ""):
        return list(n["a"])
    return None


def is_strish(ty):
    t = (ty or "").replace("&mut ", "").replace("&", "").strip()
    return t in ("str", "std::string::String", "alloc::string::String")


def position_sinks(fn):
    """[(node, what, index expr, unit required)] — every place where an integer addresses a position of a string."""
    out = []
    for n in fn.walk():
        k = n.get("k")
        if k == "mcall":
            m = n["m"]
            if m in ITER_SINKS and n["a"]:
                rr = resolve(fn, n["r"])
                if rr.get("k") == "mcall" and rr["m"] in ITER_UNIT and is_str_method(rr):
                    out.append((n, "%s().%s" % (rr["m"], m), n["a"][0], ITER_UNIT[rr["m"]]))
            elif m in STR_BYTE_SINKS and n["a"] and is_str_method(n):
                rb = range_bounds(n["a"][0])
                for x in (rb if rb is not None else [n["a"][0]]):
                    out.append((n, "str.%s" % m, x, "bytes"))
            elif m in ("get", "get_unchecked") and n["a"]:
                rr = resolve(fn, n["r"])
                if rr.get("k") == "mcall" and rr["m"] == "as_bytes" and is_str_method(rr):
                    rb = range_bounds(n["a"][0])
                    for x in (rb if rb is not None else [n["a"][0]]):
                        out.append((n, "as_bytes().%s" % m, x, "bytes"))
        elif k == "index":
            base = resolve(fn, n["e"])
            from_bytes = base.get("k") == "mcall" and base["m"] == "as_bytes" and is_str_method(base)
            if is_strish(n.get("bty")) or from_bytes:
                rb = range_bounds(n["i"])
                for x in (rb if rb is not None else [n["i"]]):
                    out.append((n, "as_bytes()[..]" if from_bytes else "str[..]", x, "bytes"))
    return out


def dnf(cond, pol):
    """Disjunctive normal form of a condition under a polarity: list of conjunctions [(atom, pol)]."""
    n = cond
    while n.get("k") == "block" and not n["st"] and "tail" in n:
        n = n["tail"]
    k = n.get("k")
    if k == "un" and n["op"] == "Not":
        return dnf(n["e"], not pol)
    if k == "bin" and n["op"] in ("And", "Or"):
        conj = (n["op"] == "And") == pol
        l, r = dnf(n["l"], pol), dnf(n["r"], pol)
        if conj:
            return [a + b for a in l for b in r]
        return l + r
    if k == "mcall" and n["m"] == "any" and pol and len(n["a"]) == 1:
        # `xs.iter().any(|x| body)` is true exactly when body is true for some x: the disjuncts of body (x is classified through
        # the closure parameter, see `which`)
        cl = peel(n["a"][0], NO_T)
        if cl.get("k") == "closure":
            return dnf(cl["body"], True)
    return [[(n, pol)]]


def result_leaves(fn):
    """Expressions whose value becomes the function's result: tail positions (through blocks, if, match)
    and the operands of `return` outside closures."""
    out = []

    def tails(n):
        k = n.get("k")
        if k == "block":
            if "tail" in n:
                tails(n["tail"])
        elif k == "if":
            tails(n["t"])
            if "e" in n:
                tails(n["e"])
        elif k == "match":
            for a in n["arms"]:
                tails(a["body"])
        elif k == "ret":
            pass
        else:
            out.append(n)
    tails(fn.hir)
    for r in fn.nodes("ret"):
        if "e" in r and hirq.enclosing_closure(fn, r) is None:
            tails(r["e"])
    return out


def region_fold_calls(F, fn, roots):
    """Case-folding calls inside the HIR regions `roots` of fn and in every in-crate function reachable from
    calls made inside those regions. Returns [(where, description)]."""
    hits = []
    callees = set()
    for root in roots:
        for n in hirq.walk(root):
            if n.get("k") in ("call", "mcall") and n.get("p"):
                last = n["p"].split("::")[-1]
                if last in FOLD:
                    hits.append((line_of(n), "%s in %s" % (n["p"], fn.path)))
                callees.add(n["p"])
            if n.get("k") == "closure":
                callees.add(n["p"])
    cg = F.callgraph
    local_roots = [c for c in callees if c in cg.local and c != fn.path]
    seen = cg.reachable(local_roots)
    for p in sorted(seen):
        g = F.fns_matching(p)
        for e in cg.edges.get(p, ()):
            if e["callee"].split("::")[-1] in FOLD:
                hits.append(("%s:%d" % (e["s"][6], e["s"][3]), "%s called by %s (reached from %s)" % (e["callee"], p, fn.path)))
    return hits


# ------------------------------------------------------------------------------------------------

def run(ctx):
    F = ctx.facts
    ctx.explanation = ("C19: unit lattice {bytes, chars} over every string position in Transition::nameMatch; disjunctive shape of every "
                       "true-result of nameMatch (wildcard | prefix & (equal length | '.' at the position after the descriptor)); the matched "
                       "value is Event.name; no case-folding call on the descriptor path (positive control BindingType::from_str); the reader's "
                       "suffix-stripping loop, wildcard flag, writers of Transition.events/.wildcard and their (de)serialisation")
    ctx.assumptions += [
        "std semantics of str::len (bytes), chars().count()/nth (chars), starts_with/strip_prefix/strip_suffix",
        "rustc's HIR and type resolution for the analysed configuration",
        "descriptors are normalised once by the reader (no later writer of Transition.events: checked by R19.3)",
    ]

    # -------------------------------------------------------------------------------------------- R19.1
    ctx.rule("R19.1", "in Transition::nameMatch (and the reader's start_transition) every integer that addresses a position of a string is "
                      "computed in the unit the addressing operation counts in (str::len/find = bytes; chars().count() = chars; "
                      "chars().nth/skip/take = chars; slicing, as_bytes()[i], split_at = bytes); both sides of a length comparison have the same unit")

    def r1():
        total = 0
        for fname in (NM, ST):
            fn = F.fn(fname)
            per = {}
            for node, what, idx, need in position_sinks(fn):
                u = unit_of(fn, idx)
                o = per.get(what, 0)
                per[what] = o + 1
                ok = u == need or u == "const"
                total += fname == NM
                ctx.ob("R19.1", site_key(fn, "position unit: " + what, o), ok, line_of(node),
                       "%s counts in %s; index %s is in %s" % (what, need, describe(idx), u or "an unknown unit"))
            o = 0
            for n in fn.walk():
                if n.get("k") == "bin" and n["op"] in CMP:
                    ul, ur = unit_of(fn, n["l"]), unit_of(fn, n["r"])
                    if ul in ("bytes", "chars", "mixed") and ur in ("bytes", "chars", "mixed"):
                        total += fname == NM
                        ctx.ob("R19.1", site_key(fn, "length comparison", o), ul == ur and ul != "mixed", line_of(n),
                               "%s [%s] %s %s [%s]" % (describe(n["l"]), ul, n["op"], describe(n["r"]), ur))
                        o += 1
            if fname == NM:
                # unit-free prefix removal counts as a (trivially consistent) position test
                sp = [c for c in fn.calls() if c.get("k") == "mcall" and c["m"] == "strip_prefix" and is_str_method(c)]
                for i, c in enumerate(sp):
                    total += 1
                    ctx.ob("R19.1", site_key(fn, "unit-free strip_prefix", i), True, line_of(c), "position derived by strip_prefix (no index arithmetic)")
        ctx.floor("R19.1", "string position tests in nameMatch", total, 1)
    ctx.guard("R19.1", r1)

    # -------------------------------------------------------------------------------------------- R19.2
    ctx.rule("R19.2", "nameMatch returns true exactly on: self.wildcard alone; or, for an element e of self.events, name.starts_with(e) and "
                      "(len(name) == len(e) or the character of name at position len(e) is '.'); every true-result is one of these three "
                      "kinds with no further restricting condition and all three kinds occur; every caller passes the event's `name`; "
                      "no case-folding function is called on the descriptor path (reader expression -> Transition.events -> nameMatch)")

    def r2():
        fn = F.fn(NM)
        self_b = fn.params[0]["b"]
        name_ix = 1

        def which(x):
            """'name' | 'e' | None: is x the event name parameter or an element of self.events?"""
            if param_index(fn, x) == name_ix:
                return "name"
            o = hirq.origin(fn, x)
            it = None
            if o.get("from") == "for":
                it = o["node"]["iter"]
            elif o.get("from") == "closure_param":
                call = hirq.enclosing_call_of_closure(fn, o["closure"])
                if call is not None and call.get("k") == "mcall" and call["m"] in ("any", "all", "find", "position"):
                    it = call["r"]
            if it is not None:
                base, chain = method_chain(fn, it)
                f = hirq.field_of(base, NO_T)
                if f and f[1] == "events" and local_of(f[0], NO_T) == self_b and all(m in ("iter", "iterator") for m, _ in chain):
                    return "e"
            return None

        def str_len(x):
            """(who, unit) when x is the length of name / e."""
            n = resolve(fn, x)
            if n.get("k") == "mcall" and n["m"] == "len" and is_str_method(n):
                return which(n["r"]), "bytes"
            if n.get("k") == "mcall" and n["m"] == "count":
                r = resolve(fn, n["r"])
                if r.get("k") == "mcall" and r["m"] in ("chars", "bytes") and is_str_method(r):
                    return which(r["r"]), ITER_UNIT[r["m"]]
            return None, None

        def prefix_rest(x):
            """True when x is `rest` of `Some(rest) = name.strip_prefix(e)`."""
            b = local_of(x)
            if b is None:
                return False
            src = some_payload(fn, b)
            if src is None:
                return False
            s = resolve(fn, src)
            return s.get("k") == "mcall" and s["m"] == "strip_prefix" and is_str_method(s) and which(s["r"]) == "name" and which(s["a"][0]) == "e"

        def is_dot(x):
            x = peel(x, NO_T)
            v = const_eval(x)
            return v in (".", 46)

        def char_at(x):
            """(target, index expr, is_option) when x denotes the character/byte of a string at an index."""
            n = resolve(fn, x)
            if n.get("k") == "mcall" and n["m"] == "nth" and n["a"]:
                r = resolve(fn, n["r"])
                if r.get("k") == "mcall" and r["m"] in ("chars", "bytes") and is_str_method(r):
                    return which(r["r"]), n["a"][0], True
            if n.get("k") == "mcall" and n["m"] == "get" and n["a"]:
                r = resolve(fn, n["r"])
                if r.get("k") == "mcall" and r["m"] == "as_bytes" and is_str_method(r):
                    return which(r["r"]), n["a"][0], True
            if n.get("k") == "index":
                r = resolve(fn, n["e"])
                if r.get("k") == "mcall" and r["m"] == "as_bytes" and is_str_method(r) and range_bounds(n["i"]) is None:
                    return which(r["r"]), n["i"], False
            return None

        def classify(a, pol):
            """kind of one atom under its polarity: WILD / PREFIX / LENEQ / DOT (positive facts), their negations
            '!...' (complementary branch conditions, harmless), 'BIND' (a pattern test feeding a DOT/PREFIX), or None."""
            k = a.get("k")
            f = hirq.field_of(a, NO_T)
            if f and f[1] == "wildcard" and local_of(f[0], NO_T) == self_b:
                return "WILD" if pol else "!WILD"
            if k == "mcall" and a["m"] == "starts_with" and is_str_method(a) and a["a"]:
                if which(a["r"]) == "name" and which(a["a"][0]) == "e":
                    return "PREFIX" if pol else "!PREFIX"
                if is_dot(a["a"][0]):
                    r = resolve(fn, a["r"])
                    ok = prefix_rest(a["r"])
                    if r.get("k") == "index" and which(r["e"]) == "name":
                        rb = range_bounds(r["i"])
                        ok = rb is not None and len(rb) == 1 and str_len(rb[0])[0] == "e"
                    if ok:
                        return "DOT" if pol else "!DOT"
                return None
            if k == "mcall" and a["m"] == "is_empty" and prefix_rest(a["r"]):
                return "LENEQ" if pol else "!LENEQ"
            if k == "letx":
                s = resolve(fn, a["init"])
                if s.get("k") == "mcall" and s["m"] == "strip_prefix" and is_str_method(s) and which(s["r"]) == "name" and which(s["a"][0]) == "e":
                    return "PREFIX" if pol else "!PREFIX"
                ca = char_at(a["init"])
                if ca is not None and ca[0] == "name":
                    return "BIND" if pol else "!BIND"
                return None
            if k == "bin" and a["op"] in ("Eq", "Ne"):
                eq = (a["op"] == "Eq") == pol
                (w1, u1), (w2, u2) = str_len(a["l"]), str_len(a["r"])
                if {w1, w2} == {"name", "e"}:
                    return "LENEQ" if eq else "!LENEQ"
                for x, y in ((a["l"], a["r"]), (a["r"], a["l"])):
                    y0 = peel(y, NO_T)
                    opt = y0.get("k") == "call" and (y0.get("p") or "").endswith("Some") and len(y0["a"]) == 1 and is_dot(y0["a"][0])
                    if not (is_dot(y) or opt):
                        continue
                    b = local_of(x, NO_T)
                    src = some_payload(fn, b) if b is not None else None
                    ca = char_at(src) if src is not None else char_at(x)
                    if ca is None or ca[0] != "name" or str_len(ca[1])[0] != "e":
                        continue
                    if src is None and ca[2] != opt:
                        continue
                    return "DOT" if eq else "!DOT"
            return None

        leaves = result_leaves(fn)
        kinds = set()
        n_true = 0
        n_conj = 0
        for leaf in leaves:
            v = const_eval(leaf)
            if v is False:
                continue
            ctxs = []
            for g in hirq.guards(fn, leaf):
                if g["pol"] is None:
                    ctxs.append([[(g["node"], None)]])
                else:
                    ctxs.append(dnf(g["cond"], g["pol"]))
            if v is not True:
                ctxs.append(dnf(leaf, True))
            conjs = [[]]
            for alts in ctxs:
                conjs = [c + a for c in conjs for a in alts]
            for ci, conj in enumerate(conjs):
                ks = [classify(a, p) if p is not None else None for a, p in conj]
                pos = {x for x in ks if x and not x.startswith("!")}
                unknown = [describe(a) for (a, p), x in zip(conj, ks) if x is None]
                if pos == {"WILD"}:
                    kind = "wildcard"
                elif "PREFIX" in pos and "LENEQ" in pos and "WILD" not in pos:
                    kind = "full"
                elif "PREFIX" in pos and "DOT" in pos and "WILD" not in pos:
                    kind = "token"
                else:
                    kind = None
                ok = kind is not None and not unknown
                n_conj += 1
                if ok:
                    kinds.add(kind)
                ctx.ob("R19.2", site_key(fn, "true-result %d" % n_true, ci), ok, line_of(leaf),
                       "true under {%s}%s => %s" % (", ".join(x or "?" for x in ks), (" unrecognised: %s" % unknown) if unknown else "", kind or "NOT one of wildcard / full match / token-prefix match"))
            n_true += 1
        ctx.floor("R19.2", "true-results of nameMatch (disjuncts)", n_conj, 3)
        for kd in ("wildcard", "full", "token"):
            ctx.ob("R19.2", site_key(fn, "match kind present: " + kd), kd in kinds, fn.where, "a true-result of kind '%s' %s" % (kd, "exists" if kd in kinds else "is MISSING"))
        # the false result: the function's own tail (after the loop) must be literally false
        tail = [l for l in leaves if const_eval(l) is False]
        # (or the whole result is one boolean expression, false when none of its classified disjuncts holds)
        as_expr = [l for l in leaves if const_eval(l) is None]
        ctx.ob("R19.2", site_key(fn, "falls through to false"), len(tail) >= 1 or len(as_expr) >= 1, fn.where,
               "%d literal false result(s), %d result expression(s)" % (len(tail), len(as_expr)))
        # a descriptor that does not match must not decide the result: inside the loop over the descriptors the only value that may
        # leave the function is `true` (otherwise an earlier partial-token descriptor hides a matching later one)
        nret = 0
        for lp in [l for l in fn.nodes("for")]:
            for r in hirq.walk(lp["body"]):
                if r.get("k") == "ret" and "e" in r and hirq.enclosing_closure(fn, r) is None:
                    nret += 1
                    ctx.ob("R19.2", site_key(fn, "only `true` leaves the descriptor loop", nret), const_eval(r["e"]) is True, line_of(r),
                           "return %s inside the loop over the descriptors" % describe(r["e"]))
            for b in hirq.walk(lp["body"]):
                if b.get("k") == "break" and "e" in b:
                    nret += 1
                    ctx.ob("R19.2", site_key(fn, "only `true` leaves the descriptor loop", nret), const_eval(b["e"]) is True, line_of(b),
                           "break with value %s inside the loop over the descriptors" % describe(b["e"]))

        # callers pass Event.name
        ncall = 0
        for caller in F.fn_list:
            if caller.hir is None:
                continue
            for i, c in enumerate(caller.calls(NM)):
                ncall += 1
                arg = c["a"][0]
                f = hirq.field_of(arg)
                ok = bool(f) and f[1] == "name" and owner_in_type(peel(arg).get("bty", ""), "Event")
                ctx.ob("R19.2", site_key(caller, "nameMatch(event.name)", i), ok, line_of(c), "argument %s" % describe(arg))
                hits = region_fold_calls(F, caller, [arg])
                ctx.ob("R19.2", site_key(caller, "no case folding of the event name", i), not hits, line_of(c), "; ".join("%s @%s" % (d, w) for w, d in hits) or "0 folding calls")
        ctx.floor("R19.2", "callers of nameMatch", ncall, 1)

        # no case folding: nameMatch, and the reader expressions that define Transition.events / .wildcard
        hits = region_fold_calls(F, fn, [fn.hir])
        ctx.ob("R19.2", site_key(fn, "no case folding"), not hits, fn.where, "; ".join("%s @%s" % (d, w) for w, d in hits) or "0 folding calls in nameMatch and its callees")
        st = F.fn(ST)
        roots = []
        for owner_field in ("events", "wildcard"):
            for g, n, kind, meth, par in mutations_of_field(F, "Transition", owner_field):
                if g is st and par.get("k") == "assign":
                    roots.append(par["r"])
        ctx.floor("R19.2", "reader expressions defining Transition.events/.wildcard", len(roots), 2)
        hits = region_fold_calls(F, st, roots)
        ctx.ob("R19.2", site_key(st, "no case folding of descriptors"), not hits, st.where, "; ".join("%s @%s" % (d, w) for w, d in hits) or "0 folding calls")
        # positive control: the query does find folding where it exists
        bt = F.fn("<fsm::BindingType as std::str::FromStr>::from_str")
        ctl = region_fold_calls(F, bt, [bt.hir])
        ctx.floor("R19.2", "positive control: folding calls seen in BindingType::from_str", len(ctl), 1)
    ctx.guard("R19.2", r2)

    # -------------------------------------------------------------------------------------------- R19.3
    ctx.rule("R19.3", "start_transition: Transition.events = attr[event].split_whitespace().map(strip).collect(), where strip returns its "
                      "argument after removing the suffixes '.*' and '.' (exactly these two) inside a loop that repeats after every successful "
                      "removal; Transition.wildcard = events.contains(\"*\") evaluated after events is set; only the reader and the deserializer "
                      "write these fields; the deserializer pushes read_string() verbatim and reads wildcard with the mask the writer uses")

    def r3():
        st = F.fn(ST)
        ev_as = [(n, par) for g, n, kind, meth, par in mutations_of_field(F, "Transition", "events") if g is st]
        wc_as = [(n, par) for g, n, kind, meth, par in mutations_of_field(F, "Transition", "wildcard") if g is st]
        ctx.exact("R19.3", "assignments of Transition.events in start_transition", len(ev_as), 1)
        ctx.exact("R19.3", "assignments of Transition.wildcard in start_transition", len(wc_as), 1)
        for fieldnode, asg in ev_as:
            ok = asg.get("k") == "assign"
            base, chain = method_chain(st, asg["r"]) if ok else (None, [])
            # continue through `if let Some(x) = <chain>` / `let x = <chain>`
            hops = 0
            while ok and hops < 3:
                b = local_of(base, NO_T)
                src = some_payload(st, b) if b is not None else None
                if src is None:
                    break
                b2, c2 = method_chain(st, src)
                base, chain = b2, c2 + chain
                hops += 1
            names = [m for m, _ in chain]
            core_names = [m for m in names if m not in ("unwrap", "expect", "as_str", "unwrap_or_default")]
            gets = [n for m, n in chain if m == "get"]
            key = const_eval(gets[0]["a"][0], F) if gets else None
            attr_ok = bool(gets) and param_index(st, base) == 1 and key == "event"
            shape_ok = core_names in (["get", "split_whitespace", "map", "collect"], ["get", "split_ascii_whitespace", "map", "collect"])
            ctx.ob("R19.3", site_key(st, "events = attr[event].split_whitespace().map(..).collect()"), ok and attr_ok and shape_ok, line_of(asg),
                   "chain %s over attribute %r of %s" % (".".join(names), key, describe(base)))
            maps = [n for m, n in chain if m == "map"]
            if not maps:
                continue
            cl = peel(maps[0]["a"][0], NO_T)
            if cl.get("k") != "closure":
                ctx.ob("R19.3", site_key(st, "normalising closure"), False, line_of(maps[0]), "map argument is not a closure literal")
                continue
            pb = cl["params"][0].get("b")
            # result of the closure
            outs = []

            def tails(n):
                if n.get("k") == "block":
                    if "tail" in n:
                        tails(n["tail"])
                elif n.get("k") == "if":
                    tails(n["t"])
                    if "e" in n:
                        tails(n["e"])
                else:
                    outs.append(n)
            tails(cl["body"])
            outs += [r["e"] for r in hirq.walk(cl["body"]) if r.get("k") == "ret" and "e" in r]
            rts = {local_of(o) for o in outs}
            rt = next(iter(rts)) if len(rts) == 1 else None
            init_ok = False
            if rt is not None:
                if rt == pb:
                    init_ok = True
                else:
                    info = st.bindings().get(rt, {})
                    init_ok = info.get("from") == "let" and info.get("init") is not None and local_of(info["init"]) == pb
            ctx.ob("R19.3", site_key(st, "closure returns the stripped copy of its argument"), rt is not None and init_ok, line_of(cl),
                   "result %s; starts as the closure parameter: %s" % ([describe(o) for o in outs], init_ok))
            if rt is None:
                continue
            asgs = [a for a in st.assignments_to(rt) if any(x is cl for x in st.ancestors(a))]
            sufs = []
            for i, a in enumerate(asgs):
                b = local_of(a["r"], NO_T)
                src = some_payload(st, b) if b is not None else None
                s = resolve(st, src) if src is not None else {}
                suf = None
                if s.get("k") == "mcall" and s["m"] == "strip_suffix" and is_str_method(s) and local_of(s["r"]) == rt:
                    suf = const_eval(s["a"][0], F)
                sufs.append(suf)
                ctx.ob("R19.3", site_key(st, "strip step", i), suf in (".*", "."), line_of(a), "%s = payload of %s (suffix %r)" % (describe(a["l"]), describe(s) if s else "?", suf))
                # repeats after a successful removal
                loops = [l for l in hirq.enclosing_loops(st, a) if any(x is cl for x in st.ancestors(l))]
                rep = False
                why = "not inside a loop"
                if loops:
                    l = loops[0]
                    if l.get("k") == "while":
                        cond = l["cond"]
                        while cond.get("k") == "block" and not cond["st"] and "tail" in cond:
                            cond = cond["tail"]
                        if cond.get("k") == "letx" and src is not None and cond is st.bindings()[b].get("node"):
                            rep, why = True, "while-let on the removal itself"
                        else:
                            fb = local_of(cond, NO_T)
                            blk = st.parent(a)
                            sets = [x for x in (blk.get("st", []) if blk is not None and blk.get("k") == "block" else [])
                                    if x.get("k") == "assign" and local_of(x["l"], NO_T) == fb and fb is not None]
                            rep = bool(sets) and all(const_eval(x["r"]) is True for x in sets)
                            why = "loop flag %s set to true next to the removal: %s" % (describe(cond), rep)
                    else:
                        why = "loop form %s not recognised" % l.get("k")
                ctx.ob("R19.3", site_key(st, "removal repeats until neither suffix applies", i), rep, line_of(a), why)
            ctx.ob("R19.3", site_key(st, "suffixes removed are exactly '.*' and '.'"), sorted(x or "?" for x in sufs) == sorted([".*", "."]), line_of(cl),
                   "suffixes: %s" % sufs)
            # wildcard after events
            idx = hirq.order_index(st)
            for wnode, wasg in wc_as:
                r = peel(wasg["r"], NO_T) if wasg.get("k") == "assign" else {}
                okw = r.get("k") == "mcall" and r["m"] == "contains" and not is_str_method(r)
                recv = hirq.field_of(r["r"], NO_T) if okw else None
                tloc = local_of(hirq.field_of(asg["l"], NO_T)[0], NO_T)
                okw = okw and bool(recv) and recv[1] == "events" and local_of(recv[0], NO_T) == tloc
                star = const_eval(peel(r["a"][0]), F) if okw else None
                okw = okw and star == "*" and idx[id(wasg)] > idx[id(asg)]
                ctx.ob("R19.3", site_key(st, "wildcard = events.contains(\"*\") after events"), okw, line_of(wasg),
                       "wildcard := %s" % (describe(wasg["r"]) if wasg.get("k") == "assign" else "?"))

        # who writes the two fields
        allowed = (ST, "serializer::fsm_reader::FsmReader::read_transition")
        for field in ("events", "wildcard"):
            seen = {}
            for g, n, kind, meth, par in mutations_of_field(F, "Transition", field):
                owner = g.path if g.kind != "Closure" else g.parent_path
                seen[owner] = seen.get(owner, 0) + 1
                ok = any(path_matches(owner, a) for a in allowed)
                ctx.ob("R19.3", "%s|writes Transition.%s|%d" % (owner, field, seen[owner] - 1), ok, line_of(n), "%s writes Transition.%s (%s)" % (owner, field, meth or kind))
            ctx.floor("R19.3", "writers of Transition." + field, len(seen), 1)

        # deserializer / serializer
        if F.has_fn("serializer::fsm_reader::FsmReader::read_transition"):
            rd = F.fn("serializer::fsm_reader::FsmReader::read_transition")
            wr = F.fn("serializer::fsm_writer::FsmWriter::write_transition")
            pushes = [(n, par) for g, n, kind, meth, par in mutations_of_field(F, "Transition", "events") if g is rd]
            ctx.exact("R19.3", "events writes in read_transition", len(pushes), 1)
            for n, par in pushes:
                ok = par.get("k") == "mcall" and par["m"] == "push" and peel(par["a"][0], NO_T).get("k") == "mcall" and peel(par["a"][0], NO_T)["m"] == "read_string"
                ctx.ob("R19.3", site_key(rd, "events.push(read_string())"), ok, line_of(par), "pushes %s" % (describe(par["a"][0]) if par.get("a") else "?"))
            rmask = None
            for g, n, kind, meth, par in mutations_of_field(F, "Transition", "wildcard"):
                if g is rd and par.get("k") == "assign":
                    r = peel(par["r"], NO_T)
                    if r.get("k") == "bin" and r["op"] == "Ne" and const_eval(r["r"]) == 0:
                        a = peel(r["l"], NO_T)
                        if a.get("k") == "bin" and a["op"] == "BitAnd":
                            rmask = const_eval(a["r"], F)
            wmask = None
            wstr = False
            for n in wr.walk():
                if n.get("k") == "if" and "e" in n:
                    f = hirq.field_of(n["c"], NO_T)
                    if f and f[1] == "wildcard":
                        t, e = only_stmt_call(n["t"]), only_stmt_call(n["e"])
                        if t is not None and e is not None and const_eval(e, F) == 0:
                            wmask = const_eval(t, F)
            for c in wr.calls("write_str"):
                lp = hirq.loop_var_of(wr, c["a"][0])
                if lp is not None:
                    f = hirq.field_of(lp["iter"], NO_T) or hirq.field_of(peel(lp["iter"]), NO_T)
                    wstr = wstr or bool(f and f[1] == "events")
            ctx.ob("R19.3", site_key(rd, "wildcard flag mask agrees with the writer"), rmask is not None and rmask == wmask and rmask & (rmask - 1) == 0, rd.where,
                   "reader mask %s, writer mask %s" % (rmask, wmask))
            ctx.ob("R19.3", site_key(wr, "writes every descriptor verbatim"), wstr, wr.where, "write_str(e) for e in transition.events: %s" % wstr)
    ctx.guard("R19.3", r3)
