"""Partial evaluator over the resolved HIR (shared by the C10 / C15 / C16 rule tables).

Purpose: *table extraction*.  Several properties are about a table that the code spells as a
`match` / `if` cascade (operator -> priority, character -> operator, target string -> queue,
unit -> multiplier).  Instead of matching the shape of that cascade, the rules ask the evaluator
two questions about the compiler's resolved tree, for one representative key at a time:

  * `PE.ev(expr)`      the value of a side-effect free expression under an environment
                       (locals -> values); anything not understood is `UNK`, never a guess;
  * `PE.reach(node)`   whether the control conditions enclosing `node` (if / else / early exit /
                       match arm, first-match semantics) hold: True, False or None (= unknown).

Nothing of the analysed crate is executed: the evaluator folds literals, enum constructors,
constants, comparisons, `match` on patterns and a few pure std string methods, and it inlines
in-crate helper functions (`is_stop`, `is_whitespace`, ...) to a small depth.  Loops are never
unrolled; a statement the evaluator cannot follow makes the affected locals `UNK`.
"""
import re

import hirq
from facts import AnchorMissing, path_matches, const_eval


class _Unk:
    def __repr__(self):
        return "UNK"

    def __bool__(self):
        raise TypeError("truth value of UNK")


UNK = _Unk()
NOHOOK = object()


def known(v):
    return v is not UNK


def norm_variant(p):
    last = p.split("::")[-1]
    if last in ("Some", "None", "Ok", "Err"):
        return last
    return p


class Enum:
    """Value of an enum variant / tuple-struct constructor: resolved def path + arguments."""
    __slots__ = ("path", "args")

    def __init__(self, path, args=()):
        self.path = norm_variant(path)
        self.args = tuple(args)

    @property
    def name(self):
        return self.path.split("::")[-1]

    def __eq__(self, o):
        return isinstance(o, Enum) and o.path == self.path and o.args == self.args

    def __hash__(self):
        return hash((self.path, self.args))

    def __repr__(self):
        return self.name + ("(%s)" % ",".join(repr(a) for a in self.args) if self.args else "")


class RangeFrom:
    def __init__(self, start):
        self.start = start


class Ret(Exception):
    def __init__(self, value):
        self.value = value


class Diverge(Exception):
    pass


class Imprecise(Exception):
    pass


_PLIT = [
    (re.compile(r"^Char\('(.*)'\)$", re.S), lambda m: _unescape(m.group(1))),
    (re.compile(r'^Str\("(.*)", \w+\)$', re.S), lambda m: _unescape(m.group(1))),
    (re.compile(r"^Int\(Pu128\((\d+)\), .*\)$"), lambda m: int(m.group(1))),
    (re.compile(r"^Bool\((true|false)\)$"), lambda m: m.group(1) == "true"),
]


def _unescape(s):
    if "\\" not in s:
        return s
    try:
        return bytes(s, "utf-8").decode("unicode_escape")
    except Exception:
        return s


def plit_value(p):
    """Value of a literal pattern (the driver prints rustc's LitKind)."""
    v = p["v"]
    for rx, f in _PLIT:
        m = rx.match(v)
        if m:
            x = f(m)
            if p.get("neg") and isinstance(x, (int, float)):
                x = -x
            return x
    return UNK


TRANSPARENT0 = {"clone", "to_string", "to_owned", "as_str", "as_ref", "deref", "deref_mut", "borrow", "into", "as_mut", "as_slice"}


class PE:
    def __init__(self, F, fn, env=None, hook=None, depth=3):
        self.F = F
        self.fn = fn
        self.env = dict(env or {})
        self.hook = hook
        self.depth = depth
        self._busy = set()

    # ------------------------------------------------------------------ locals
    def local(self, b):
        if b in self.env:
            return self.env[b]
        if b in self._busy or self.fn is None:
            return UNK
        info = self.fn.bindings().get(b)
        if info is None:
            return UNK
        if self.fn.assignments_to(b):
            return UNK  # re-assigned local: only an explicit environment entry can give it a value
        self._busy.add(b)
        try:
            src = info["from"]
            if src == "let" and info.get("init") is not None:
                val = self.ev(info["init"])
                pat = info["node"]["pat"]
            elif src == "iflet":
                val = self.ev(info["init"])
                pat = info["node"]["pat"]
            elif src == "match":
                val = self.ev(info["scrutinee"])
                pat = info["arm"]["pat"]
            else:
                return UNK
            binds = {}
            self.match_pat(pat, val, binds)
            return binds.get(b, UNK)
        finally:
            self._busy.discard(b)

    # ------------------------------------------------------------------ patterns
    def match_pat(self, pat, val, binds):
        """True / False / None (unknown). Bindings are recorded (UNK when the value is unknown)."""
        k = pat.get("k")
        if k == "wild":
            return True
        if k == "bind":
            binds[pat["b"]] = val
            if "sub" in pat:
                return self.match_pat(pat["sub"], val, binds)
            return True
        if k == "plit":
            pv = plit_value(pat)
            if not known(pv) or not known(val):
                return None
            return pv == val
        if k == "ppath":
            r = pat["r"]
            if r.get("k") == "def" and r.get("dk", "").startswith("Ctor"):
                if isinstance(val, Enum):
                    return val.path == norm_variant(r["p"]) and not val.args
                return None if not known(val) else False
            if r.get("k") == "def" and r.get("dk", "").startswith(("Const", "AssocConst", "Static")):
                cv = self.const(r["p"])
                if not known(cv) or not known(val):
                    return None
                return cv == val
            return None
        if k == "pts":
            if isinstance(val, Enum):
                if val.path != norm_variant(pat["r"]["p"]) or len(val.args) != len(pat["a"]):
                    self._bind_unknown(pat, binds)
                    return False
                res = True
                for sp, sv in zip(pat["a"], val.args):
                    r = self.match_pat(sp, sv, binds)
                    if r is False:
                        res = False
                    elif r is None and res is True:
                        res = None
                return res
            self._bind_unknown(pat, binds)
            return None if not known(val) else False
        if k == "ptup":
            if isinstance(val, tuple) and len(val) == len(pat["a"]):
                res = True
                for sp, sv in zip(pat["a"], val):
                    r = self.match_pat(sp, sv, binds)
                    if r is False:
                        res = False
                    elif r is None and res is True:
                        res = None
                return res
            self._bind_unknown(pat, binds)
            return None
        if k == "por":
            res = False
            for sp in pat["a"]:
                r = self.match_pat(sp, val, binds)
                if r is True:
                    return True
                if r is None:
                    res = None
            return res
        self._bind_unknown(pat, binds)
        return None

    def _bind_unknown(self, pat, binds):
        st = [pat]
        while st:
            p = st.pop()
            if not isinstance(p, dict):
                continue
            if p.get("k") == "bind":
                binds.setdefault(p["b"], UNK)
            for key in ("a",):
                for x in p.get(key, []) or []:
                    st.append(x)
            if "sub" in p:
                st.append(p["sub"])
            if p.get("k") == "pstruct":
                for f in p["f"]:
                    st.append(f[1])

    def select_arm(self, m, val):
        """First-match semantics. Returns (arm, binds) or (None, None) when undecidable."""
        for arm in m["arms"]:
            binds = {}
            r = self.match_pat(arm["pat"], val, binds)
            if r is True and "guard" in arm:
                sub = PE(self.F, self.fn, dict(self.env, **binds), self.hook, self.depth)
                g = sub.ev(arm["guard"])
                r = None if not known(g) else bool(g)
            if r is True:
                return arm, binds
            if r is None:
                return None, None
        return None, None

    # ------------------------------------------------------------------ constants
    def const(self, path):
        c = self.F.consts.get(path)
        if c is None:
            return UNK
        return PE(self.F, None, {}, None, 1).ev(c["init"])

    # ------------------------------------------------------------------ expressions
    def ev(self, n):
        if self.hook is not None:
            h = self.hook(n, self)
            if h is not NOHOOK:
                return h
        k = n.get("k")
        f = getattr(self, "_ev_" + k, None) if k else None
        if f is None:
            return UNK
        return f(n)

    def _ev_lit(self, n):
        v = n["v"]
        if "str" in v:
            return v["str"]
        if "int" in v:
            return int(v["int"])
        if "bool" in v:
            return bool(v["bool"])
        if "char" in v:
            return v["char"]
        if "float" in v:
            try:
                return float(v["float"])
            except ValueError:
                return UNK
        return UNK

    def _ev_path(self, n):
        r = n["r"]
        if r.get("k") == "local":
            return self.local(r["b"])
        if r.get("k") == "def":
            dk = r.get("dk", "")
            if dk.startswith("Ctor") and "Const" in dk:
                return Enum(r["p"])
            if dk.startswith(("Const", "AssocConst", "Static")):
                lim = const_eval(n)   # i64::MIN, u32::MAX, ...
                if lim is not None:
                    return lim
                return self.const(r["p"])
        return UNK

    def _ev_ref(self, n):
        return self.ev(n["e"])

    def _ev_cast(self, n):
        v = self.ev(n["e"])
        ty = n.get("ty", "")
        if isinstance(v, bool):
            return int(v) if ty not in ("f64", "f32") else float(v)
        if isinstance(v, int) and ty in ("f64", "f32"):
            return float(v)
        if isinstance(v, float) and ty not in ("f64", "f32"):
            return UNK
        return v

    def _ev_un(self, n):
        v = self.ev(n["e"])
        op = n["op"]
        if op == "Deref":
            return v
        if not known(v):
            return UNK
        if op == "Not" and isinstance(v, bool):
            return not v
        if op == "Neg" and isinstance(v, (int, float)):
            return -v
        return UNK

    def _ev_tup(self, n):
        return tuple(self.ev(a) for a in n["a"])

    def _ev_field(self, n):
        v = self.ev(n["e"])
        if isinstance(v, tuple) and n["n"].isdigit() and int(n["n"]) < len(v):
            return v[int(n["n"])]
        return UNK

    def _ev_struct(self, n):
        p = n["r"].get("p", "") if isinstance(n.get("r"), dict) else ""
        if p.endswith("ops::RangeFrom"):
            for name, e in n["f"]:
                if name == "start":
                    return RangeFrom(self.ev(e))
        return UNK

    def _ev_bin(self, n):
        op = n["op"]
        if op in ("And", "Or"):
            l = self.ev(n["l"])
            if known(l) and isinstance(l, bool):
                if op == "And" and not l:
                    return False
                if op == "Or" and l:
                    return True
                return self.ev(n["r"])
            r = self.ev(n["r"])
            if known(r) and isinstance(r, bool):
                if op == "And" and not r:
                    return False
                if op == "Or" and r:
                    return True
            return UNK
        l, r = self.ev(n["l"]), self.ev(n["r"])
        if not known(l) or not known(r):
            return UNK
        try:
            if op == "Eq":
                return l == r
            if op == "Ne":
                return l != r
            if isinstance(l, Enum) or isinstance(r, Enum):
                return UNK
            if op == "Lt":
                return l < r
            if op == "Le":
                return l <= r
            if op == "Gt":
                return l > r
            if op == "Ge":
                return l >= r
            if op == "Add":
                return l + r
            if op == "Sub":
                return l - r
            if op == "Mul":
                return l * r
            if op == "Div" and r:
                return l / r if isinstance(l, float) or isinstance(r, float) else l // r
        except TypeError:
            return UNK
        return UNK

    def _ev_letx(self, n):
        val = self.ev(n["init"])
        binds = {}
        r = self.match_pat(n["pat"], val, binds)
        self.env.update(binds)
        return UNK if r is None else r

    def _ev_if(self, n):
        c = self.ev(n["c"])
        if not known(c):
            return UNK
        if c:
            return self.ev(n["t"])
        if "e" in n:
            return self.ev(n["e"])
        return ()

    def _ev_match(self, n):
        val = self.ev(n["e"])
        arm, binds = self.select_arm(n, val)
        if arm is None:
            return UNK
        self.env.update(binds)  # binding ids are unique per function: no need to restore
        return self.ev(arm["body"])

    def _ev_ret(self, n):
        raise Ret(self.ev(n["e"]) if "e" in n else ())

    def _ev_block(self, n):
        for s in n["st"]:
            self.stmt(s)
        if "tail" in n:
            return self.ev(n["tail"])
        return ()

    def stmt(self, s):
        k = s.get("k")
        if k == "let":
            if "init" in s:
                val = self.ev(s["init"])
                binds = {}
                self.match_pat(s["pat"], val, binds)
                self.env.update(binds)
            return
        if k in ("assign", "assignop"):
            b = hirq.local_of(s["l"], set())
            if b is not None and s["l"].get("k") == "path":
                if k == "assign":
                    self.env[b] = self.ev(s["r"])
                else:
                    cur, r = self.local(b), self.ev(s["r"])
                    op = s["op"].replace("Assign", "")
                    if known(cur) and known(r) and op in ("Add", "Sub", "Mul"):
                        self.env[b] = {"Add": cur + r, "Sub": cur - r, "Mul": cur * r}[op]
                    else:
                        self.env[b] = UNK
            return
        if k in ("for", "while", "loop"):
            self._havoc(s)
            return
        if k in ("if", "match", "block"):
            if k == "if":
                c = self.ev(s["c"])
                if not known(c):
                    self._havoc(s)
                    return
                branch = s["t"] if c else s.get("e")
                if branch is not None:
                    self.ev(branch)
                return
            if k == "match":
                val = self.ev(s["e"])
                arm, binds = self.select_arm(s, val)
                if arm is None:
                    self._havoc(s)
                    return
                self.env.update(binds)
                self.ev(arm["body"])
                return
            self.ev(s)
            return
        if k in ("call", "mcall"):
            if s.get("ty") == "!":
                raise Diverge()
            # side effects of unknown calls on locals are not modelled (locals are only written by assignment)
            return
        if k == "ret":
            self._ev_ret(s)
        # other expression statements have no effect on the environment

    def _havoc(self, s):
        """A statement whose control flow is unknown: every local it may assign becomes UNK;
        a `return` inside makes the rest of the block unknown."""
        for x in hirq.walk(s):
            kk = x.get("k")
            if kk in ("assign", "assignop"):
                b = hirq.local_of(x["l"], set())
                if b is not None:
                    self.env[b] = UNK
            elif kk == "ret" or (kk in ("call", "mcall") and x.get("ty") == "!"):
                raise Imprecise()
            elif kk == "closure":
                continue

    # ------------------------------------------------------------------ calls
    def _ev_call(self, n):
        p = n.get("p")
        f = n.get("f", {})
        dk = f.get("r", {}).get("dk", "") if f.get("k") == "path" else ""
        if p and dk.startswith("Ctor"):
            return Enum(p, [self.ev(a) for a in n["a"]])
        if p and (path_matches(p, "Box::new") or path_matches(p, "String::from") or path_matches(p, "std::hint::must_use")) and len(n["a"]) == 1:
            return self.ev(n["a"][0])
        if n.get("ty") == "!":
            raise Diverge()
        if p:
            return self._inline(p, [self.ev(a) for a in n["a"]])
        return UNK

    def _ev_mcall(self, n):
        m = n["m"]
        if n.get("ty") == "!":
            raise Diverge()
        p = n.get("p") or ""
        if p in self.F.fns and self.F.fns[p].hir is not None:
            return self._inline(p, [self.ev(n["r"])] + [self.ev(a) for a in n["a"]])
        recv = self.ev(n["r"])
        args = [self.ev(a) for a in n["a"]]
        if not n["a"] and m in TRANSPARENT0:
            return recv
        if m == "unwrap" and not n["a"]:
            if isinstance(recv, Enum) and recv.path in ("Some", "Ok") and recv.args:
                return recv.args[0]
            return UNK
        if isinstance(recv, str):
            a0 = args[0] if args else None
            if m == "starts_with" and isinstance(a0, str):
                return recv.startswith(a0)
            if m == "ends_with" and isinstance(a0, str):
                return recv.endswith(a0)
            if m in ("eq", "ne") and isinstance(a0, str):
                return (recv == a0) == (m == "eq")
            if m == "len" and not args:
                return len(recv.encode("utf-8"))
            if m == "is_empty" and not args:
                return recv == ""
            if m == "to_lowercase" and not args:
                return recv.lower()
            if m == "to_uppercase" and not args:
                return recv.upper()
            if m == "get" and isinstance(a0, RangeFrom) and isinstance(a0.start, int):
                b = recv.encode("utf-8")
                if a0.start <= len(b):
                    try:
                        return Enum("Some", [b[a0.start:].decode("utf-8")])
                    except UnicodeDecodeError:
                        return Enum("None")
                return Enum("None")
            if m == "parse" and not args and "u32" in n.get("ty", "") + n.get("p", ""):
                return Enum("Ok", [int(recv)]) if recv.isdigit() else Enum("Err", [UNK])
            if m == "is_ascii_digit" and len(recv) == 1:
                return recv.isdigit() and recv.isascii()
        if m in ("eq", "ne") and args and known(recv) and known(args[0]):
            return (recv == args[0]) == (m == "eq")
        if m in ("is_some", "is_none", "is_ok", "is_err") and isinstance(recv, Enum):
            return recv.path == {"is_some": "Some", "is_none": "None", "is_ok": "Ok", "is_err": "Err"}[m]
        # Option / Result combinators on a known variant
        if isinstance(recv, Enum) and recv.path in ("Some", "None", "Ok", "Err"):
            payload = recv.args[0] if recv.args else UNK
            if m == "ok" and not args:
                return Enum("Some", [payload]) if recv.path == "Ok" else Enum("None")
            if m == "err" and not args:
                return Enum("Some", [payload]) if recv.path == "Err" else Enum("None")
            if m in ("and_then", "map", "is_some_and", "is_ok_and") and len(n["a"]) == 1:
                if recv.path in ("None", "Err"):
                    return False if m.startswith("is_") else recv
                v = self._apply_closure(n["a"][0], [payload])
                if m == "map":
                    return Enum(recv.path, [v])
                return v
            if m in ("unwrap_or", "unwrap_or_default", "unwrap_or_else"):
                if recv.path in ("Some", "Ok"):
                    return payload
                return args[0] if (m == "unwrap_or" and args) else UNK
            if m == "ok_or" and args:
                return Enum("Ok", [payload]) if recv.path == "Some" else Enum("Err", [args[0]])
        return UNK

    def _apply_closure(self, e, argv):
        """Value of the closure expression e applied to argv (captured locals come from the current environment)."""
        cl = hirq.peel(e, set())
        if cl.get("k") != "closure" or len(cl.get("params", [])) != len(argv):
            return UNK
        saved = dict(self.env)
        try:
            for pat, v in zip(cl["params"], argv):
                binds = {}
                self.match_pat(pat, v, binds)
                self.env.update(binds)
            try:
                return self.ev(cl["body"])
            except Ret as r:
                return r.value
        finally:
            self.env = saved

    def _inline(self, p, argv):
        callee = self.F.fns.get(p)
        if callee is None or callee.hir is None or self.depth <= 0 or callee.kind == "Closure":
            return UNK
        env = {}
        for pat, v in zip(callee.params, argv):
            binds = {}
            PE(self.F, callee, {}, None, 0).match_pat(pat, v, binds)
            env.update(binds)
        return PE(self.F, callee, env, self.hook, self.depth - 1).run()

    def run(self):
        """Value of the function body (UNK when the evaluator loses track)."""
        try:
            return self.ev(self.fn.hir)
        except Ret as r:
            return r.value
        except (Diverge, Imprecise):
            return UNK

    # ------------------------------------------------------------------ reachability of a node
    def reach(self, node, upto=None):
        """Do the control conditions between `upto` (default: function entry) and `node` hold?
        True / False / None. Pattern variables of the arms on the way are bound in self.env."""
        gs = list(reversed(hirq.guards(self.fn, node)))
        if upto is not None:
            outer = {(id(g["node"]), g["how"]) for g in hirq.guards(self.fn, upto)}
            gs = [g for g in gs if (id(g["node"]), g["how"]) not in outer and g["node"] is not upto]
        res = True
        for g in gs:
            how = g["how"]
            if how == "arm":
                val = self.ev(g["cond"])
                arm, binds = self.select_arm(g["node"], val)
                if arm is None:
                    res = None
                    b2 = {}
                    self._bind_unknown(g["arm"]["pat"], b2)
                    for b, v in b2.items():
                        self.env.setdefault(b, v)
                    continue
                if arm is not g["arm"]:
                    return False
                self.env.update(binds)
            else:
                try:
                    c = self.ev(g["cond"])
                except (Diverge, Imprecise, Ret):
                    c = UNK
                if not known(c) or not isinstance(c, bool):
                    res = None
                    continue
                if c != g["pol"]:
                    return False
        return res


# ------------------------------------------------------------------------------------------
# format_args! templates
# ------------------------------------------------------------------------------------------

def format_pieces(n):
    """For the `Arguments::new(<template>, &args)` call produced by format!/write!: the list of
    pieces, str for literal text and None for a plain `{}` placeholder. Fails closed on anything else."""
    tmpl = n["a"][0]
    v = tmpl.get("v", {}) if tmpl.get("k") == "lit" else {}
    m = re.match(r"^ByteStr\(\[([\d, ]*)\], \w+\)$", v.get("other", ""))
    if not m:
        raise AnchorMissing("format template is not a byte-string literal")
    bs = [int(x) for x in m.group(1).split(",") if x.strip()]
    out = []
    i = 0
    while i < len(bs):
        b = bs[i]
        if b == 0:
            break
        if b < 128:
            out.append(bytes(bs[i + 1:i + 1 + b]).decode("utf-8", "replace"))
            i += 1 + b
        elif b == 192:
            out.append(None)
            i += 1
        else:
            raise AnchorMissing("format template opcode %d not understood" % b)
    return out
