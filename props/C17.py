"""C17 — concurrent sessions never deadlock on the platform's internal locks (engine LOCK).

Decided: absence of feasible lock-order cycles between the platform's Mutex classes, absence of
unguarded same-class nesting, no blocking wait while a lock is held (except the external queue's
receiver lock at recv). Not decided: fairness/progress beyond lock cycles; host-supplied code.
"""
import itertools
import json
import os
from collections import defaultdict

from common import *
import hirq
import extract
from locks import LockAnalysis, cls

SESSION_SCOPED = {"G", "R"}          # one instance per session
# everything else (E, P, A, F, T, V, ...) is treated as potentially shared by all threads

ROLE_SINGLE_PER_SESSION = {"session", "timer"}   # one thread of this role per session; all other roles: any number of threads

HOST_API = ["fsm::start_fsm", "fsm::start_fsm_with_data", "fsm::start_fsm_with_data_and_finish_mode"]


def role_roots(F):
    """Thread roles and their syntactic roots."""
    roots = defaultdict(set)
    cg = F.callgraph
    for caller, es in cg.edges.items():
        for e in es:
            if e["kind"] != "closure":
                continue
            via = e["via"]
            if "thread::Builder::spawn" in via or "std::thread::spawn" in via:
                if cg.body_of.get(caller, caller) == "fsm::start_fsm_with_data_and_finish_mode":
                    roots["session"].add(e["callee"])
                else:
                    roots["thread:" + cg.body_of.get(caller, caller)].add(e["callee"])
            elif "schedule_with_delay" in via or path_matches(via, "fsm::Fsm::schedule"):
                roots["timer"].add(e["callee"])
            elif "tokio" in via and "spawn" in via:
                roots["tokio"].add(e["callee"])
    for fn in F.fn_list:
        p = fn.path
        if fn.kind == "Closure":
            continue
        if p.startswith("event_io_processor::http_event_io_processor::rocket_"):
            roots["http"].add(p)
        if fn.vis == "pub" and (p in HOST_API or p.startswith("fsm_executor::FsmExecutor::") or p.startswith("test::")
                                or p.startswith("fsm::ScxmlSession::")):
            roots["host"].add(p)
    return roots


class Provenance:
    """own / new / foreign classification of GlobalData lock acquisitions."""

    def __init__(self, F):
        self.F = F
        dm_impls = set()
        for titem, impls in F.impls.items():
            if titem.startswith("datamodel::Datamodel::"):
                for ip in impls:
                    if ip.startswith("<") and " as " in ip:
                        dm_impls.add(ip[1:ip.index(" as ")])
        self.datamodel_types = dm_impls
        self._param_cache = {}

    def own_carrier_type(self, ty):
        t = ty.replace("&mut ", "").replace("&", "").strip()
        if t in self.datamodel_types:
            return True
        # a struct all of whose constructions take their GlobalDataArc from an own expression
        return self._carrier_by_construction(t)

    def _carrier_by_construction(self, t, depth=0):
        key = ("carrier", t)
        if key in self._param_cache:
            return self._param_cache[key]
        self._param_cache[key] = False
        lits = []
        for fn in self.F.fn_list:
            if fn.hir is None:
                continue
            for n in fn.walk():
                if n.get("k") == "struct" and n.get("ty", "").strip() == t:
                    lits.append((fn, n))
        ok = bool(lits)
        for fn, n in lits:
            for name, e in n["f"]:
                if "GlobalDataArc" in self._ty_of(e) or "Mutex<fsm::GlobalData>" in self._ty_of(e):
                    if self.kind(fn, e, depth + 1) != "own":
                        ok = False
        self._param_cache[key] = ok
        return ok

    @staticmethod
    def _ty_of(e):
        e = peel(e, {"clone"})
        return e.get("ty", "")

    def kind(self, fn, recv, depth=0):
        """Classify the expression the Mutex<GlobalData> is reached through."""
        if depth > 4:
            return "foreign"
        n = peel(recv, {"clone", "as_ref", "deref", "borrow"})
        k = n.get("k")
        if k == "mcall" and n["m"] in ("global", "global_s") and ("datamodel::Datamodel::" in n["p"] or " as datamodel::Datamodel>::" in n["p"]):
            return "own"
        if k == "field":
            base = n["e"]
            bty = n.get("bty", "")
            if self.own_carrier_type(bty):
                return "own"
            # field of a freshly created session
            bk = self.kind_of_session_expr(fn, base, depth + 1)
            if bk:
                return bk
            return "foreign"
        if k == "path" and n["r"].get("k") == "local":
            b = n["r"]["b"]
            info = fn.bindings().get(b)
            if info is None:
                return "foreign"
            if info["from"] == "param":
                return self.param_kind(fn, info["index"], depth + 1)
            d = hirq.single_def(fn, b)
            if d is not None:
                return self.kind(fn, d, depth + 1)
            return "foreign"
        return "foreign"

    def kind_of_session_expr(self, fn, e, depth):
        """'new' if e is a local bound to a ScxmlSession created in this function."""
        n = peel(e, {"clone"})
        if n.get("k") == "path" and n["r"].get("k") == "local":
            d = hirq.single_def(fn, n["r"]["b"])
            if d is not None:
                d = peel(d, {"clone"})
                if d.get("k") in ("call", "mcall") and d.get("p") and "ScxmlSession::new" in d["p"]:
                    return "new"
        return None

    def param_kind(self, fn, index, depth):
        """own iff every caller passes an own expression for parameter `index`."""
        key = (fn.path, index)
        if key in self._param_cache:
            return self._param_cache[key]
        self._param_cache[key] = "foreign"  # recursion guard
        F = self.F
        # which trait items does fn implement?
        names = {fn.path}
        for titem, impls in F.impls.items():
            if fn.path in impls:
                names.add(titem)
        has_self = fn.params and fn.params[0].get("n") == "self"
        sites = []
        for caller in F.fn_list:
            if caller.hir is None:
                continue
            for c in caller.walk():
                if c.get("k") in ("call", "mcall") and c.get("p") in names:
                    sites.append((caller, c))
        if not sites:
            res = "foreign"
        else:
            res = "own"
            for caller, c in sites:
                ai = index - 1 if (c["k"] == "mcall" and has_self) else index
                if ai < 0 or ai >= len(c["a"]):
                    res = "foreign"
                    break
                if self.kind(caller, c["a"][ai], depth + 1) != "own":
                    res = "foreign"
                    break
        self._param_cache[key] = res
        return res


def acquisition_kinds(F, L, prov):
    """(fn path, block) -> own/new/foreign for every direct GlobalData acquisition."""
    out = {}
    for fn in F.fn_list:
        direct = [d for d in L.direct.get(fn.path, ()) if d[0] == "G"]
        if not direct:
            continue
        host = fn
        if fn.hir is None and fn.parent_path:
            host = F.fns.get(fn.parent_path)
        hir_locks = {}
        if host is not None and host.hir is not None:
            for n in host.walk():
                if n.get("k") == "mcall" and n["m"] in ("lock", "try_lock") and "Mutex" in (n.get("p") or ""):
                    hir_locks[tuple(n["s"][:3])] = n
        for c, m, bi, s, held in direct:
            n = hir_locks.get(tuple(s[:3]))
            out[(fn.path, bi)] = prov.kind(host, n["r"]) if n is not None else "foreign"
    return out


def run(ctx):
    F = ctx.facts
    L = LockAnalysis(F)
    prov = Provenance(F)
    ctx.explanation = ("C17: lock-order graph over the Mutex classes (by guarded type) built from a MIR held-guard dataflow and "
                       "interprocedural acquisition summaries; cycles checked for feasibility with thread roles and own/new/foreign "
                       "provenance of per-session locks; same-class nesting; blocking calls under a lock")
    ctx.assumptions += [
        "std::sync::Mutex is the only blocking synchronisation primitive besides channel recv / thread join (channels are unbounded: Sender::send never blocks)",
        "dyn calls resolve within the crate; Actions and EventIOProcessors supplied by the host are outside the analysis",
        "one session thread and at most one timer thread exist per session; any number of host / HTTP threads",
        "the GlobalData Arc handed to a session's data model is that session's own instance",
    ]
    roots = role_roots(F)
    role_fns = L.roles(roots)
    ctx.extra["lock_classes"] = sorted({c for (c, m) in {(d[0], d[1]) for v in L.direct.values() for d in v}})
    ctx.extra["direct_acquisitions"] = sum(len(v) for v in L.direct.values())
    ctx.extra["order_edges"] = {"%s->%s[%s]" % k: len(v) for k, v in sorted(L.edges.items())}
    ctx.extra["thread_roles"] = {r: len(fs) for r, fs in role_fns.items()}
    ctx.floor("R17.1", "direct Mutex acquisitions", ctx.extra["direct_acquisitions"], {"default": 90, "minimal": 85, "all": 90})
    ctx.floor("R17.1", "session-thread role functions", len(role_fns.get("session", ())), 300)
    ctx.floor("R17.1", "timer role functions", len(role_fns.get("timer", ())), 5)

    # ---- initialisation phase of a session: the calls of Fsm::interpret that can run only before any executable content
    # (hence before the session has armed any timer). Functions reachable only through them get the role "session-init".
    interp = F.fn("fsm::Fsm::interpret")
    send_exec = [f.path for f in F.fn_list if f.path.endswith("::execute") and "SendParameters" in f.path and f.kind != "Closure"]
    rev = defaultdict(set)
    for p in L.nodes:
        for e in F.callgraph.callees(p):
            rev[e["callee"]].add(p)
    can_send = set(send_exec)
    stack = list(send_exec)
    while stack:
        x = stack.pop()
        for y in rev.get(x, ()):
            if y not in can_send:
                can_send.add(y)
                stack.append(y)
    ctx.floor("R17.1", "SendParameters::execute found", len(send_exec), 1)
    cfg = interp.cfg
    content_blocks = {e["block"] for e in F.callgraph.callees(interp.path) if e["callee"] in can_send}
    after_content = set()
    for b in content_blocks:
        for s in cfg.succ[b]:
            after_content |= cfg.reachable_from(s)
    init_edges = [e for e in F.callgraph.callees(interp.path) if e["block"] not in after_content and e["block"] not in content_blocks]
    init_callees = {e["callee"] for e in init_edges if e["callee"] in F.callgraph.local}
    init_fns = set(F.callgraph.reachable(init_callees).keys())
    # session role without the init-phase edges
    init_edge_ids = {id(e) for e in init_edges}
    seen = set()
    stack = list(roots.get("session", ()))
    seen.update(stack)
    while stack:
        x = stack.pop()
        for e in F.callgraph.callees(x):
            if id(e) in init_edge_ids:
                continue
            c = e["callee"]
            if c in F.callgraph.local and c not in seen:
                seen.add(c)
                stack.append(c)
    role_fns["session"] = seen
    role_fns["session-init"] = init_fns - seen
    ctx.extra["session_init_only_functions"] = len(role_fns["session-init"])
    ctx.floor("R17.1", "content-capable calls in Fsm::interpret", len(content_blocks), 2)

    akind = acquisition_kinds(F, L, prov)

    # held_kinds[node] = provenance kinds of the GlobalData guards that may be held while node runs:
    # its own direct acquisitions, plus (when a guard is handed in by reference) whatever its callers hold -- fixpoint.
    cg = F.callgraph
    held_kinds = {}
    for node in L.nodes:
        body = cg.body_of[node]
        held_kinds[node] = {akind[(body, bi)] for (c, m, bi, s, h) in L.direct.get(body, ()) if c == "G" and (body, bi) in akind}
    changed = True
    while changed:
        changed = False
        for node in L.nodes:
            ks = held_kinds[node]
            if not ks:
                continue
            body = cg.body_of[node]
            fl = L.flow[body]
            for e in cg.callees(node):
                c = e["callee"]
                if c not in held_kinds:
                    continue
                if "G" not in fl.held_classes_at_call(e["block"]):
                    continue
                cb = cg.body_of[c]
                if "G" not in L.flow[cb].entry_classes:
                    continue
                if not ks <= held_kinds[c]:
                    held_kinds[c] = held_kinds[c] | ks
                    changed = True

    def roles_of(node):
        rs = {r for r, fs in role_fns.items() if node in fs}
        return rs or {"unknown"}

    def held_kind(w, x):
        """Provenance of the held lock of class x at witness w (join over the holder's own acquisitions of x;
        entry-held guards: join over the callers' -- conservatively 'own' only if every G acquisition feeding it is own)."""
        if x not in SESSION_SCOPED:
            return "na"
        if x != "G":
            return "own"
        ks = set(held_kinds.get(w.get("node", w["fn"]), ()))
        if not ks:
            return "foreign"
        if ks == {"own"}:
            return "own"
        if ks <= {"own", "new"}:
            return "new" if ks == {"new"} else "mixed"
        return "foreign"

    def acq_kind(w, c):
        if c not in SESSION_SCOPED:
            return "na"
        if c != "G":
            return "own"
        # the last element of the chain is the direct acquisition site "fn @file:line"
        last = w["chain"][-1]
        fnp = last.split(" @")[0]
        line = int(last.rsplit(":", 1)[1])
        ks = {akind.get((fnp, bi)) for (cc, m, bi, s, h) in L.direct.get(fnp, ()) if cc == "G" and s[3] == line}
        ks.discard(None)
        if ks == {"own"}:
            return "own"
        if ks == {"new"}:
            return "new"
        return "foreign"

    # ---------------------------------------------------------------- R17.1 order cycles
    ctx.rule("R17.1", "no feasible cycle in the lock-order graph: a closed walk of blocking edges is a violation when its edges can be executed "
                      "by pairwise distinct threads on the same lock instances (thread roles + own/new/foreign provenance of per-session locks)")

    def post_join(w):
        """the acquisition in the holder is dominated by a JoinHandle::join (the owning session thread has ended)."""
        fn = F.fns.get(w["fn"])
        if fn is None or "block" not in w:
            return False
        joins = [b for b, t in fn.mir_calls("JoinHandle::join")]
        return any(fn.cfg.dominates(j, w["block"]) for j in joins)

    # group witnesses of each blocking edge by signature
    sigs = defaultdict(lambda: defaultdict(list))   # (x,c) -> sig -> [w]
    unknown_holders = set()
    for (x, c, m), ws in L.edges.items():
        if m != "block" or x == c:
            continue
        for w in ws:
            if post_join(w):
                ctx.ob("R17.1", "post-join|%s->%s|%s" % (x, c, w["fn"]), True, w["where"], "edge discharged: acquisition dominated by JoinHandle::join", kind="discharge")
                continue
            rs = roles_of(w.get("node", w["fn"]))
            if rs == {"unknown"}:
                # not reachable from any platform thread root or host API inside the crate (e.g. the stand-alone expression
                # evaluator API): not a platform thread; counted, not judged
                unknown_holders.add(w["fn"])
                continue
            sig = (frozenset(rs), held_kind(w, x), acq_kind(w, c), w["fn"])
            sigs[(x, c)][sig].append(w)
    ctx.extra["holders_outside_all_roles"] = sorted(unknown_holders)
    ctx.ob("R17.1", "role coverage of lock-holding functions", len(unknown_holders) <= 6, "",
           "%d lock-holding function(s) are reachable from no thread role: %s" % (len(unknown_holders), sorted(unknown_holders)), kind="floor")
    if True:
        pass
    graph = defaultdict(set)
    for (x, c) in sigs:
        graph[x].add(c)
    cycles = simple_cycles(graph)
    ctx.extra["class_cycles"] = [">".join(c) for c in cycles]
    n_feasible = 0
    feasible_sets = []
    cycles.sort(key=len)
    for cyc in cycles:
        if any(fs < set(cyc) for fs in feasible_sets):
            continue   # a shorter feasible cycle over a subset of these classes is already reported
        edges = [(cyc[i], cyc[(i + 1) % len(cyc)]) for i in range(len(cyc))]
        cname = ">".join(cyc + [cyc[0]])
        # per (edge, holder): is there a feasible combination containing it?
        verdict = {}
        for combo in itertools.product(*[list(sigs[e].items()) for e in edges]):
            ss = [s for s, _ in combo]
            feasible, why = cycle_feasible(edges, ss)
            for e, (s, wl) in zip(edges, combo):
                k = (e, s[3])
                partner = "; ".join("%s->%s held in %s (%s)" % (e2[0], e2[1], short_fn(s2[3]), wl2[0]["where"])
                                    for e2, (s2, wl2) in zip(edges, combo) if e2 != e)
                if feasible and not verdict.get(k, (False,))[0]:
                    verdict[k] = (True, s, wl[0], partner)
                elif k not in verdict:
                    verdict[k] = (False, s, wl[0], why)
        any_feasible = False
        for (e, holder), (feas, s, w, info) in sorted(verdict.items()):
            key = "cycle %s|%s->%s|%s" % (cname, e[0], e[1], holder)
            chain = " -> ".join(x.split(" @")[0].split("::")[-1] + "@" + x.rsplit(":", 1)[1] for x in w["chain"][1:]) or "direct"
            if feas:
                any_feasible = True
                n_feasible += 1
                ctx.ob("R17.1", key, False, w["where"],
                       "FEASIBLE lock-order cycle %s: %s holds %s and acquires %s (roles %s; via %s) while another thread can do: %s" % (
                           cname, short_fn(holder), e[0], e[1], "/".join(sorted(s[0])), chain, info))
            else:
                ctx.ob("R17.1", key, True, w["where"], "edge %s->%s in %s (roles %s, held=%s, acq=%s): cycle %s infeasible: %s" % (
                    e[0], e[1], short_fn(holder), "/".join(sorted(s[0])), s[1], s[2], cname, info))
        if any_feasible:
            feasible_sets.append(set(cyc))
    ctx.extra["feasible_cycle_edges"] = n_feasible

    # ---------------------------------------------------------------- R17.2 same-class nesting
    ctx.rule("R17.2", "a lock of class X is acquired (blocking) while another X is held only when dominated by an Arc::ptr_eq test on the two "
                      "arcs, when the inner value is reached by structural descent into the held one, or for a freshly created instance "
                      "(audited table tables/lock_nesting.json, one reason per entry)")
    nest = load_table("lock_nesting.json")
    audited = {(e["class"], e["holder"], e["via"]): e for e in nest.get("entries", [])}
    counts = defaultdict(int)
    for (x, c, m), ws in sorted(L.edges.items()):
        if x != c or m != "block":
            continue
        seen = set()
        for w in ws:
            fn = F.fns.get(w["fn"])
            via = w["chain"][1].split(" @")[0] if len(w["chain"]) > 1 else "direct"
            k0 = (w["fn"], via)
            ordinal = counts[k0] = counts[k0] + 1 if (w["fn"], via, w["where"]) not in seen else counts[k0]
            if (w["fn"], via, w["where"]) in seen:
                continue
            seen.add((w["fn"], via, w["where"]))
            key = "nest %s|%s|via %s|%d" % (x, w["fn"], via, ordinal)
            # a ptr_eq test on the two arcs discharges only the lock taken on exactly these arcs (directly or through the
            # DataArc::lock accessor); it says nothing about callees that go on to lock members of the values
            immediate = w.get("direct") or via == "datamodel::DataArc::lock"
            if fn is not None and immediate and ptr_eq_guarded(fn, w.get("block")):
                ctx.ob("R17.2", key, True, w["where"], "dominated by the false branch of Arc::ptr_eq")
                continue
            if fn is not None and not immediate and ptr_eq_guarded(fn, w.get("block"), branch="true"):
                ctx.ob("R17.2", key, True, w["where"], "both operands are the same arc (true branch of Arc::ptr_eq): members are pairwise identical arcs, "
                       "so member-wise callees short-circuit on ptr_eq")
                continue
            if x == "G" and acq_kind(w, "G") == "new":
                ctx.ob("R17.2", key, True, w["where"], "the inner GlobalData is the fresh instance of the session being created (ScxmlSession::new*)")
                continue
            a = audited.get((x, w["fn"], via))
            if a is not None:
                ctx.ob("R17.2", key, True, w["where"], "audited (%s): %s" % (a["class_of_reason"], a["reason"]), kind="audited")
                continue
            ctx.ob("R17.2", key, False, w["where"], "%s acquired while %s is held, without ptr_eq / try_lock guard: %s" % (
                c, x, " -> ".join(w["chain"])))
    ctx.floor("R17.2", "same-class nesting sites examined", sum(counts.values()), {"default": 10, "minimal": 8, "all": 10})

    # ---------------------------------------------------------------- R17.3 blocking under a lock
    ctx.rule("R17.3", "no blocking wait (channel recv, thread join, sleep, network or file I/O, XML parsing) while a platform lock is held, "
                      "except the external queue's receiver lock R at recv")
    n = 0
    io_under_lock = []
    for (x, what), ws in sorted(L.held_blocking.items()):
        seen = set()
        for w in ws:
            k = (w["fn"], what)
            if k in seen:
                continue
            seen.add(k)
            if what not in ("channel recv", "thread join", "sleep", "block_on"):
                # slow I/O under a lock delays other threads but is not a wait on another platform thread: reported under C12 (R12.3)
                io_under_lock.append("%s under %s in %s (%s)" % (what, x, w["fn"], w["where"]))
                continue
            n += 1
            ok = (x == "R" and what == "channel recv")
            ctx.ob("R17.3", "blocking %s under %s|%s" % (what, x, w["fn"]), ok, w["where"],
                   ("allowed: the receiver lock exists to serialise recv" if ok else "%s while holding %s: %s" % (what, x, " -> ".join(w["chain"]))))
    ctx.floor("R17.3", "blocking-under-lock sites examined", n, 2)
    ctx.extra["io_under_lock_informational"] = io_under_lock


def load_table(name):
    p = os.path.join(extract.VERIF, "tables", name)
    if not os.path.exists(p):
        return {}
    with open(p) as fh:
        return json.load(fh)


def ptr_eq_guarded(fn, block, branch="false"):
    """block is dominated by the false (arcs differ) / true (same arc) successor of a switch on Arc::ptr_eq's result."""
    if block is None:
        return False
    cfg = fn.cfg
    for b, t in fn.mir_calls("Arc::ptr_eq"):
        d = t["d"] if isinstance(t["d"], int) else t["d"][0]
        # find switch on d
        for sb, blk in enumerate(fn.blocks):
            tt = blk["t"]
            if tt["k"] != "switch":
                continue
            op = tt["op"]
            pl = op.get("cp", op.get("mv"))
            if pl is None:
                continue
            l = pl if isinstance(pl, int) else pl[0]
            if l != d:
                continue
            false_t = [tb for v, tb in tt["vals"] if v == "0"] if branch == "false" else [tt["else"]]
            for ft in false_t:
                if cfg.dominates(ft, block) and block not in (sb,):
                    return True
    return False


def simple_cycles(graph):
    """All simple cycles of a small directed graph (canonical rotation, no duplicates)."""
    out = set()
    nodes = sorted(set(graph) | {y for ys in graph.values() for y in ys})

    def dfs(start, cur, path):
        for nx in sorted(graph.get(cur, ())):
            if nx == start:
                i = path.index(min(path))
                out.add(tuple(path[i:] + path[:i]))
            elif nx not in path and nx > start:
                dfs(start, nx, path + [nx])
    for s in nodes:
        dfs(s, s, [s])
    return [list(c) for c in sorted(out)]


def cycle_feasible(edges, sigs):
    """edges[k] = (L_k, L_k+1) executed by thread t_k holding L_k and waiting for L_k+1.
    sigs[k] = (roles, held_kind, acq_kind, fn). Returns (feasible, reason-if-not)."""
    n = len(edges)
    sessions = range(n)
    role_choices = [sorted(s[0]) for s in sigs]
    for roles in itertools.product(*role_choices):
        for sess in itertools.product(sessions, repeat=n):
            # distinct threads
            ok = True
            for i in range(n):
                for j in range(i + 1, n):
                    ri, rj = roles[i], roles[j]
                    if sess[i] == sess[j]:
                        # "session-init" is the session thread itself, at a time when its timer thread has nothing armed
                        ti = "session" if ri == "session-init" else ri
                        tj = "session" if rj == "session-init" else rj
                        if ti == tj and ti in ROLE_SINGLE_PER_SESSION:
                            ok = False
                        if {ri, rj} == {"session-init", "timer"}:
                            ok = False
            if not ok:
                continue
            # instance agreement: lock L_{k+1} acquired by t_k is the one held by t_{k+1}
            for k in range(n):
                lock = edges[k][1]
                if lock not in SESSION_SCOPED:
                    continue
                a = sigs[k][2]
                h = sigs[(k + 1) % n][1]
                j = (k + 1) % n
                if a == "own" and h == "own":
                    if sess[k] != sess[j]:
                        ok = False
                elif a == "own" and h in ("new",):
                    ok = False       # nobody but the creator can hold a fresh instance; its own threads do not exist yet
                elif a == "new":
                    ok = False       # acquiring a fresh instance cannot wait (unless a foreign holder: handled below)
                    if h == "foreign":
                        ok = True
                elif a == "own" and h == "mixed":
                    if sess[k] != sess[j]:
                        ok = False
                # a == foreign / h == foreign: any instance
                if not ok:
                    break
            if ok:
                return True, ""
    return False, "no assignment of distinct threads to the edges agrees on the per-session lock instances"


def short_fn(p):
    if "{closure" in p:
        base = p.split("::{closure")[0]
        return short_fn(base) + "::{closure}"
    p = p.replace("<", "").replace(">", "")
    parts = p.split("::")
    return "::".join(parts[-2:])
