"""C05 — the binary .rfsm round trip preserves the model (engine WIRE).

Decided (structure): W1 every writer function and its reader sibling define the same wire grammar (same operations, same fields,
same presence guards through the flag table, same loops); W2 every field of a persisted struct is written and read (or exempt with a
reason); W3 the primitive integer/string/boolean tables of protocol writer and reader agree; W4 every value handed to
write_type_and_value fits the bit budget of its type nibble; W5 the reader narrows no integer below the type the writer wrote.
Not decided: trace equality after reload (argument: identical persisted model + C02 determinism); values of Data (delegated to
to_string/parse).
"""
import re
from collections import defaultdict

from common import *
import hirq
import wire
from wire import Op

FW = "serializer::fsm_writer::FsmWriter::"
FR = "serializer::fsm_reader::FsmReader::"

PAIRS = ["", "state", "transition", "invoke", "done_data", "parameters", "parameter", "common_content", "string_list", "data_map",
         "state_id", "doc_id", "transition_id", "executable_content_id",
         "executable_content_if", "executable_content_expression", "executable_content_script", "executable_content_log",
         "executable_content_for_each", "executable_content_send", "executable_content_raise", "executable_content_cancel",
         "executable_content_assign"]

# persisted struct -> (writer function, reader function, exempt fields with reasons)
STRUCTS = {
    "fsm::Fsm": ("", {
        "tracer": "runtime object", "version": "set by the reader, informational", "file": "load-time bookkeeping", "timer": "runtime object",
        "generate_id_count": "runtime counter", "caller_invoke_id": "set by the executor at start", "parent_session_id": "set by the executor at start",
        "statesNames": "used only while parsing XML", "expression_cache": "runtime cache"}),
    "fsm::State": ("state", {"isFirstEntry": "runtime flag (late binding), true after load like after parsing"}),
    "fsm::Transition": ("transition", {}),
    "fsm::Invoke": ("invoke", {}),
    "fsm::DoneData": ("done_data", {}),
    "fsm::CommonContent": ("common_content", {}),
    "fsm::Parameter": ("parameter", {}),
    "executable_content::If": ("executable_content_if", {}),
    "executable_content::Expression": ("executable_content_expression", {}),
    "executable_content::Script": ("executable_content_script", {}),
    "executable_content::Log": ("executable_content_log", {}),
    "executable_content::ForEach": ("executable_content_for_each", {}),
    "executable_content::SendParameters": ("executable_content_send", {}),
    "executable_content::Raise": ("executable_content_raise", {}),
    "executable_content::Cancel": ("executable_content_cancel", {}),
    "executable_content::Assign": ("executable_content_assign", {}),
}


def ctor_fields_factory(F):
    cache = {}

    def ctor_fields(path):
        """positional parameter -> struct field, for `T::new(..)`-style constructors (one level)."""
        if path in cache:
            return cache[path]
        cache[path] = None
        fn = F.fns.get(path)
        if fn is None or fn.hir is None or not path.endswith("::new"):
            return None
        lits = [n for n in fn.walk() if n.get("k") == "struct"]
        if len(lits) != 1:
            return None
        params = [p.get("b") for p in fn.params]
        res = [None] * len(params)
        for name, e in lits[0]["f"]:
            for i, b in enumerate(params):
                if b is not None and hirq.mentions_local(e, b):
                    res[i] = name
        cache[path] = res
        return res
    return ctor_fields


def kind_class(k):
    return "uint" if k in wire.UINT_BITS else k


def normalise_writer(ops):
    out = []
    for o in ops:
        g = set(o.guards)
        if o.kind == "bool" and o.lit is True:
            pres = sorted(x for x in g if x.startswith("some:"))
            if pres:
                out.append(Op("bool", "<presence:%s>" % pres[0][5:], g - {pres[0]}, o.loops, o.where))
                continue
        if o.kind == "bool" and o.lit is False and any(x.startswith("none:") for x in g):
            continue
        if o.kind == "bool" and isinstance(o.field, str) and o.field.endswith(".is_some"):
            out.append(Op("bool", "<presence:%s>" % o.field[:-8], g, o.loops, o.where))
            continue
        if o.kind == "usize" and o.lit == 0 and any(x.startswith("none:") for x in g):
            continue
        # Option<Vec> written as its length: the presence guard of the very collection is implied by the length
        for x in list(g):
            if x.startswith("some:"):
                f = x[5:]
                if o.field in (f + ".len", "<elem:%s>" % f, "<key:%s>" % f) or f in o.loops:
                    g.discard(x)
        out.append(Op(o.kind, o.field, g, o.loops, o.where, o.lit, o.bits))
    return out


def normalise_reader(ops, flag_table):
    ops = [Op(o.kind, o.field, set(o.guards), o.loops, o.where, o.lit, o.bits) for o in ops]
    problems = []
    # presence booleans
    for idx, o in enumerate(ops):
        if o.kind == "bool" and o.field == "<presence>":
            tag = "bool@%d" % idx
            guarded = [x for x in ops if tag in x.guards]
            f = None
            if guarded:
                f = guarded[0].field
            o.field = "<presence:%s>" % (f if f else "?")
            for x in ops:
                if tag in x.guards:
                    x.guards = (set(x.guards) - {tag}) | {"some:%s" % f}
                if ("nobool@%d" % idx) in x.guards:
                    x.guards = (set(x.guards) - {"nobool@%d" % idx}) | {"none:%s" % f}
    for idx, o in enumerate(ops):
        g = set()
        for x in o.guards:
            if x.startswith("lennonzero@"):
                k = int(x.split("@")[1])
                base = ops[k].field[:-4] if ops[k].field.endswith(".len") else ops[k].field
                if base in o.loops or o.field in ("<elem:%s>" % base, "<key:%s>" % base):
                    continue
                g.add("nonempty:" + base)
            elif x.startswith("lenzero@"):
                k = int(x.split("@")[1])
                base = ops[k].field[:-4] if ops[k].field.endswith(".len") else ops[k].field
                g.add("empty:" + base)
            elif x.startswith("flag:"):
                m = x[5:]
                if m in flag_table:
                    g.add(flag_table[m])
                else:
                    problems.append("reader tests flag %s which the writer never sets (%s)" % (m, o.where))
                    g.add(x)
            else:
                g.add(x)
        o.guards = frozenset(g)
    return ops, problems


def compare(ctx, rule, name, wops, rops, wfn, rfn):
    n = max(len(wops), len(rops))
    ok_all = True
    for i in range(n):
        w = wops[i] if i < len(wops) else None
        r = rops[i] if i < len(rops) else None
        key = "%s|op %d" % (name or "fsm", i)
        if w is None or r is None:
            ctx.ob(rule, key, False, (w or r).where, "only the %s has a %d-th operation: %r" % ("writer" if w else "reader", i, w or r))
            ok_all = False
            continue
        diffs = []
        if kind_class(w.kind) != kind_class(r.kind):
            diffs.append("kind %s vs %s" % (w.kind, r.kind))
        if w.field != r.field:
            diffs.append("field %s vs %s" % (w.field, r.field))
        if frozenset(w.guards) != frozenset(r.guards):
            diffs.append("presence guard %s vs %s" % (sorted(w.guards), sorted(r.guards)))
        if tuple(w.loops) != tuple(r.loops):
            diffs.append("loop %s vs %s" % (w.loops, r.loops))
        ok = not diffs
        ok_all = ok_all and ok
        ctx.ob(rule, key, ok, "%s / %s" % (w.where, r.where), ("writer %r == reader %r" % (w, r)) if ok else
               "writer %r and reader %r disagree: %s" % (w, r, "; ".join(diffs)))
    return ok_all


def run(ctx):
    F = ctx.facts
    ctx.explanation = ("C05: wire-grammar agreement of the 23 FsmWriter/FsmReader pairs and the executable-content / Data dispatch tables, field "
                       "coverage of 16 persisted structs, primitive encoding tables, bit budgets, integer widths")
    ctx.assumptions += ["Data values round-trip through to_string()/parse() (not analysed)",
                        "behavioural clause by argument only: identical persisted model + determinism (C02) => identical traces"]
    ctor_fields = ctor_fields_factory(F)
    walks = {}

    # ---------------------------------------------------------------- W1
    ctx.rule("W1", "each FsmWriter function and its FsmReader sibling define the same wire grammar: same operation kinds in the same order, the same "
                   "model field on both sides, loop for loop, and presence guards that correspond through the writer's flag expression")

    def w1():
        for name in PAIRS:
            wfn = F.fn(FW + ("write_" + name if name else "write"))
            rfn = F.fn(FR + ("read_" + name if name else "read"))
            ww = wire.WriterWalk(wfn)
            rw = wire.ReaderWalk(rfn, ctor_fields)
            walks[name] = (ww, rw)
            wops = normalise_writer(ww.ops)
            rops, problems = normalise_reader(rw.ops, ww.flag_table)
            if name == "" and wops and rops:
                # the image starts with the format version string, which the reader compares against its own constant: both constants
                # must be the same text; the comparison guards everything the reader does afterwards
                wc = str(wops[0].field)[2:] if str(wops[0].field).startswith("?:") else None
                tag = None
                for g in rops[1].guards if len(rops) > 1 else ():
                    m = re.match(r"\?:\((\w+) Eq (\w+)\)", g)
                    if m:
                        tag = (g, m.group(2))
                okv = False
                if wc and tag:
                    try:
                        okv = F.const_value(wc) == F.const_value(tag[1]) and isinstance(F.const_value(wc), str)
                    except AnchorMissing:
                        okv = False
                ctx.ob("W1", "fsm|format version handshake", okv, wfn.where, "writer emits %s, reader accepts only %s: %s" % (
                    wc, tag[1] if tag else None, "same text" if okv else "DIFFERENT or not found"))
                if okv:
                    wops[0] = Op("string", "<format-version>", wops[0].guards, wops[0].loops, wops[0].where)
                    rops[0] = Op("string", "<format-version>", rops[0].guards, rops[0].loops, rops[0].where)
                    for o in rops:
                        o.guards = frozenset(set(o.guards) - {tag[0]})
            for p in problems:
                ctx.ob("W1", "%s|flag table" % (name or "fsm"), False, rfn.where, p)
            if "?" in ww.flag_table:
                ctx.ob("W1", "%s|flag expression" % (name or "fsm"), False, wfn.where, ww.flag_table["?"])
            compare(ctx, "W1", name, wops, rops, wfn, rfn)
            unresolved = [o for o in rops if "<local:" in str(o.field) or "<new:" in str(o.field)]
            ctx.ob("W1", "%s|every value read reaches the model" % (name or "fsm"), not unresolved, rfn.where,
                   "values read into locals that never reach a field: %r" % unresolved if unresolved else "all %d reads stored" % len(rops))
            # flag bits that are pure booleans / the low-bits enum: writer table vs reader assignments
            for mask, pred in sorted(ww.flag_table.items()):
                if mask == "?":
                    continue
                if pred.startswith("true:"):
                    fld = pred[5:]
                    got = rw.flag_assign.get(mask)
                    ctx.ob("W1", "%s|flag %s" % (name or "fsm", mask), got == fld, rfn.where,
                           "writer sets %s from %s; reader assigns (flags & %s) to %s" % (mask, fld, mask, got))
                elif mask == "<base>":
                    got = [f for m, f in rw.flag_assign.items() if f == pred]
                    ctx.ob("W1", "%s|flag base %s" % (name or "fsm", pred), bool(got), rfn.where,
                           "writer ORs %s.ordinal() into the flags; reader restores %s from masked flags: %s" % (pred, pred, bool(got)))
        ctx.floor("W1", "writer/reader pairs walked", len(walks), 23)
    ctx.guard("W1", w1)

    # dispatch of executable content: TYPE_* constant -> sub writer / sub reader
    def w1_dispatch():
        wfn = F.fn(FW + "write_executable_content")
        rfn = F.fn(FR + "read_executable_content")

        def table(fn, prefix):
            t = {}
            for m in fn.nodes("match"):
                for a in m["arms"]:
                    key = wire.arm_key(a["pat"])
                    if not key.startswith("TYPE_"):
                        continue
                    subs = [c["m"][len(prefix):] for c in hirq.walk(a["body"]) if c.get("k") == "mcall" and c["m"].startswith(prefix + "executable_content_")]
                    t[key] = subs[0] if len(subs) == 1 else None
            return t
        wt, rt = table(wfn, "write_"), table(rfn, "read_")
        consts = sorted(p.split("::")[-1] for p in F.consts if p.startswith("executable_content::TYPE_") and p.split("::")[-1] != "TYPE_NAMES")
        ctx.floor("W1", "executable content type constants", len(consts), 9)
        vals = {}
        for c in consts:
            v = F.const_value("executable_content::" + c)
            ctx.ob("W1", "dispatch|%s" % c, wt.get(c) is not None and wt.get(c) == rt.get(c), wfn.where,
                   "writer dispatches %s to %s, reader to %s" % (c, wt.get(c), rt.get(c)))
            ctx.ob("W1", "dispatch|%s value unique" % c, v not in vals, "", "%s = %s%s" % (c, v, (" clashes with " + vals[v]) if v in vals else ""))
            vals[v] = c
        # get_type() of each content struct returns its own constant
        for sty, (pair, _ex) in STRUCTS.items():
            if not sty.startswith("executable_content::"):
                continue
            gt = [f for f in F.fn_list if f.path.startswith("<" + sty + " as ") and f.path.endswith("::get_type")]
            if not gt:
                ctx.ob("W1", "get_type|%s" % sty, False, "", "no get_type implementation found")
                continue
            ret = hirq.def_path(wire.only_value(gt[0].hir)) or ""
            const = ret.split("::")[-1]
            ctx.ob("W1", "get_type|%s" % sty.split("::")[-1], wt.get(const) == pair, gt[0].where,
                   "%s::get_type() returns %s, which the writer dispatches to %s (its own pair is %s)" % (sty.split("::")[-1], const, wt.get(const), pair))

        # Data variants: writer tag per variant vs reader variant per tag
        wd = F.fn("DefaultProtocolWriter::write_data")
        rd = F.fn("DefaultProtocolReader::read_data_value_payload")
        wtab = {}
        for m in wd.nodes("match"):
            for a in m["arms"]:
                variant = wire.arm_key(a["pat"])
                calls = [c for c in hirq.walk(a["body"]) if c.get("k") == "mcall" and c["m"].startswith("write_")]
                if not calls or calls[0]["m"] != "write_u8":
                    continue
                tag = const_eval(calls[0]["a"][0])
                wtab[variant] = (tag, [wire.PRIM_W.get(c["m"], c["m"]) for c in calls[1:]])
        rtab = {}
        for m in rd.nodes("match"):
            if wire.arm_key(m["arms"][0]["pat"]).startswith(("Int", "Ok", "Err")) and len(m["arms"]) < 5:
                continue
            for a in m["arms"]:
                if a["pat"].get("k") != "plit":
                    continue
                mt = re.search(r"Int\(Pu128\((\d+)\)", str(a["pat"]["v"]))
                tag = int(mt.group(1)) if mt else None
                calls = [c for c in hirq.walk(a["body"]) if c.get("k") == "mcall" and c["m"].startswith("read_") and hirq.local_name(c["r"]) == "self"]
                ctors = [x for x in hirq.walk(a["body"]) if x.get("k") in ("call", "path") and "datamodel::Data::" in str(x.get("p") or x.get("r", {}).get("p", ""))]
                variants = {str(x.get("p") or x["r"].get("p")).split("::")[-1] for x in ctors}
                variants.discard("Null") if len(variants) > 1 else None
                rtab[tag] = (variants, [wire.PRIM_R.get(c["m"], c["m"]) for c in calls])
        ctx.floor("W1", "Data variants in write_data", len(wtab), 10)
        for variant, (tag, kinds) in sorted(wtab.items()):
            rv = rtab.get(tag)
            ok = rv is not None and variant in rv[0] and [kind_class(k) for k in kinds] == [kind_class(k) for k in rv[1]]
            # the reader must not read an integer into fewer bits than the writer wrote it from (W4 for the variant payloads)
            narrowed = [(kw, kr) for kw, kr in zip(kinds, rv[1] if rv else ()) if kw in wire.UINT_BITS and kr in wire.UINT_BITS and
                        wire.UINT_BITS[kr] < wire.UINT_BITS[kw]]
            ctx.ob("W1", "data variant|%s" % variant, ok and not narrowed, wd.where, "writer: %s -> tag %s then %s; reader tag %s -> %s%s" % (
                variant, tag, kinds, tag, rv, ("; reader narrows %s" % narrowed) if narrowed else ""))
        # read_data reads the tag as u8 and hands it to the payload reader
        rdata = [f for f in F.fn_list if f.path.endswith("::read_data") and "DefaultProtocolReader" in f.path]
        ok = bool(rdata) and any(c.get("m") == "read_data_value_payload" for c in hirq.walk(rdata[0].hir) if c.get("k") == "mcall")
        ctx.ob("W1", "data variant|tag read", ok, rdata[0].where if rdata else "", "read_data reads the tag and dispatches on it")
    ctx.guard("W1", w1_dispatch)

    # ---------------------------------------------------------------- W2
    ctx.rule("W2", "every field of a persisted struct is written by its writer function and read by its reader function, or is exempt with a reason "
                   "(runtime-only fields)")

    def w2():
        total = 0
        for sty, (pair, exempt) in sorted(STRUCTS.items()):
            t = F.types.get(sty)
            if t is None:
                ctx.ob("W2", "struct|%s" % sty, False, "", "persisted struct %s not found" % sty, kind="anchor")
                continue
            if pair not in walks:
                continue
            ww, rw = walks[pair]
            wf = {str(o.field).split(".")[0].replace("<elem:", "").replace("<key:", "").rstrip(">") for o in ww.ops}
            wf |= {p.split(":", 1)[1].split(".")[0] for p in ww.flag_table.values() if ":" in p}
            wf |= {v for k, v in ww.flag_table.items() if k == "<base>"}
            wf |= {g.split(":", 1)[1].split(".")[0] for o in ww.ops for g in o.guards if ":" in g}
            rf = {str(o.field).split(".")[0].replace("<elem:", "").replace("<key:", "").rstrip(">") for o in rw.ops}
            rf |= set(rw.flag_assign.values())
            for fname, fty in t["variants"][0]["f"]:
                total += 1
                if fname in exempt:
                    ctx.ob("W2", "%s.%s" % (sty.split("::")[-1], fname), True, "", "exempt: " + exempt[fname], kind="exempt")
                    continue
                w_ok, r_ok = fname in wf, fname in rf
                ctx.ob("W2", "%s.%s" % (sty.split("::")[-1], fname), w_ok and r_ok, ww.fn.where,
                       "field %s of %s: written=%s read=%s" % (fname, sty, w_ok, r_ok))
        ctx.floor("W2", "fields of persisted structs", total, 80)
    ctx.guard("W2", w2)

    # ---------------------------------------------------------------- W3 / W4
    ctx.rule("W3", "primitive tables agree: the nine write_uint thresholds / type nibbles / bit widths match the nine read_type_and_size arms and their "
                   "additional-byte counts (w-4)/8; the two string length types; boolean and none constants are distinct")
    ctx.rule("W4", "every write_type_and_value(T, v, n) is dominated by a test v < 2^n (or n is the full 64-bit width)")

    def w34():
        wu = F.fn("DefaultProtocolWriter::write_uint")
        ws = F.fn("DefaultProtocolWriter::write_str")
        rt = F.fn("DefaultProtocolReader::read_type_and_size")
        # writer table: calls to write_type_and_value(CONST, value, bits) with guard value < (1 << k)
        wtab = []
        for fn in (wu, ws):
            for c in fn.calls("write_type_and_value"):
                const = (hirq.def_path(c["a"][0]) or "?").split("::")[-1]
                bits = const_eval(c["a"][2])
                bound = None
                written = local_of(hirq.resolve(fn, c["a"][1]))
                for a, pol in hirq.guard_atoms(fn, c):
                    if pol and isinstance(a, dict) and a.get("k") == "bin" and a["op"] in ("Lt", "Le"):
                        # the test must be about the value that is written (not, say, a character count next to a byte length)
                        tested = local_of(hirq.resolve(fn, a["l"]))
                        if written is None or tested != written:
                            continue
                        bv = const_eval(a["r"])
                        if isinstance(bv, int):
                            if a["op"] == "Le":
                                bv += 1      # v <= c  is  v < c + 1
                            bound = bv if bound is None else min(bound, bv)
                wtab.append((fn, c, const, bits, bound))
        ctx.floor("W3", "write_type_and_value call sites", len(wtab), 11)
        # reader table: arm CONST -> additional bytes
        rtab = {}
        for m in rt.nodes("match"):
            for a in m["arms"]:
                key = wire.arm_key(a["pat"])
                if not key.startswith("FSM_PROTOCOL_TYPE_"):
                    continue
                extra = [const_eval(c["a"][0]) for c in hirq.walk(a["body"]) if c.get("k") == "mcall" and c["m"] == "read_additional_number_bytes"]
                assigned = [hirq.def_path(x["r"]) for x in hirq.walk(a["body"]) if x.get("k") == "assign" and wire.describe_short(x["l"]).endswith("type_id")]
                rtab[key] = (extra[0] if extra else 0, [(p or "").split("::")[-1] for p in assigned])
        seen_const = set()
        for i, (fn, c, const, bits, bound) in enumerate(wtab):
            is_int = "_INT_" in const
            key = "%s|%s" % (fn.name, const)
            ordinal = sum(1 for x in seen_const if x == const)
            seen_const.add(const)
            # W4 bit budget
            fits = bits == 64 or (bound is not None and isinstance(bits, int) and bound <= (1 << bits))
            ctx.ob("W4", "%s|bit budget" % key, fits, line_of(c),
                   "write_type_and_value(%s, v, %s) under v < %s%s" % (const, bits, bound, "" if fits else ": the value can exceed the bits its encoder is given"))
            if is_int:
                r = rtab.get(const)
                mbits = re.search(r"_(\d+)BIT", const)
                nominal = int(mbits.group(1)) if mbits else None
                exp_extra = ((min(nominal, 64) - 4) + 7) // 8 if nominal else None
                okw = nominal is not None and (bits == nominal or (nominal > 64 and bits == 64))
                okr = r is not None and r[0] == exp_extra and const in r[1]
                ctx.ob("W3", "%s|width" % key, okw, line_of(c), "type %s written with %s bits" % (const, bits))
                ctx.ob("W3", "%s|reader arm" % key, okr, rt.where, "reader arm %s reads %s additional byte(s) (expected %s) and records type %s" % (
                    const, r[0] if r else None, exp_extra, r[1] if r else None))
        # thresholds strictly increasing in write_uint
        bounds = [b for fn, c, const, bits, b in wtab if fn is wu and b is not None]
        ctx.ob("W3", "write_uint|thresholds increase", bounds == sorted(bounds) and len(set(bounds)) == len(bounds), wu.where, "thresholds %s" % [hex(b) for b in bounds])
        # distinct primitive constants (same high nibble family 0x10 for bool/none is by design: they never appear in the same position)
        names = ["FSM_PROTOCOL_TYPE_BOOLEAN_TRUE", "FSM_PROTOCOL_TYPE_BOOLEAN_FALSE"]
        vals = [F.const_value("default_protocol_definitions::" + n) for n in names]
        ctx.ob("W3", "boolean constants distinct", vals[0] != vals[1], "", "TRUE=%s FALSE=%s" % tuple(vals))
        nib = defaultdict(list)
        for p, c in F.consts.items():
            n = p.split("::")[-1]
            if n.startswith("FSM_PROTOCOL_TYPE_INT_") or n.startswith("FSM_PROTOCOL_TYPE_STRING_"):
                nib[F.const_value(p)].append(n)
        dup = {v: ns for v, ns in nib.items() if len(ns) > 1}
        ctx.ob("W3", "type nibbles distinct", not dup and len(nib) >= 11, "", "%d distinct type nibbles%s" % (len(nib), (", clashes: %s" % dup) if dup else ""))
        # string length: the reader's buffer slice is bounded by the 12-bit length
        ctx.ob("W3", "string types both handled", all(k in rtab for k in ("FSM_PROTOCOL_TYPE_STRING_LENGTH_4BIT", "FSM_PROTOCOL_TYPE_STRING_LENGTH_12BIT")), rt.where,
               "reader arms for both string length types")
        # the writer sends the UTF-8 bytes of the string (`as_bytes`): both string arms of the reader decode the bytes as UTF-8
        # (from_utf8 on the buffer slice) and none turns single bytes into characters
        for m in rt.nodes("match"):
            for a in m["arms"]:
                key = wire.arm_key(a["pat"])
                if not key.startswith("FSM_PROTOCOL_TYPE_STRING_"):
                    continue
                dec = [c for c in hirq.walk(a["body"]) if c.get("k") == "call" and (c.get("p") or "").endswith("from_utf8")]
                bytewise = [c for c in hirq.walk(a["body"]) if c.get("k") == "cast" and c.get("ty") == "char"]
                ctx.ob("W3", "%s|bytes decoded as UTF-8" % key, len(dec) == 1 and not bytewise, line_of(a["body"]),
                       "%d from_utf8 call(s), %d byte-to-char cast(s)" % (len(dec), len(bytewise)))
        wsb = [c for c in ws.walk() if c.get("k") == "mcall" and c["m"] == "as_bytes"]
        ctx.floor("W3", "write_str sends as_bytes()", len(wsb), 1)
    ctx.guard("W3", w34)

    def w3_option():
        # Option<String>: Some(s) is written as the string s whatever s is (also the empty string), None as the NONE marker - the
        # reader maps the marker, and nothing else, back to None
        wo = F.fn("DefaultProtocolWriter::write_option_string")
        vb = wo.params[1]["b"]
        strs = wo.calls("write_str")
        ctx.exact("W3", "write_str calls in write_option_string", len(strs), 1)
        for c in strs:
            conds = []
            for g in hirq.guards(wo, c):
                how = g["how"]
                if how == "arm":
                    head = (g["pat"].get("r") or {}).get("p", "")
                    subject = local_of(hirq.resolve(wo, g["cond"])) == vb or vb in [local_of(x) for x in hirq.walk(g["cond"]) if x.get("k") == "path"]
                    conds.append("some" if head.endswith("::Some") and g.get("guard") is None and subject else "other:arm %s%s" % (
                        head.split("::")[-1], " if <guard>" if g.get("guard") is not None else ""))
                    continue
                for a, pol in hirq.atoms(g["cond"], g["pol"]):
                    if a.get("k") == "mcall" and a["m"] == "is_some" and pol and local_of(a["r"]) == vb:
                        conds.append("some")
                    elif a.get("k") == "mcall" and a["m"] == "is_none" and not pol and local_of(a["r"]) == vb:
                        conds.append("some")
                    elif a.get("k") == "letx" and pol and (a["pat"].get("r") or {}).get("p", "").endswith("::Some"):
                        conds.append("some")
                    elif hirq.field_of(a, NO_T) and hirq.field_of(a, NO_T)[1] == "ok":
                        conds.append("ok")
                    else:
                        conds.append("other:" + describe(a))
            ok = "some" in conds and not [x for x in conds if x.startswith("other")]
            ctx.ob("W3", "write_option_string|Some(s) is written as s, unconditionally", ok, line_of(c), "write_str under %s" % conds)
        none = [c for c in wo.walk() if c.get("k") == "mcall" and c["m"] == "write_u8" and c["a"] and
                (hirq.def_path(c["a"][0]) or "").endswith("FSM_PROTOCOL_TYPE_OPT_STRING_NONE")]
        ctx.exact("W3", "NONE marker writes in write_option_string", len(none), 1)
    ctx.guard("W3", w3_option)

    # ---------------------------------------------------------------- W5
    ctx.rule("W5", "integer widths: for every integer operation the reader's narrowest type is at least as wide as the type of the value the writer wrote")

    def w5():
        n = 0
        for name, (ww, rw) in sorted(walks.items()):
            wops = [o for o in normalise_writer(ww.ops) if kind_class(o.kind) == "uint"]
            rops = [o for o in normalise_reader(rw.ops, ww.flag_table)[0] if kind_class(o.kind) == "uint"]
            for i, (w, r) in enumerate(zip(wops, rops)):
                if w.bits is None or r.bits is None:
                    continue
                n += 1
                ctx.ob("W5", "%s|int %d" % (name or "fsm", i), r.bits >= w.bits, "%s / %s" % (w.where, r.where),
                       "%s: writer value is %d bits wide, reader keeps %d bits" % (w.field, w.bits, r.bits))
        ctx.floor("W5", "integer operations with known widths", n, 20)
    ctx.guard("W5", w5)
