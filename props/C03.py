"""C03 — run to completion: internal work finishes before the next external event.

Decided: structure of mainEventLoop (eventless transitions before the internal queue, dequeue
only when non-empty, blocking receive only with a finished macrostep and an empty internal
queue, microstep only for a non-empty transition set, one received event per outer iteration),
FIFO discipline and ownership of the internal queue, routing of <raise> and '#_internal'.
Not decided: exactly-once / arrival order of the mpsc channel (std contract, see C13).
"""
import re

from common import *
import hirq
import speccov
from C02 import is_trace_node, leaves_loop_after, local_uses, let_of, expr_of

ALG = "fsm::Fsm::"
RAISE_EXEC = "<executable_content::Raise as executable_content::ExecutableContent>::execute"
SCXML_SEND = "<event_io_processor::scxml_event_io_processor::ScxmlEventIOProcessor as event_io_processor::EventIOProcessor>::send"


def is_iq_call(a, method):
    """a is `<GlobalData>.internalQueue.<method>()`."""
    return a.get("k") == "mcall" and a["m"] == method and (a.get("p") or "").startswith("fsm::Queue") and global_field_expr(a["r"], "internalQueue")


def is_set_isempty(a):
    """a is `<local>.isEmpty()` on an OrderedSet; returns the local's binding id."""
    if a.get("k") == "mcall" and a["m"] == "isEmpty" and (a.get("p") or "").startswith("fsm::OrderedSet"):
        return local_of(a["r"], NO_T)
    return None


def is_running(a):
    return global_field_expr(a, "running")


def dominating_assign(fn, b, at):
    """Right-hand side of the assignment to local b that certainly executed last before node `at`: the latest
    assignment (evaluation order) before `at` that is a direct statement of a block enclosing `at`, in the same loop nest."""
    idx = hirq.order_index(fn)
    asg = [a for a in fn.assignments_to(b) if idx[id(a)] < idx[id(at)] and not any(x is at for x in fn.ancestors(a))]
    if not asg:
        let = let_of(fn, b)
        if let is not None and "init" in let and hirq.enclosing_loops(fn, let) == hirq.enclosing_loops(fn, at):
            return let["init"]
        return None
    a = max(asg, key=lambda x: idx[id(x)])
    blk = fn.parent(a)
    if blk is not None and blk.get("k") == "block" and any(x is blk for x in fn.ancestors(at)) and \
            hirq.enclosing_loops(fn, a) == hirq.enclosing_loops(fn, at) and a.get("k") == "assign":
        return a["r"]
    return None


def nested_early_exits(fn, node):
    """`if c { jump }` statements that ran unconditionally before node but sit inside the block initialiser of a preceding
    `let` or inside a preceding plain block statement (hirq.guards sees only direct statements of the enclosing blocks)."""
    out = []

    def scan(block, top):
        seq = list(block["st"]) + ([block["tail"]] if "tail" in block else [])
        for s in seq:
            k = s.get("k")
            if k == "if" and "e" not in s and hirq.diverges(s["t"]):
                if not top:
                    out.append({"cond": s["c"], "pol": False, "how": "early-exit", "node": s})
            elif k == "let" and "init" in s and s["init"].get("k") == "block":
                scan(s["init"], False)
            elif k == "block":
                scan(s, False)

    cur = node
    for anc in fn.ancestors(node):
        if anc.get("k") == "block":
            seq = list(anc["st"]) + ([anc["tail"]] if "tail" in anc else [])
            pos = [j for j, x in enumerate(seq) if x is cur]
            if pos:
                scan({"st": seq[:pos[0]]}, True)
        elif anc.get("k") == "closure":
            break
        cur = anc
    return out


def guard_entries_with_atoms(fn, node):
    """[(guard entry, atom, polarity)] for the if/while guards of node (match arms skipped)."""
    out = []
    for g in hirq.guards(fn, node) + nested_early_exits(fn, node):
        if g["pol"] is None:
            continue
        for a, p in hirq.atoms(g["cond"], g["pol"]):
            out.append((g, hoisted_test(fn, a, g["node"]), p))
    return out


def hoisted_test(fn, a, at):
    """`let t = <test>; if t {..}`: the test itself, when t is an immutable local whose `let` is the statement directly
    before the `if` (tracing in between allowed); else a unchanged."""
    b = local_of(a, NO_T)
    if b is None:
        return a
    d = hirq.single_def(fn, b)
    let = let_of(fn, b)
    blk = fn.parent(at)
    if d is None or let is None or blk is None or blk.get("k") != "block":
        return a
    seq = list(blk["st"]) + ([blk["tail"]] if "tail" in blk else [])
    pos = [j for j, x in enumerate(seq) if x is at]
    if not pos:
        return a
    between = []
    for x in reversed(seq[:pos[0]]):
        if x is let:
            return peel(d, NO_T) if all(x2.get("k") in ("call", "mcall") and is_trace_node(x2) for x2 in between) else a
        between.append(x)
    return a


def idx_of(fn, n):
    return hirq.order_index(fn)[id(n)]


def plit_str(pat):
    if pat.get("k") == "plit" and isinstance(pat.get("v"), str):
        m = re.match(r'^Str\("(.*)", \w+\)$', pat["v"])
        if m:
            return m.group(1)
    return None


def run(ctx):
    F = ctx.facts
    ctx.explanation = ("C03: W3C vocabulary coverage of interpret/mainEventLoop; eventless selection dominates the internal-queue test "
                       "which dominates the dequeue; blocking receive only after macrostepDone (no eventless transition and empty "
                       "internal queue) and after the post-invoke queue test; FIFO Queue and who touches the internal queue; <raise> "
                       "and '#_internal' go to the internal queue, '' to the external one; microstep only for a non-empty set; the "
                       "received event is the one processed, once per iteration")
    ctx.assumptions += [
        "std VecDeque push_back/pop_front is FIFO; std mpsc channel delivers each message once, in send order per sender (C13)",
        "rustc's HIR/MIR and type resolution for the analysed configuration",
        "GlobalData.running is written by this session's thread only between the tests of one iteration",
    ]

    # ---------------------------------------------------------------- R03.0
    ctx.rule("R03.0", "every algorithm-vocabulary call of the W3C pseudo-code of interpret and mainEventLoop is made by the implementing "
                      "procedure (order-free; declared deviation: applyFinalize inlined)")
    ctx.guard("R03.0", lambda: speccov.check(ctx, "R03.0", ["interpret", "mainEventLoop"]))

    shape = {}

    def main_shape():
        """Identifies the loops and call sites of mainEventLoop once (fails closed through the callers' guards)."""
        if shape:
            return shape
        ml = F.fn(ALG + "mainEventLoop")
        sel = ml.calls(ALG + "selectEventlessTransitions")
        deq = [c for c in ml.calls("fsm::Queue::dequeue") if global_field_expr(c["r"], "internalQueue")]
        recv = ml.calls("mpsc::Receiver::recv")
        if len(sel) != 1 or len(deq) != 1 or len(recv) != 1:
            raise AnchorMissing("mainEventLoop: expected one selectEventlessTransitions, one internalQueue.dequeue, one recv; found %d/%d/%d" % (
                len(sel), len(deq), len(recv)))
        dl = hirq.enclosing_loops(ml, deq[0])
        rl = hirq.enclosing_loops(ml, recv[0])
        if len(dl) != 2 or not rl or rl[-1] is not dl[-1]:
            raise AnchorMissing("mainEventLoop: dequeue is expected in an inner loop of the loop that also contains recv")
        shape.update(ml=ml, sel=sel[0], deq=deq[0], recv=recv[0], inner=dl[0], outer=dl[1], recv_loops=rl, idx=hirq.order_index(ml))
        return shape

    # ---------------------------------------------------------------- R03.1
    ctx.rule("R03.1", "in the macrostep loop of mainEventLoop, selectEventlessTransitions dominates the internalQueue.isEmpty() test, "
                      "which dominates internalQueue.dequeue(); the dequeue is reached exactly when the eventless set of this iteration "
                      "is empty and the queue is not")

    def r1():
        s = main_shape()
        ml, sel, deq, inner = s["ml"], s["sel"], s["deq"], s["inner"]
        tests = [c for c in ml.calls("fsm::Queue::isEmpty") if global_field_expr(c["r"], "internalQueue") and any(x is inner for x in ml.ancestors(c))]
        ctx.exact("R03.1", "internalQueue.isEmpty tests in the macrostep loop", len(tests), 1)
        same = hirq.enclosing_loops(ml, sel)[:1] == [inner]
        ctx.ob("R03.1", site_key(ml, "eventless selection happens in the macrostep loop"), same, line_of(sel), "selectEventlessTransitions directly in the inner loop: %s" % same)
        if len(tests) != 1:
            return
        t = tests[0]
        d1, d2 = dominates_hir(ml, sel, t), dominates_hir(ml, t, deq)
        ctx.ob("R03.1", site_key(ml, "selectEventlessTransitions dominates the queue test"), d1, line_of(t), "MIR dominance: %s" % d1)
        ctx.ob("R03.1", site_key(ml, "queue test dominates the dequeue"), d2, line_of(deq), "MIR dominance: %s" % d2)
        kinds = []
        for g, a, pol in guard_entries_with_atoms(ml, deq):
            if not any(x is inner for x in ml.ancestors(g["node"])):
                continue
            b = is_set_isempty(a)
            if b is not None:
                rhs = dominating_assign(ml, b, g["node"])
                from_sel = rhs is not None and peel(rhs, NO_T) is sel
                kinds.append(("no-eventless" if pol else "some-eventless") if from_sel else "set-of-unknown-origin")
            elif is_iq_call(a, "isEmpty"):
                kinds.append("queue-empty" if pol else "queue-not-empty")
            else:
                kinds.append("other:" + describe(a))
        ok = sorted(kinds) == ["no-eventless", "queue-not-empty"]
        ctx.ob("R03.1", site_key(ml, "dequeue exactly when no eventless transition and queue not empty"), ok, line_of(deq),
               "internalQueue.dequeue() guarded by %s" % sorted(kinds))
    ctx.guard("R03.1", r1)

    # ---------------------------------------------------------------- R03.2
    ctx.rule("R03.2", "the blocking recv is reached only when the macrostep loop ended with macrostepDone (set only where the eventless set "
                      "of the iteration is empty and the internal queue is empty; the loop has no other exit) and, after the invoke phase, "
                      "only past `if !internalQueue.isEmpty() { continue }`")

    def r2():
        s = main_shape()
        ml, inner, outer, recv, idx = s["ml"], s["inner"], s["outer"], s["recv"], s["idx"]
        # the macrostep loop: while running && !done
        ok = inner.get("k") == "while" and outer.get("k") == "while"
        done = None
        if ok:
            ats = hirq.atoms(inner["cond"], True)
            flags = [local_of(a, NO_T) for a, pol in ats if pol is False and local_of(a, NO_T) is not None]
            runs = [a for a, pol in ats if pol is True and is_running(a)]
            ok = len(flags) == 1 and len(runs) == 1 and len(ats) == 2
            done = flags[0] if len(flags) == 1 else None
        ctx.ob("R03.2", site_key(ml, "macrostep loop runs while running && !macrostepDone"), ok, line_of(inner),
               "inner loop condition: %s" % (describe(inner["cond"]) if inner.get("k") == "while" else inner.get("k")))
        if done is None:
            return
        exits = [n for n in ml.walk(inner) if (n.get("k") == "break" and n.get("to") == inner.get("id")) or
                 (n.get("k") == "ret" and hirq.enclosing_closure(ml, n) is None)]
        ctx.ob("R03.2", site_key(ml, "macrostep loop has no other exit"), not exits, line_of(inner), "%d break/return inside the macrostep loop" % len(exits))
        let = let_of(ml, done)
        fresh = let is not None and hirq.enclosing_loops(ml, let) == [outer] and "init" in let and const_eval(peel(let["init"], NO_T)) is False
        ctx.ob("R03.2", site_key(ml, "macrostepDone starts false in every outer iteration"), fresh, line_of(let) if let else ml.where,
               "declared in the outer loop body with initial value false: %s" % fresh)
        asg = ml.assignments_to(done)
        ctx.floor("R03.2", "assignments to macrostepDone", len(asg), 1)
        for i, a in enumerate(asg):
            kinds = []
            if const_eval(peel(a["r"], NO_T)) is not True:
                kinds.append("assigns-non-true")
            if not any(x is inner for x in ml.ancestors(a)):
                kinds.append("outside-macrostep-loop")
            for g, at, pol in guard_entries_with_atoms(ml, a):
                if not any(x is inner for x in ml.ancestors(g["node"])):
                    continue
                b = is_set_isempty(at)
                if b is not None:
                    rhs = dominating_assign(ml, b, g["node"])
                    from_sel = rhs is not None and peel(rhs, NO_T) is s["sel"]
                    kinds.append(("no-eventless" if pol else "some-eventless") if from_sel else "set-of-unknown-origin")
                elif is_iq_call(at, "isEmpty"):
                    kinds.append("queue-empty" if pol else "queue-not-empty")
                else:
                    kinds.append("other:" + describe(at))
            ok = sorted(kinds) == ["no-eventless", "queue-empty"]
            ctx.ob("R03.2", site_key(ml, "macrostepDone = true only with no eventless transition and an empty internal queue", i), ok, line_of(a),
                   "assignment guarded by %s" % sorted(kinds))
        # from the loop end to recv
        after = idx[id(inner)] < idx[id(recv)] and s["recv_loops"][-1] is outer
        gs = guard_entries_with_atoms(ml, recv)
        run_ok = any(is_running(a) and pol is True and g["how"].startswith("early-exit") and idx[id(inner)] < idx[id(g["node"])] for g, a, pol in gs)
        ctx.ob("R03.2", site_key(ml, "recv only while running, after the macrostep loop"), after and run_ok, line_of(recv),
               "recv follows the macrostep loop in the outer loop: %s; `if !running { leave }` in between: %s" % (after, run_ok))
        invs = ml.calls(ALG + "invoke")
        q = [(g, a) for g, a, pol in gs if is_iq_call(a, "isEmpty") and pol is True and g["how"] == "early-exit"]
        ok = False
        detail = "no `if !internalQueue.isEmpty() { continue }` guards recv"
        if q and invs:
            g, a = q[0]
            first_jump = [n for n in ml.walk(g["node"]["t"]) if n.get("k") in ("continue", "break", "ret")]
            cont = bool(first_jump) and first_jump[0].get("k") == "continue" and first_jump[0].get("to") == outer.get("id")
            order = all(idx[id(c)] < idx[id(g["node"])] for c in invs) and idx[id(g["node"])] < idx[id(recv)]
            dom = dominates_hir(ml, a, recv)
            ok = cont and order and dom
            detail = "test after the invoke phase and before recv: %s; non-empty queue continues the outer loop: %s; MIR dominance of recv: %s" % (order, cont, dom)
        ctx.ob("R03.2", site_key(ml, "recv only past the post-invoke internal-queue test"), ok, line_of(recv), detail)
    ctx.guard("R03.2", r2)

    # ---------------------------------------------------------------- R03.3
    ctx.rule("R03.3", "FIFO: Queue is a VecDeque, enqueue is push_back(e), dequeue is pop_front; the VecDeque is touched only by Queue's own "
                      "methods; GlobalData.internalQueue is dequeued only in mainEventLoop, cleared only in interpret, and enqueued only "
                      "by the two enqueue_internal wrappers, which pass their event parameter")

    def r3():
        q = F.type_("fsm::Queue")
        fields = dict((f[0], f[1]) for f in q["variants"][0]["f"])
        ctx.ob("R03.3", "fsm::Queue|data is a VecDeque", fields.get("data", "").startswith("std::collections::VecDeque<"), "", "Queue.data: %s" % fields.get("data"))
        gd = dict((f[0], f[1]) for f in F.type_("fsm::GlobalData")["variants"][0]["f"])
        ctx.ob("R03.3", "fsm::GlobalData|internalQueue is a Queue<Event>", gd.get("internalQueue") == "fsm::Queue<fsm::Event>", "", "GlobalData.internalQueue: %s" % gd.get("internalQueue"))
        allowed = {("fsm::Queue::<T>::enqueue", "push_back"), ("fsm::Queue::<T>::dequeue", "pop_front"), ("fsm::Queue::<T>::clear", "clear")}
        seen = set()
        for fn, n, kind, meth, par in mutations_of_field(F, "Queue", "data"):
            key = (fn.path, meth or kind)
            seen.add(key)
            ctx.ob("R03.3", "%s|Queue.data.%s" % key, key in allowed, line_of(n), "%s mutates Queue.data via %s" % key)
        for a in sorted(allowed):
            ctx.ob("R03.3", "present|%s.%s" % a, a in seen, "", "expected %s -> VecDeque::%s %s" % (a[0], a[1], "found" if a in seen else "MISSING"))
        enq = F.fn("fsm::Queue::<T>::enqueue")
        pb = enq.calls("VecDeque::push_back")
        ok = len(pb) == 1 and param_index(enq, pb[0]["a"][0]) == 1 and not hirq.guards(enq, pb[0]) and not hirq.enclosing_loops(enq, pb[0])
        ctx.ob("R03.3", site_key(enq, "push_back(e), unconditionally"), ok, enq.where, "%d push_back site(s)" % len(pb))
        de = F.fn("fsm::Queue::<T>::dequeue")
        pf = de.calls("VecDeque::pop_front")
        tail = de.hir.get("tail")
        ok = len(pf) == 1 and tail is not None and peel(tail) is pf[0]
        ctx.ob("R03.3", site_key(de, "returns pop_front()"), ok, de.where, "%d pop_front site(s); returned expression %s" % (len(pf), describe(tail) if tail is not None else "none"))

        allowed_iq = {("fsm::GlobalData::enqueue_internal", "enqueue"), ("fsm::Fsm::enqueue_internal", "enqueue"),
                      ("fsm::Fsm::mainEventLoop", "dequeue"), ("fsm::Fsm::interpret", "clear")}
        seen = {}
        for fn, n, kind, meth, par in mutations_of_field(F, "GlobalData", "internalQueue"):
            owner = fn.path if fn.kind != "Closure" else fn.parent_path
            key = (owner, meth or kind)
            seen[key] = seen.get(key, 0) + 1
            ctx.ob("R03.3", "%s|internalQueue.%s" % key, key in allowed_iq, line_of(n), "%s touches GlobalData.internalQueue via %s" % key)
        for a in sorted(allowed_iq):
            ctx.ob("R03.3", "present|%s.%s" % a, seen.get(a, 0) == 1, "", "expected exactly one %s in %s: found %d" % (a[1], a[0], seen.get(a, 0)))
        uses = field_uses(F, "GlobalData", "internalQueue")
        ctx.floor("R03.3", "uses of GlobalData.internalQueue", len(uses), 6)
        for path, pidx in (("fsm::GlobalData::enqueue_internal", 1), ("fsm::Fsm::enqueue_internal", 2)):
            w = F.fn(path)
            cs = [c for c in w.calls("fsm::Queue::enqueue") if global_field_expr(c["r"], "internalQueue") or
                  (hirq.field_of(c["r"], NO_T) or (None, None))[1] == "internalQueue"]
            ok = len(cs) == 1 and param_index(w, cs[0]["a"][0]) == pidx and not [g for g in hirq.guards(w, cs[0])] and not hirq.enclosing_loops(w, cs[0])
            ctx.ob("R03.3", site_key(w, "enqueues its event parameter, unconditionally, once"), ok, w.where,
                   "%d internalQueue.enqueue site(s); argument %s" % (len(cs), describe(cs[0]["a"][0]) if cs else "-"))
        n = 0
        for fn in F.fn_list:
            if fn.hir is None:
                continue
            n += len(fn.calls("fsm::GlobalData::enqueue_internal")) + len(fn.calls("fsm::Fsm::enqueue_internal"))
        ctx.floor("R03.3", "call sites of the enqueue_internal wrappers", n, 15 if ctx.config == "default" else 10)
        # the start-up reset of the queue comes before anything of interpret that can raise an event (data model initialisation,
        # global script, entry of the initial states): an error.execution raised at start-up must still be in the queue afterwards
        it = F.fn("fsm::Fsm::interpret")
        clr = [c for c in it.walk() if c.get("k") == "mcall" and c["m"] == "clear" and hirq.field_of(c["r"], NO_T) and hirq.field_of(c["r"], NO_T)[1] == "internalQueue"]
        ctx.exact("R03.3", "internalQueue.clear sites in interpret", len(clr), 1)
        raising = [c for c in it.walk() if c.get("k") in ("call", "mcall") and (c.get("p") or "").split("::")[-1] in (
            "initialize_data_models_recursive", "initializeDataModel", "executeGlobalScriptElement", "enterStates", "mainEventLoop")]
        ctx.floor("R03.3", "event-raising start-up calls in interpret", len(raising), 3)
        idx3 = hirq.order_index(it)
        for c in clr:
            late = [describe(r)[:40] for r in raising if idx3[id(r)] < idx3[id(c)]]
            ctx.ob("R03.3", site_key(it, "queue reset precedes everything that can raise at start-up"), not late and not hirq.enclosing_loops(it, c), line_of(c),
                   "calls before the reset: %s" % (late or "none"))
    ctx.guard("R03.3", r3)

    # ---------------------------------------------------------------- R03.4
    ctx.rule("R03.4", "Raise::execute puts its event (type internal, name from the element) on the internal queue on every path and "
                      "never on an external one; in the SCXML processor's send the event itself is enqueued internally exactly under "
                      "target '#_internal' and on externalQueue exactly under target ''")

    def r4():
        ra = F.fn(RAISE_EXEC)
        cs = ra.calls("fsm::GlobalData::enqueue_internal") + ra.calls("fsm::Fsm::enqueue_internal")
        ctx.exact("R03.4", "enqueue_internal sites in Raise::execute", len(cs), 1)
        ext = [c for c in ra.calls() if any(x in c["p"] for x in ("BlockingQueue", "mpsc::Sender", "Datamodel::send", "EventIOProcessor::send", "send_to_session"))]
        ctx.ob("R03.4", site_key(ra, "no external route"), not ext, ra.where, "%d call(s) towards an external queue / processor" % len(ext))
        for c in cs:
            bl = hir_call_blocks(ra, c)
            every = bool(bl) and ra.cfg.every_path_to_return_passes(bl)
            ev = expr_of(ra, c["a"][-1])
            built = is_call(ev, "fsm::Event::new") and len(ev["a"]) == 5
            internal = built and (hirq.def_path(ev["a"][4]) or "").endswith("EventType::internal")
            named = built and any(hirq.field_of(x, NO_T) and hirq.field_of(x, NO_T)[1] == "event" and param_index(ra, hirq.field_of(x, NO_T)[0]) == 0
                                  for x in ev["a"][:2])
            ctx.ob("R03.4", site_key(ra, "raise enqueues an internal event named by the element, on every path"), every and internal and named, line_of(c),
                   "on every path: %s; Event::new(.., EventType::internal): %s; name from self.event: %s" % (every, internal, named))

        sd = F.fn(SCXML_SEND)
        tgt = [i for i, p in enumerate(sd.params) if p.get("n") == "target"]
        evp = [i for i, p in enumerate(sd.params) if p.get("n") == "event"]
        if len(tgt) != 1 or len(evp) != 1:
            raise AnchorMissing("ScxmlEventIOProcessor::send: parameters `target` and `event` not found")

        def target_is(node):
            """set of literal values the `target` parameter is known to equal at node (match arms on it, == tests)."""
            vals = set()
            for g in hirq.guards(sd, node):
                if g["pol"] is None:
                    if param_index(sd, g["cond"]) != tgt[0]:
                        continue
                    pat = g["pat"]
                    v = plit_str(pat)
                    if v is None and pat.get("k") == "ppath":
                        v = F.consts.get(pat["r"].get("p")) and const_eval(F.consts[pat["r"]["p"]]["init"], F)
                    vals.add(v if isinstance(v, str) else "?")
                else:
                    for a, pol in hirq.atoms(g["cond"], g["pol"]):
                        if pol and a.get("k") == "bin" and a["op"] == "Eq" and param_index(sd, a["l"]) == tgt[0]:
                            v = const_eval(peel(a["r"], NO_T), F)
                            vals.add(v if isinstance(v, str) else "?")
                        elif pol and a.get("k") == "mcall" and a["m"] == "is_empty" and param_index(sd, a["r"]) == tgt[0]:
                            vals.add("")
            return vals

        def is_the_event(e):
            x = peel(e, NO_T)
            if is_call(x, "Box::<T>::new") or is_call(x, "std::boxed::Box::new"):
                x = peel(x["a"][0], NO_T)
            return param_index(sd, x) == evp[0]

        internal = [c for c in sd.calls("fsm::GlobalData::enqueue_internal") if is_the_event(c["a"][0])]
        external = [c for c in sd.calls("fsm::BlockingQueue::enqueue") if global_field_expr(c["r"], "externalQueue")]
        ctx.exact("R03.4", "sites that enqueue the sent event internally", len(internal), 1)
        ctx.exact("R03.4", "externalQueue.enqueue sites in the SCXML processor's send", len(external), 1)
        for i, c in enumerate(internal):
            v = target_is(c)
            ctx.ob("R03.4", site_key(sd, "event -> internal queue exactly for '#_internal'", i), v == {"#_internal"}, line_of(c), "reached for target in %s" % sorted(v))
        for i, c in enumerate(external):
            v = target_is(c)
            ok = v == {""} and is_the_event(c["a"][0])
            ctx.ob("R03.4", site_key(sd, "event -> own external queue exactly for ''", i), ok, line_of(c), "reached for target in %s; argument is the event: %s" % (sorted(v), is_the_event(c["a"][0])))
        # nothing else delivers under these two targets
        others = [c for c in sd.calls() if any(x in c["p"] for x in ("send_to_session", "mpsc::Sender")) and target_is(c) & {"", "#_internal"}]
        ctx.ob("R03.4", site_key(sd, "no session delivery under '' / '#_internal'"), not others, sd.where, "%d other delivery call(s) under these targets" % len(others))
        ctx.ob("R03.4", "const|SCXML_TARGET_INTERNAL", F.const_value("scxml_event_io_processor::SCXML_TARGET_INTERNAL") == "#_internal", "",
               "SCXML_TARGET_INTERNAL = %r" % F.const_value("scxml_event_io_processor::SCXML_TARGET_INTERNAL"))
    ctx.guard("R03.4", r4)

    # ---------------------------------------------------------------- R03.5
    ctx.rule("R03.5", "every microstep call in mainEventLoop is reached only under !enabledTransitions.isEmpty() and is given that very set; "
                      "the set only ever holds a result of selectEventlessTransitions / selectTransitions")

    def r5():
        s = main_shape()
        ml = s["ml"]
        ms = ml.calls(ALG + "microstep")
        ctx.exact("R03.5", "microstep call sites in mainEventLoop", len(ms), 2)
        others = [(c, f.path) for f in F.fn_list if f.hir is not None and f.path != ml.path for c in f.calls(ALG + "microstep")]
        ctx.ob("R03.5", "microstep|called only from mainEventLoop", not others, "", "%d call(s) elsewhere: %s" % (len(others), [p for _, p in others][:3]))
        for i, c in enumerate(ms):
            base, chain = method_chain(ml, c["a"][1])
            b = local_of(base, NO_T)
            names = [m for m, _ in chain]
            gs = [(g, is_set_isempty(a)) for g, a, pol in guard_entries_with_atoms(ml, c) if pol is False and is_set_isempty(a) is not None]
            tested = [x for _, x in gs]
            # a hoisted `let l = set.toList()` must be taken after the test (inside the guarded region)
            arg_local = local_of(c["a"][1], NO_T)
            hoist = let_of(ml, arg_local) if arg_local is not None and arg_local != b else None
            hoist_ok = hoist is None or any(idx_of(ml, g["node"]) < idx_of(ml, hoist) and hirq.enclosing_loops(ml, hoist) == hirq.enclosing_loops(ml, c)
                                            for g, x in gs if x == b)
            ok = b is not None and names == ["toList"] and b in tested and hoist_ok
            ctx.ob("R03.5", site_key(ml, "microstep under a non-empty transition set", i), ok, line_of(c),
                   "argument %s; guarded by !isEmpty() of the same set: %s" % (describe(c["a"][1]), b in tested))
            if b is not None:
                asg = ml.assignments_to(b)
                good = bool(asg) and all(is_call(peel(a["r"], NO_T), ALG + "selectEventlessTransitions") or is_call(peel(a["r"], NO_T), ALG + "selectTransitions")
                                         for a in asg) and "init" not in (let_of(ml, b) or {"init": 1})
                ctx.ob("R03.5", site_key(ml, "the set is always a selector result", i), good, line_of(c), "%d assignment(s) to %s, all select*: %s" % (len(asg), describe(base), good))
    ctx.guard("R03.5", r5)

    # ---------------------------------------------------------------- R03.6
    ctx.rule("R03.6", "the event leaving the receive loop is the last value received (each assignment leaves the loop, each exit follows "
                      "an assignment) and is the one given to set_event, the finalize lookup, autoforward and selectTransitions, in "
                      "this order, once per outer iteration; the dequeued internal event is the one given to set_event and "
                      "selectTransitions")

    def r6():
        s = main_shape()
        ml, outer, inner, recv, idx = s["ml"], s["outer"], s["inner"], s["recv"], s["idx"]
        sts = [c for c in ml.calls(ALG + "selectTransitions") if hirq.enclosing_loops(ml, c) == [outer]]
        ctx.exact("R03.6", "selectTransitions for the external event", len(sts), 1)
        if len(sts) != 1:
            return
        ev = local_of(sts[0]["a"][1], NO_T)
        rl = s["recv_loops"][0]
        let = let_of(ml, ev) if ev is not None else None
        fresh = let is not None and hirq.enclosing_loops(ml, let) == [outer]
        ctx.ob("R03.6", site_key(ml, "external event variable is per outer iteration"), fresh, line_of(sts[0]), "declared in the outer loop body: %s" % fresh)
        if ev is None:
            return
        asg = ml.assignments_to(ev) + ([let] if let is not None and "init" in let else [])
        ctx.floor("R03.6", "assignments of the received event", len(asg), 1)
        for i, a in enumerate(asg):
            rhs = a["r"] if a.get("k") == "assign" else a["init"]
            src = expr_of(ml, rhs, hirq.TRANSPARENT)
            from_recv = src is recv
            in_loop = hirq.enclosing_loops(ml, a)[:1] == [rl]
            leaves = a.get("k") == "assign" and leaves_loop_after(ml, a, rl)
            ctx.ob("R03.6", site_key(ml, "assigned from recv and leaves the receive loop", i), from_recv and in_loop and leaves, line_of(a),
                   "value is the recv() result: %s; inside the receive loop: %s; followed by break: %s" % (from_recv, in_loop, leaves))
        brs = [n for n in ml.walk(rl) if n.get("k") == "break" and n.get("to") == rl.get("id")]
        ctx.floor("R03.6", "exits of the receive loop", len(brs), 1)
        pre_ok = True
        for b in brs:
            blk = ml.parent(b)
            seq = list(blk["st"]) + ([blk["tail"]] if "tail" in blk else []) if blk is not None and blk.get("k") == "block" else []
            pos = [j for j, x in enumerate(seq) if x is b]
            prev = [x for x in seq[:pos[0]] if not (x.get("k") in ("call", "mcall") and is_trace_node(x))] if pos else []
            pre_ok = pre_ok and bool(prev) and prev[-1].get("k") == "assign" and local_of(prev[-1]["l"], NO_T) == ev
        ctx.ob("R03.6", site_key(ml, "every exit of the receive loop follows an assignment of the event"), pre_ok and rl.get("k") == "loop", line_of(rl),
               "%d break(s), each directly after `externalEvent = <received>`: %s; loop has no condition: %s" % (len(brs), pre_ok, rl.get("k") == "loop"))
        # consumers, in order, once per iteration
        se = [c for c in ml.calls("Datamodel::set_event") if hirq.enclosing_loops(ml, c) == [outer]]
        ctx.exact("R03.6", "set_event for the external event", len(se), 1)
        fin = [c for c in ml.calls(ALG + "executeContent") if hirq.enclosing_loops(ml, c)[1:] == [outer]]
        fwd = [c for c in ml.calls("mpsc::Sender::send") if hirq.enclosing_loops(ml, c)[1:] == [outer]]
        ctx.exact("R03.6", "finalize executeContent sites", len(fin), 1)
        ctx.exact("R03.6", "autoforward send sites", len(fwd), 1)
        if len(se) != 1 or len(fin) != 1 or len(fwd) != 1:
            return
        se_ok = local_of(se[0]["a"][0], NO_T) == ev
        fwd_ok = local_of(fwd[0]["a"][0]) == ev
        st_ok = local_of(sts[0]["a"][1], NO_T) == ev
        # the finalize / forward lists are computed from <event>.invoke_id
        lookups = [m for m in ml.nodes("match") + ml.nodes("if") if hirq.enclosing_loops(ml, m) == [outer] and idx[id(m)] > idx[id(rl)] and
                   any(x.get("k") == "field" and x["n"] == "invoke_id" and local_of(x["e"], NO_T) == ev for x in hirq.walk(m.get("e") or m.get("c")))]
        fl = hirq.loop_var_of(ml, fin[0]["a"][1])
        fin_src = local_of(fl["iter"]) if fl is not None else None
        fin_ok = fin_src is not None and any(any(x.get("k") == "mcall" and x["m"] == "push" and local_of(x["r"], NO_T) == fin_src for x in hirq.walk(m)) for m in lookups)
        order = idx[id(rl)] < idx[id(se[0])] < idx[id(fin[0])] < idx[id(fwd[0])] < idx[id(sts[0])]
        dom = dominates_hir(ml, recv, se[0]) and dominates_hir(ml, se[0], sts[0])
        ctx.ob("R03.6", site_key(ml, "received event is the one processed, in the W3C order"), se_ok and fwd_ok and st_ok and fin_ok and order and dom, line_of(se[0]),
               "set_event(event): %s; finalize content looked up by event.invoke_id: %s; forwarded copy of event: %s; selectTransitions(event): %s; "
               "order recv < set_event < finalize < autoforward < selectTransitions: %s; recv dominates set_event dominates selectTransitions: %s" % (
                   se_ok, fin_ok, fwd_ok, st_ok, order, dom))
        # internal event
        deq = s["deq"]
        dlet = [a for a in ml.ancestors(deq) if a.get("k") == "let"]
        ib = dlet[0]["pat"].get("b") if dlet and dlet[0]["pat"].get("k") == "bind" else None
        ise = [c for c in ml.calls("Datamodel::set_event") if any(x is inner for x in ml.ancestors(c))]
        ist = [c for c in ml.calls(ALG + "selectTransitions") if any(x is inner for x in ml.ancestors(c))]
        ok = ib is not None and len(ise) == 1 and len(ist) == 1 and local_of(ise[0]["a"][0], NO_T) == ib and local_of(ist[0]["a"][1], NO_T) == ib and \
            idx[id(deq)] < idx[id(ise[0])] < idx[id(ist[0])] and not ml.assignments_to(ib) and \
            hirq.enclosing_loops(ml, ise[0])[:1] == [inner] and hirq.enclosing_loops(ml, ist[0])[:1] == [inner]
        same_branch = ok and dominates_hir(ml, deq, ise[0]) and dominates_hir(ml, deq, ist[0])
        ctx.ob("R03.6", site_key(ml, "dequeued internal event is the one processed"), ok and same_branch, line_of(deq),
               "set_event and selectTransitions take the dequeued value, after the dequeue: %s; dequeue dominates both: %s" % (ok, same_branch))
    ctx.guard("R03.6", r6)
