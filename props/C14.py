"""C14 — invoked child sessions follow the SCXML invoke life cycle.

Decided: structural necessary conditions: who adds/deletes/clears statesToInvoke and where (entry loop,
before the exit loop, after the invoke loop), order and provenance of the invoke loop, child_sessions
is inserted only on Ok under the id the child was started with, removed before the cancel event is
sent and on done.invoke, exitStates cancels exactly the sessions started by invokes of the exited
state, <finalize> of the matching invoke runs between set_event and selectTransitions, the
autoforward copy is independent of the event's own invoke id (today: D21), passed data reaches only
declared <data>.
Not decided: every clause about relative timing of child events, completion and cancellation.
"""
from common import *
import hirq
import bflow
from bflow import term, show, guard_terms, under, call_named, call_args, same_elements, mentions, mentions_where

ALG = "fsm::Fsm::"
EV = ("m", "recv", ("field", "receiver", ("global", "externalQueue")))       # the received external event
EV_INVOKE_ID = ("field", "invoke_id", EV)
CHILDREN = ("global", "child_sessions")
S_ENT = ("elem", ("out", "computeEntrySet", 2))


def _owner(fn):
    return fn.path if fn.kind != "Closure" else fn.parent_path


def _loop_heads(fn, forloop):
    """MIR blocks of the into_iter call that starts a HIR for loop."""
    lo, hi = forloop["iter"]["s"][0], forloop["iter"]["s"][1]
    out = []
    for bi, b in enumerate(fn.blocks):
        t = b["t"]
        if t["k"] == "call" and "IntoIterator>::into_iter" in t["f"] and t.get("s") and t["s"][0] == lo and t["s"][1] == hi:
            out.append(bi)
    if not out:
        raise AnchorMissing("no into_iter block for the loop at %s in %s" % (line_of(forloop), fn.path))
    return out


def _blocks(fn, node):
    b = bflow.call_blocks(fn, node)
    if not b:
        raise AnchorMissing("no MIR call block for the call at %s in %s" % (line_of(node), fn.path))
    return b


def _dominated(fn, heads, blocks):
    return all(any(fn.cfg.dominates(h, y) and h != y for h in heads) for y in blocks)


def _reaches(fn, frm, to, avoiding=()):
    return any(x in fn.cfg.reachable_from(y, avoiding=avoiding) for y in frm for x in to)


def _fill_guards(fn, node):
    """guard terms of node plus those of every fill site of the local collections iterated by its enclosing for loops."""
    out = [(t, p) for t, p, _ in guard_terms(fn, node)]
    sites = []
    for lp in hirq.enclosing_loops(fn, node):
        if lp.get("k") != "for":
            continue
        b = hirq.alias_root(fn, local_of(lp["iter"]))   # `let v = helper(..)` with the helper absorbed: the Vec filled inside
        if b is None:
            continue
        adds, outs, other = bflow.fills(fn, b)
        for m, c, how in adds:
            sites.append(c)
            out += [(t, p) for t, p, _ in guard_terms(fn, c)]
    return out, sites


def run(ctx):
    F = ctx.facts
    ctx.explanation = ("C14: writers and positions of statesToInvoke add/delete/clear, order and provenance of the invoke loop, "
                       "child_sessions insert only on Ok under the started id / removed before cancel and on done.invoke, exit-time cancellation "
                       "by invoke document id, finalize between set_event and selectTransitions for the matching invoke only, autoforward "
                       "independent of the event's own invoke id, passed data only for declared <data>")
    ctx.assumptions += [
        "FsmExecutor::execute_with_data* start the child session they return (C12/C13) and return Err without starting one otherwise",
        "rustc's HIR/MIR and type resolution for the analysed configuration",
        "the reader stores <invoke> elements of a state in document order (R04.5)",
    ]

    # ---------------------------------------------------------------- R14.1
    ctx.rule("R14.1", "statesToInvoke: add only in enterStates (the state being entered), delete only in exitStates (every element of "
                      "computeExitSet, in a loop that is entered before the exit loop and never after a removal), clear only in mainEventLoop "
                      "(after the invoke loop, before the blocking receive, no invoke after it without a new test of running); the invoke loop "
                      "is outside the macrostep loop, iterates statesToInvoke.sort(state_entry_order) x state.invoke.sort(invoke_document_order) "
                      "and calls invoke(state, inv) with exactly these")

    def r1():
        allowed = {(ALG + "enterStates", "add"), (ALG + "exitStates", "delete"), (ALG + "mainEventLoop", "clear")}
        seen = set()
        for fn, n, kind, meth, par in mutations_of_field(F, "GlobalData", "statesToInvoke"):
            key = (_owner(fn), meth)
            seen.add(key)
            ctx.ob("R14.1", "%s|statesToInvoke.%s" % (key[0], meth or kind), key in allowed, line_of(n), "%s mutates statesToInvoke via %s" % (key[0], meth or kind))
        for a in sorted(allowed):
            ctx.ob("R14.1", "present|%s.%s" % a, a in seen, "", "expected mutation %s.%s %s" % (a[0], a[1], "found" if a in seen else "MISSING"))
        ctx.floor("R14.1", "uses of GlobalData.statesToInvoke", len(field_uses(F, "GlobalData", "statesToInvoke")), 4)

        en = F.fn(ALG + "enterStates")
        adds = [c for c in en.calls("OrderedSet::add") if global_field_expr(c["r"], "statesToInvoke")]
        cadds = [c for c in en.calls("OrderedSet::add") if global_field_expr(c["r"], "configuration")]
        ctx.exact("R14.1", "statesToInvoke.add sites in enterStates", len(adds), 1)
        for c in adds:
            ok = term(en, c["a"][0]) == S_ENT and len(cadds) == 1 and [id(x) for x in hirq.enclosing_loops(en, c)] == [id(x) for x in hirq.enclosing_loops(en, cadds[0])] \
                and not guard_terms(en, c)
            ctx.ob("R14.1", site_key(en, "every entered state is scheduled for invoke"), ok, line_of(c),
                   "add(%s), unconditional in the entry loop: %s" % (show(term(en, c["a"][0])), not guard_terms(en, c)))

        ex = F.fn(ALG + "exitStates")
        dels = [c for c in ex.calls("OrderedSet::delete") if global_field_expr(c["r"], "statesToInvoke")]
        ctx.exact("R14.1", "statesToInvoke.delete sites in exitStates", len(dels), 1)
        removals = [c for c in ex.calls("OrderedSet::delete") if global_field_expr(c["r"], "configuration")] + ex.calls(ALG + "executeContent")
        ctx.floor("R14.1", "removal sites in exitStates", len(removals), 2)
        for c in dels:
            t = term(ex, c["a"][0])
            okp = t[0] == "elem" and call_named(t[1], "computeExitSet") and call_args(t[1])[-1] == ("param", 2)
            lp = hirq.loop_var_of(ex, c["a"][0])
            okg = not guard_terms(ex, c)
            ctx.ob("R14.1", site_key(ex, "every exited state is unscheduled"), okp and okg and lp is not None, line_of(c),
                   "delete(%s); unconditional: %s" % (show(t), okg))
            if lp is None:
                continue
            heads = _loop_heads(ex, lp)
            rb = [b for r in removals for b in _blocks(ex, r)]
            ok = _dominated(ex, heads, rb) and not _reaches(ex, rb, _blocks(ex, c))
            ctx.ob("R14.1", site_key(ex, "unscheduled before the exit loop"), ok, line_of(lp),
                   "delete loop entered on every path to onexit/configuration.delete: %s; reachable again afterwards: %s" % (
                       _dominated(ex, heads, rb), _reaches(ex, rb, _blocks(ex, c))))

        ml = F.fn(ALG + "mainEventLoop")
        invs = ml.calls(ALG + "invoke")
        ctx.exact("R14.1", "invoke sites in mainEventLoop", len(invs), 1)
        clears = [c for c in ml.calls("OrderedSet::clear") if global_field_expr(c["r"], "statesToInvoke")]
        ctx.exact("R14.1", "statesToInvoke.clear sites in mainEventLoop", len(clears), 1)
        whiles = ml.nodes("while")
        ctx.floor("R14.1", "while loops in mainEventLoop", len(whiles), 2)
        outer = [w for w in whiles if not [l for l in hirq.enclosing_loops(ml, w)]]
        inner = [w for w in whiles if [l for l in hirq.enclosing_loops(ml, w)]]
        callers = sorted({c for c, e in F.callgraph.callers_of(ALG + "invoke")})
        ctx.ob("R14.1", "callers of invoke", callers == [ALG + "mainEventLoop"], "", "Fsm::invoke called from %s" % callers)
        for c in invs:
            st, iv = term(ml, c["a"][1]), term(ml, c["a"][2])
            okp = st == ("elem", ("global", "statesToInvoke")) and iv == ("elem", ("field", "invoke", st))
            ctx.ob("R14.1", site_key(ml, "invoke(state, inv) over statesToInvoke x state.invoke"), okp, line_of(c), "state %s; inv %s" % (show(st), show(iv)))
            loops = hirq.enclosing_loops(ml, c)
            fors = [l for l in loops if l.get("k") == "for"]
            okl = len(fors) == 2 and len([l for l in loops if l.get("k") == "while"]) == 1 and len(loops) == 3
            ctx.ob("R14.1", site_key(ml, "invoke loop outside the macrostep loop"), okl and not guard_terms_excluding_running(ml, c), line_of(c),
                   "enclosing loops: %s; other guards: %s" % ([l.get("k") for l in loops], [show(t) for t, p in guard_terms_excluding_running(ml, c)]))
            if len(fors) == 2:
                cmp_in = _sort_comparator(ml, fors[0])
                cmp_out = _sort_comparator(ml, fors[1])
                ctx.ob("R14.1", site_key(ml, "states in entry order"), cmp_out is not None and is_entry_order(cmp_out[0], cmp_out[1]), line_of(fors[1]), "comparator %s" % (cmp_out,))
                ctx.ob("R14.1", site_key(ml, "invokes in document order"), cmp_in == ("invoke_document_order", (0, 1)), line_of(fors[0]), "comparator %s" % (cmp_in,))
            # the macrostep loop has ended before the first invoke
            for w in inner:
                cc = [n for n in hirq.walk(w["cond"]) if n.get("k") in ("call", "mcall") and bflow.call_blocks(ml, n)]
                ok = bool(cc) and dominates_hir(ml, cc[0], c) and hirq.order_index(ml)[id(w)] < hirq.order_index(ml)[id(c)]
                ctx.ob("R14.1", site_key(ml, "invoke only after the macrostep loop"), ok, line_of(c), "macrostep loop test dominates the invoke call")
        recv = [b for b, t in ml.mir_calls("Receiver::<T>::recv")]
        ctx.floor("R14.1", "blocking receive in mainEventLoop", len(recv), 1)
        for c in clears:
            cb = _blocks(ml, c)
            fors = [l for i in invs for l in hirq.enclosing_loops(ml, i) if l.get("k") == "for"]
            heads = _loop_heads(ml, fors[-1]) if fors else []
            tests = {b for b, f, t, rb in bflow.field_reads(ml, ".running#fsm::GlobalData")}
            ib = [b for i in invs for b in _blocks(ml, i)]
            ok_after = bool(heads) and _dominated(ml, heads, cb)
            ok_once = not _reaches(ml, cb, ib, avoiding=tests)
            ok_before_recv = _dominated(ml, cb, recv)
            ctx.ob("R14.1", site_key(ml, "cleared after the invoke loop"), ok_after and ok_once, line_of(c),
                   "invoke loop entered on every path to clear: %s; invoke reachable after clear without a test of running: %s" % (ok_after, not ok_once))
            ctx.ob("R14.1", site_key(ml, "cleared before waiting for an external event"), ok_before_recv and not guard_terms_excluding_running(ml, c), line_of(c),
                   "clear dominates recv: %s" % ok_before_recv)
    ctx.guard("R14.1", r1)

    # ---------------------------------------------------------------- R14.2
    ctx.rule("R14.2", "child_sessions: insert only in Fsm::invoke, in the Ok arm of the execute_with_data* result, keyed by the invoke id the "
                      "child was started with, after session.state_id/invoke_doc_id are set; cancelInvoke removes the entry before it sends the "
                      "cancel event to '#_scxml_'+session id; exitStates calls cancelInvoke, inside the exit loop, for the child_sessions "
                      "entries whose invoke_doc_id is a doc_id of the exited state's invokes")

    def r2():
        allowed = {(ALG + "invoke", "insert"), (ALG + "cancelInvoke", "remove"), (ALG + "mainEventLoop", "remove")}
        seen = set()
        for fn, n, kind, meth, par in mutations_of_field(F, "GlobalData", "child_sessions"):
            key = (_owner(fn), meth)
            seen.add(key)
            ctx.ob("R14.2", "%s|child_sessions.%s" % (key[0], meth or kind), key in allowed, line_of(n), "%s mutates child_sessions via %s" % (key[0], meth or kind))
        for a in sorted(allowed):
            ctx.ob("R14.2", "present|%s.%s" % a, a in seen, "", "expected mutation %s.%s %s" % (a[0], a[1], "found" if a in seen else "MISSING"))

        iv = F.fn(ALG + "invoke")
        ins = [par for fn, n, kind, meth, par in mutations_of_field(F, "GlobalData", "child_sessions") if _owner(fn) == iv.path and meth == "insert"]
        ctx.exact("R14.2", "child_sessions.insert sites in invoke", len(ins), 1)
        starts = iv.calls("FsmExecutor::execute_with_data") + iv.calls("FsmExecutor::execute_with_data_from_xml")
        ctx.floor("R14.2", "child start sites in invoke", len(starts), 2)
        for c in ins:
            arm = [t for t, p, _ in guard_terms(iv, c) if t[0] == "arm"]
            ok_arm = bool(arm) and arm[0][1] == "Ok" and mentions_where(arm[0][2], lambda x: x[0] == "m" and x[1] in ("execute_with_data", "execute_with_data_from_xml"))
            val = term(iv, c["a"][1])
            ok_val = ok_arm and val[0] == "pat" and val[2] == arm[0][2]
            ctx.ob("R14.2", site_key(iv, "registered only when the child was started"), ok_arm and ok_val, line_of(c),
                   "insert under arm %s of the start result; value is the started session: %s" % (arm[0][1] if arm else "?", ok_val))
            kb = local_of(c["a"][0])
            same = kb is not None
            for s in starts:
                cal = F.fn(s["p"])
                idx = [i for i, p in enumerate(cal.params) if p.get("n") == "invoke_id"]
                same = same and bool(idx) and local_of(s["a"][idx[0] - 1]) == kb
                sid_i = [i for i, p in enumerate(cal.params) if p.get("n") == "parent"]
                okp = bool(sid_i) and term(iv, s["a"][sid_i[0] - 1]) == ("ctor", "Some", ("global", "session_id"))
                ctx.ob("R14.2", site_key(iv, "child knows its parent session", starts.index(s)), okp, line_of(s), "parent argument %s" % (show(term(iv, s["a"][sid_i[0] - 1])) if sid_i else "?"))
            ctx.ob("R14.2", site_key(iv, "registered under the id the child reports back"), same, line_of(c), "insert key and the invoke_id argument of every start call are the same local")
            vb = local_of(c["a"][1], NO_T)
            idxo = hirq.order_index(iv)
            want = {"state_id": ("ctor", "Some", ("param", 2)), "invoke_doc_id": ("field", "doc_id", ("param", 3))}
            for fld, wt in sorted(want.items()):
                asg = [n for n in iv.walk() if n.get("k") == "assign" and hirq.field_of(n["l"], NO_T) and hirq.field_of(n["l"], NO_T)[1] == fld and
                       local_of(hirq.field_of(n["l"], NO_T)[0], NO_T) == vb and vb is not None]
                ok = len(asg) == 1 and term(iv, asg[0]["r"]) == wt and idxo[id(asg[0])] < idxo[id(c)]
                ctx.ob("R14.2", site_key(iv, "session.%s set before registration" % fld), ok, line_of(c), "%d assignment(s); value %s" % (len(asg), show(term(iv, asg[0]["r"])) if asg else "-"))

        ci = F.fn(ALG + "cancelInvoke")
        rem = [par for fn, n, kind, meth, par in mutations_of_field(F, "GlobalData", "child_sessions") if _owner(fn) == ci.path and meth == "remove"]
        snd = ci.calls("Datamodel::send")
        ctx.exact("R14.2", "child_sessions.remove sites in cancelInvoke", len(rem), 1)
        ctx.exact("R14.2", "send sites in cancelInvoke", len(snd), 1)
        for r in rem:
            for s in snd:
                fa = bflow.format_args(ci, hirq.resolve(ci, s["a"][1], NO_T))  # inline or hoisted into a `let`
                ok = term(ci, r["a"][0]) == ("param", 2) and dominates_hir(ci, r, s) and not guard_terms(ci, r)
                okt = len(fa) == 2 and fa[0] == ("def", "event_io_processor::scxml_event_io_processor::SCXML_TARGET_SESSION_ID_PREFIX") and fa[1] == ("param", 3) and \
                    const_eval(peel(s["a"][0], NO_T), F) == "scxml"
                ctx.ob("R14.2", site_key(ci, "entry removed before the cancel event is sent"), ok, line_of(r), "remove(%s) dominates send" % show(term(ci, r["a"][0])))
                ctx.ob("R14.2", site_key(ci, "cancel event addressed to the child session"), okt, line_of(s), "target interpolates %s" % [show(x) for x in fa])

        ex = F.fn(ALG + "exitStates")
        cs = ex.calls(ALG + "cancelInvoke")
        ctx.exact("R14.2", "cancelInvoke sites in exitStates", len(cs), 1)
        cdel = [c for c in ex.calls("OrderedSet::delete") if global_field_expr(c["r"], "configuration")]
        EXS = None
        if cdel:
            EXS = term(ex, cdel[0]["a"][0])
        for c in cs:
            entry = ("elem", CHILDREN)
            k, sid = term(ex, c["a"][1]), term(ex, c["a"][2])
            okp = k == ("pat", (("ptup", 0),), entry) and sid == ("field", "session_id", ("pat", (("ptup", 1),), entry))
            ctx.ob("R14.2", site_key(ex, "cancels entries of child_sessions"), okp, line_of(c), "invoke id %s; session id %s" % (show(k), show(sid)))
            gs, sites = _fill_guards(ex, c)
            sess = ("pat", (("ptup", 1),), entry)
            docids = None
            for t, p in gs:
                if p is True and t[0] == "m" and t[1] == "contains" and t[3] == ("field", "invoke_doc_id", sess):
                    docids = t[2]
            okf = docids is not None and EXS is not None and docids == ("coll", frozenset({("field", "doc_id", ("elem", ("field", "invoke", EXS)))}))
            ctx.ob("R14.2", site_key(ex, "exactly the sessions started by the exited state's invokes"), okf, line_of(c),
                   "selected by %s" % (show(docids) if docids else [show(t) for t, p in gs]))
            # inside the exit loop, once per exited state
            inloop = bool(cdel) and _nested(ex, c, cdel[0])
            ctx.ob("R14.2", site_key(ex, "cancelled while the state is exited"), inloop, line_of(c), "cancelInvoke inside the loop that removes the state from the configuration")
            # the per-state id set is created inside the exit loop
            fresh = False
            for st in sites:
                for t, p, raw in guard_terms(ex, st):
                    if p is True and t[0] == "m" and t[1] == "contains" and isinstance(raw, dict) and raw.get("k") == "mcall":
                        b = local_of(raw["r"], NO_T)
                        info = ex.bindings().get(b) if b is not None else None
                        fresh = info is not None and bool(cdel) and _nested(ex, info["node"], cdel[0])
            ctx.ob("R14.2", site_key(ex, "doc-id set is per exited state"), fresh, line_of(c), "the set of invoke doc ids is created inside the exit loop")
    ctx.guard("R14.2", r2)

    # ---------------------------------------------------------------- R14.3
    ctx.rule("R14.3", "mainEventLoop runs <finalize> content only: inv.finalize of the invokes of the state that started the session "
                      "child_sessions[event.invoke_id], for which inv.doc_id == session.invoke_doc_id; after set_event(event), and never "
                      "after selectTransitions(event) without receiving a new event")

    def r3():
        ml = F.fn(ALG + "mainEventLoop")
        ex = ml.calls(ALG + "executeContent")
        ctx.exact("R14.3", "executeContent sites in mainEventLoop", len(ex), 1)
        SESSION = ("pat", ((_SOME, 0),), ("m", "get", CHILDREN, ("pat", ((_SOME, 0),), EV_INVOKE_ID)))
        sets = [c for c in ml.calls("Datamodel::set_event") if term(ml, c["a"][0]) == EV]
        sels = [c for c in ml.calls(ALG + "selectTransitions") if term(ml, c["a"][1]) == EV]
        ctx.exact("R14.3", "set_event(external event) sites", len(sets), 1)
        ctx.exact("R14.3", "selectTransitions(external event) sites", len(sels), 1)
        recv = [b for b, t in ml.mir_calls("Receiver::<T>::recv")]
        for c in ex:
            t = term(ml, c["a"][1])
            ok = t[0] == "field" and t[1] == "finalize" and t[2][0] == "elem" and t[2][1][0] == "field" and t[2][1][1] == "invoke"
            st = t[2][1][2] if ok else None
            sess = _strip_pat(_strip_field(st, "state_id")) if ok else None
            ok_s = ok and sess is not None and _is_child_lookup(sess)
            ctx.ob("R14.3", site_key(ml, "finalize content of the invoking state's invokes"), ok_s, line_of(c), "content %s" % show(t, 200))
            gs, sites = _fill_guards(ml, c)
            okm = False
            for g, p in gs:
                if p is True and g[0] == "bin" and g[1] == "Eq" and ok:
                    sides = {g[2], g[3]}
                    okm = okm or (("field", "doc_id", t[2]) in sides and any(s[0] == "field" and s[1] == "invoke_doc_id" and _is_child_lookup(_strip_pat(s[2])) for s in sides))
            ctx.ob("R14.3", site_key(ml, "only the invoke that started the sending session"), okm, line_of(c),
                   "guards %s" % [show(g, 80) for g, p in gs if g[0] == "bin"])
            for s in sets:
                ctx.ob("R14.3", site_key(ml, "finalize after set_event"), dominates_hir(ml, s, c), line_of(c), "set_event(event) dominates the finalize executeContent")
            for s in sels:
                back = _reaches(ml, _blocks(ml, s), _blocks(ml, c), avoiding=recv)
                fwd = _reaches(ml, _blocks(ml, c), _blocks(ml, s), avoiding=recv)
                ctx.ob("R14.3", site_key(ml, "finalize before selectTransitions"), fwd and not back, line_of(c),
                       "selectTransitions reachable after finalize: %s; finalize reachable after selectTransitions without a new event: %s" % (fwd, back))
    ctx.guard("R14.3", r3)

    # ---------------------------------------------------------------- R14.4
    ctx.rule("R14.4", "the copy of the external event sent to a child (Sender::send(event.clone())) in mainEventLoop is made iff inv.autoforward of an "
                      "invoke, and neither that decision nor the choice of the child depends on the event's own invoke_id; it is made before "
                      "selectTransitions(event)")

    def r4():
        ml = F.fn(ALG + "mainEventLoop")
        fw = [c for c in ml.calls("Sender::<T>::send") if term(ml, c["a"][0]) == EV]
        ctx.exact("R14.4", "forwarding send sites in mainEventLoop", len(fw), 1)
        sels = [c for c in ml.calls(ALG + "selectTransitions") if term(ml, c["a"][1]) == EV]
        recv = [b for b, t in ml.mir_calls("Receiver::<T>::recv")]
        for c in fw:
            gs, sites = _fill_guards(ml, c)
            dep_g = [show(g, 70) for g, p in gs if mentions(g, EV_INVOKE_ID)]
            tgt = term(ml, c["r"])
            dep_t = mentions(tgt, EV_INVOKE_ID)
            ctx.ob("R14.4", site_key(ml, "autoforward independent of the event's invoke id"), not dep_g and not dep_t, line_of(c),
                   "forwarding is decided under %s; the receiving child is %s" % (dep_g or "no test of event.invoke_id", show(tgt, 120)))
            auto = any(p is True and g[0] == "field" and g[1] == "autoforward" and g[2][0] == "elem" and g[2][1][0] == "field" and g[2][1][1] == "invoke" for g, p in gs)
            ctx.ob("R14.4", site_key(ml, "forwarded iff inv.autoforward"), auto, line_of(c), "an enclosing condition is <invoke of a state>.autoforward: %s" % auto)
            ok_child = tgt[0] == "field" and tgt[1] == "sender" and mentions(tgt, CHILDREN)
            ctx.ob("R14.4", site_key(ml, "forwarded to a registered child session"), ok_child, line_of(c), "receiver %s" % show(tgt, 120))
            for s in sels:
                back = _reaches(ml, _blocks(ml, s), _blocks(ml, c), avoiding=recv)
                ctx.ob("R14.4", site_key(ml, "forwarded before transitions are selected"), not back, line_of(c), "send reachable after selectTransitions without a new event: %s" % back)
    ctx.guard("R14.4", r4)

    # ---------------------------------------------------------------- R14.5
    ctx.rule("R14.5", "mainEventLoop removes child_sessions[event.invoke_id] iff event.name starts with EVENT_DONE_INVOKE_PREFIX ('done.invoke.'), "
                      "before the event is processed (events of unknown children are dropped: R13.2; returnDoneEvent: R07.2/R07.4)")

    def r5():
        ml = F.fn(ALG + "mainEventLoop")
        rem = [par for fn, n, kind, meth, par in mutations_of_field(F, "GlobalData", "child_sessions") if _owner(fn) == ml.path and meth == "remove"]
        ctx.exact("R14.5", "child_sessions.remove sites in mainEventLoop", len(rem), 1)
        sels = [c for c in ml.calls(ALG + "selectTransitions") if term(ml, c["a"][1]) == EV]
        recv = [b for b, t in ml.mir_calls("Receiver::<T>::recv")]
        for c in rem:
            k = term(ml, c["a"][0])
            okk = k == ("pat", ((_SOME, 0),), EV_INVOKE_ID)
            okg = under(ml, c, lambda t, p: p is True and t == ("m", "starts_with", ("field", "name", EV), ("def", "fsm::EVENT_DONE_INVOKE_PREFIX")))
            extra = [show(t, 80) for t, p, _ in guard_terms(ml, c)
                     if not (t == ("global", "running") or (t[0] == "arm" and t[2] == EV_INVOKE_ID) or call_named(t, "isCancelEvent") or
                             (t[0] == "m" and t[1] == "starts_with"))]
            ctx.ob("R14.5", site_key(ml, "done.invoke removes the child"), okk and okg and not extra and F.const_value("fsm::EVENT_DONE_INVOKE_PREFIX") == "done.invoke.", line_of(c),
                   "remove(%s) under starts_with(done.invoke.): %s; other conditions: %s" % (show(k), okg, extra))
            for s in sels:
                back = _reaches(ml, _blocks(ml, s), _blocks(ml, c), avoiding=recv)
                ctx.ob("R14.5", site_key(ml, "removed before the event is processed"), not back, line_of(c), "remove reachable after selectTransitions without a new event: %s" % back)
    ctx.guard("R14.5", r5)

    # ---------------------------------------------------------------- R14.6
    ctx.rule("R14.6", "start_fsm_with_data_and_finish_mode inserts a passed value into the root state's data only under "
                      "root.data.get_mut/get/contains_key(<same name>) and only for elements of the `data` parameter")

    def r6():
        sf = F.fn("fsm::start_fsm_with_data_and_finish_mode")
        ins = []
        for n in sf.walk():
            if n.get("k") == "mcall" and n["m"] in ("insert", "set", "put") and n.get("rty", "").startswith("&mut"):
                t = term(sf, n["r"])
                if t[0] == "field" and t[1] == "data" and t[2][0] == "field" and t[2][1] == "pseudo_root":
                    ins.append((n, t))
        ctx.exact("R14.6", "inserts into the root state's data at session start", len(ins), 1)
        didx = [i for i, p in enumerate(sf.params) if p.get("n") == "data"]
        for n, store in ins:
            key = term(sf, n["a"][0])
            val = term(sf, n["a"][1])
            okk = bool(didx) and key == ("field", "name", ("elem", ("param", didx[0])))
            okv = bool(didx) and mentions(val, ("field", "value", ("elem", ("param", didx[0]))))
            declared = under(sf, n, lambda t, p: (p is True and t[0] == "m" and t[1] == "is_some" and t[2][0] == "m" and t[2][1] in ("get_mut", "get") and t[2][2] == store and t[2][3] == key) or
                             (p is True and t[0] == "m" and t[1] == "contains_key" and t[2] == store and t[3] == key))
            ctx.ob("R14.6", site_key(sf, "passed value only for declared data"), okk and declared, line_of(n),
                   "key %s; guards %s" % (show(key), [(show(t, 90), p) for t, p, _ in guard_terms(sf, n)]))
            ctx.ob("R14.6", site_key(sf, "the passed value is stored"), okv, line_of(n), "value %s" % show(val))
        # before the interpreter starts
        it = sf.calls(ALG + "interpret")
        ctx.exact("R14.6", "interpret calls at session start", len(it), 1)
        idx = hirq.order_index(sf)
        for n, store in ins:
            for c in it:
                ctx.ob("R14.6", site_key(sf, "data passed before interpret"), idx[id(n)] < idx[id(c)] and hirq.enclosing_closure(sf, n) is hirq.enclosing_closure(sf, c), line_of(n),
                       "insert precedes interpret() in the session thread")
    ctx.guard("R14.6", r6)

    # ---------------------------------------------------------------- R14.7
    ctx.rule("R14.7", "the child is still registered when <finalize> is looked up: in mainEventLoop the removal of child_sessions[event.invoke_id] "
                      "for a done.invoke.* event does not precede the lookup that selects the finalize block (W3C: finalize applies to every event "
                      "whose invokeid matches, the child's done.invoke included)")

    def r7():
        mel = F.fn(ALG + "mainEventLoop")
        idx = hirq.order_index(mel)
        removes = [c for c in mel.calls("HashMap::remove") if global_field_expr(c["r"], "child_sessions")]
        lookups = [c for c in mel.calls("HashMap::get") if global_field_expr(c["r"], "child_sessions")]
        # the lookup that feeds toFinalize: the one whose Some-arm pushes inv.finalize
        fin = []
        for c in lookups:
            m = next((a for a in mel.ancestors(c) if a.get("k") == "match" and any(x is c for x in hirq.walk(a["e"]))), None)
            if m is not None and any(x.get("k") == "field" and x["n"] == "finalize" for x in hirq.walk(m)):
                fin.append(c)
        ctx.exact("R14.7", "finalize lookups in mainEventLoop", len(fin), 1)
        ctx.floor("R14.7", "child_sessions removals in mainEventLoop", len(removes), 1)
        for i, r in enumerate(removes):
            for f in fin:
                ok = idx[id(r)] > idx[id(f)]
                ctx.ob("R14.7", site_key(mel, "done.invoke removal after the finalize lookup", i), ok, line_of(r),
                       "child_sessions.remove at %s %s the finalize lookup at %s" % (line_of(r), "follows" if ok else "PRECEDES", line_of(f)))
    ctx.guard("R14.7", r7)

    # ---------------------------------------------------------------- R14.8
    ctx.rule("R14.8", "exitStates runs a state's <onexit> content before it cancels the state's invocations (W3C order: onexit handlers, then "
                      "cancelInvoke, then removal from the configuration), so that onexit content can still address the child")

    def r8():
        ex = F.fn(ALG + "exitStates")
        idx = hirq.order_index(ex)
        cancels = ex.calls(ALG + "cancelInvoke")
        contents = ex.calls(ALG + "executeContent")
        ctx.exact("R14.8", "cancelInvoke sites in exitStates", len(cancels), 1)
        ctx.floor("R14.8", "executeContent sites in exitStates", len(contents), 1)
        for c in cancels:
            loops_c = [id(l) for l in hirq.enclosing_loops(ex, c)]
            for e in contents:
                shared = [l for l in hirq.enclosing_loops(ex, e) if id(l) in loops_c]
                ctx.ob("R14.8", site_key(ex, "onexit content precedes cancelInvoke"), bool(shared) and idx[id(e)] < idx[id(c)], line_of(c),
                       "in the exit loop, executeContent (%s) %s cancelInvoke (%s)" % (line_of(e), "precedes" if idx[id(e)] < idx[id(c)] else "FOLLOWS", line_of(c)))
    ctx.guard("R14.8", r8)

    # ---------------------------------------------------------------- R14.9
    ctx.rule("R14.9", "the id that ties a child session to its <invoke> (Invoke.doc_id, copied to ScxmlSession.invoke_doc_id and compared in exitStates "
                      "and in the finalize lookup) is unique per <invoke>: the XML reader draws it from DOC_ID_COUNTER.fetch_add when the element is "
                      "read (the deserializer restores it)")

    def r9():
        muts = mutations_of_field(F, "Invoke", "doc_id")
        writers = sorted({fn.path for fn, n, kind, meth, par in muts if kind == "assign"})
        reader_w = [(fn, par) for fn, n, kind, meth, par in muts if kind == "assign" and fn.path.startswith("scxml_reader::")]
        drawn = [1 for fn, par in reader_w if any(c.get("k") == "mcall" and c["m"] == "fetch_add" and "DOC_ID_COUNTER" in describe(c["r"]) for c in hirq.walk(par["r"]))]
        ctx.ob("R14.9", "reader assigns Invoke.doc_id from DOC_ID_COUNTER", bool(drawn), reader_w[0][0].where if reader_w else "",
               "writers of Invoke.doc_id: %s; %d of them in the XML reader draw it from DOC_ID_COUNTER.fetch_add" % (writers or "NONE besides the constructor", len(drawn)))
        uses = [fn.path for fn, n in field_uses(F, "Invoke", "doc_id")]
        ctx.floor("R14.9", "uses of Invoke.doc_id", len(uses), 4)
    ctx.guard("R14.9", r9)


# ------------------------------------------------------------------------------------------ helpers
_SOME = "std::prelude::v1::Some"


def guard_terms_excluding_running(fn, node):
    out = []
    for t, p, _ in guard_terms(fn, node):
        if t == ("global", "running") and p is True:
            continue
        if p is False and t == ("global", "running"):
            continue
        if p is False and t[0] == "un" and t[1] == "Not" and t[2] == ("global", "running"):
            continue
        out.append((t, p))
    return out


def _sort_comparator(fn, forloop):
    base, chain = method_chain(fn, forloop["iter"])
    srt = [n for m, n in chain if m == "sort"]
    if not srt:
        return None
    return comparator_of(fn, srt[0])


def _nested(fn, a, b):
    """a lies inside every loop that encloses b."""
    la = [id(x) for x in hirq.enclosing_loops(fn, a)]
    lb = [id(x) for x in hirq.enclosing_loops(fn, b)]
    return len(la) >= len(lb) and (not lb or la[len(la) - len(lb):] == lb) and bool(lb)


def _strip_pat(t):
    while isinstance(t, tuple) and t and t[0] == "pat":
        t = t[2]
    return t


def _strip_field(t, name):
    t = _strip_pat(t)
    if isinstance(t, tuple) and t and t[0] == "field" and t[1] == name:
        return t[2]
    return None


def _is_child_lookup(t):
    """t = child_sessions.get(<Some-binding of event.invoke_id>)"""
    return isinstance(t, tuple) and len(t) == 4 and t[0] == "m" and t[1] == "get" and t[2] == CHILDREN and _strip_pat(t[3]) == EV_INVOKE_ID
