"""Symbolic value terms over the resolved HIR (shared by C06, C07, C14).

`term(fn, expr)` describes where the value of an expression comes from, independent of local
names, hoisted `let`s, reference/deref/clone noise and "copy the ids into a Vec first" idioms:

  ("param", i)                       i-th parameter of fn
  ("cparam", closure path, i)        i-th parameter of an inline closure
  ("elem", T)                        an element of the collection T (for-loop variable)
  ("pat", destructuring, T)          a variable bound by matching T (Some(x), (a, b), ...)
  ("global", field)                  <guard on GlobalData>.field
  ("field", name, T)                 T.name        (State.id is collapsed: a state *is* its id)
  ("m", name, T, args...)            T.name(args)  (get_state_by_id(x) is collapsed to x)
  ("call", name, args...)            free / associated function call, `self.name(args)` too
  ("coll", {elements})               a local collection created empty and filled by push/add/insert/extend
  ("alt", {T1, T2})                  one of several values (if/else, match, several assignments)
  ("ctor", "Some"|"Ok", T)           Some(T) / Ok(T); ("tup", ...), ("array", ...), ("struct", path, (field, T)...)
  ("out", callee, i)                 whatever `callee` wrote through its i-th argument (`&mut local` handed out)
  ("lit", v), ("def", path), ("bin", op, L, R), ("un", op, T), ("closure", path), ("unit",), ("never",),
  ("v", binding) / ("?", kind, n)    not resolved further (never equal to anything but itself)

Terms are flow-insensitive: a local assigned in several places is the ("alt", ..) of its definitions. Rules that
need an order (A before B, on every path, not after) ask the MIR CFG, not the terms.

Nothing here looks at names of locals, source text or positions.
"""
import hirq
from hirq import peel, local_of
from facts import path_matches
from common import NO_T, owner_in_type

# no-argument methods that hand on the same value / the same elements
SAME_VALUE = {"clone", "as_str", "as_ref", "as_mut", "to_string", "to_owned", "deref", "deref_mut", "borrow", "borrow_mut",
              "into", "as_slice", "as_mut_slice", "iter", "iter_mut", "into_iter", "iterator", "unwrap", "lock", "as_deref",
              "copied", "cloned", "to_vec"}
# element-preserving conversions (order may change, membership does not)
SAME_ELEMENTS = {"toList", "to_set", "sort", "sort_by", "set_to_state_list", "state_list_to_id_set", "values", "keys"}
EMPTY_CTORS = ("Vec::<T>::new", "Vec::new", "List::<T>::new", "OrderedSet::<T>::new", "HashSet::<T>::new", "HashMap::<K, V>::new",
               "Vec::<T>::with_capacity", "VecDeque::<T>::new", "HashTable::<K, T>::new")
ADD_ONE = {"push", "add", "insert", "push_back", "enqueue", "put", "put_move"}
ADD_MANY = {"extend_from_slice", "extend", "append", "push_set", "union", "put_all"}
STATE_LOOKUP = ("fsm::Fsm::get_state_by_id", "fsm::Fsm::get_state_by_id_mut")


def is_empty_ctor(n):
    n = peel(n, NO_T)
    return n.get("k") == "call" and n.get("p") and not n["a"] and any(path_matches(n["p"], c) for c in EMPTY_CTORS)


def all_defs(fn, b):
    """Every expression that defines local b: the let initialiser plus all plain assignments."""
    info = fn.bindings().get(b)
    out = []
    if info is None:
        return out
    if info.get("init") is not None:
        out.append(info["init"])
    for a in fn.assignments_to(b):
        if a.get("k") == "assign":
            out.append(a["r"])
    return out


def fills(fn, b):
    """[(method, call node, 'one'|'many')] for calls that add to the local collection b; plus out-parameter uses
    [(call node, arg index)] where `&mut b` is handed to another function."""
    adds, outs, other = [], [], []
    for n in fn.walk():
        k = n.get("k")
        if k == "mcall" and local_of(n["r"], NO_T) == b:
            if n["m"] in ADD_ONE and n["a"]:
                adds.append((n["m"], n, "one"))
            elif n["m"] in ADD_MANY and n["a"]:
                adds.append((n["m"], n, "many"))
            elif n.get("rty", "").startswith("&mut") and n["m"] not in SAME_VALUE:
                other.append(n)
        if k in ("mcall", "call"):
            for i, a in enumerate(n["a"]):
                if a.get("k") == "ref" and a.get("mut") and local_of(a["e"], NO_T) == b:
                    outs.append((n, i))
    return adds, outs, other


def _name(p):
    return (p or "?").split("::")[-1]


def term(fn, n, depth=16, _seen=None):
    _seen = _seen or frozenset()
    if depth <= 0:
        return ("?", "depth", id(n))
    n = peel(n, NO_T)
    k = n.get("k")
    rec = lambda x: term(fn, x, depth, _seen)   # structural recursion is bounded by the tree; depth counts binding hops
    if k == "path":
        r = n["r"]
        if r.get("k") == "def":
            return ("def", r.get("p"))
        b = r["b"]
        if b in _seen:
            return ("v", b)
        info = fn.bindings().get(b)
        if info is None:
            return ("v", b)
        seen2 = _seen | {b}
        rec2 = lambda x: term(fn, x, depth - 1, seen2)
        src = info["from"]
        des = info.get("destruct")
        if src == "param":
            t = ("param", info["index"])
            return project(des, t)
        if src == "closure_param":
            t = ("cparam", info["closure"].get("p"), info["index"])
            return project(des, t)
        if src == "for":
            t = elem_of(rec2(info["iter"]))
            return project(des, t)
        if src == "match":
            return project(des, rec2(info["scrutinee"])) if des else ("pat", (), rec2(info["scrutinee"]))
        if src == "iflet":
            return project(des, rec2(info["init"])) if des else ("pat", (), rec2(info["init"]))
        if src == "let":
            if des:
                return project(des, rec2(info["init"])) if info.get("init") is not None else ("v", b)
            defs = all_defs(fn, b)
            if defs and all(is_empty_ctor(d) for d in defs):
                adds, outs, other = fills(fn, b)
                els = set()
                for m, c, how in adds:
                    a = c["a"][-1] if len(c["a"]) == 2 else c["a"][0]   # map-like insert(key, value): the value
                    t = rec2(a)
                    els.add(t if how == "one" else elem_of(t))
                for c, i in outs:
                    els.add(("elem", ("out", _name(c.get("p")), i)))
                return ("coll", frozenset(els))
            ts = set(rec2(d) for d in defs)
            # `&mut b` handed to a callee: the callee may have written it
            for c, i in fills(fn, b)[1]:
                ts.add(("out", _name(c.get("p")), i))
            if not ts:
                return ("v", b)
            return alt(ts)
        return ("v", b)
    if k == "field":
        base = n["e"]
        if owner_in_type(n.get("bty", ""), "GlobalData"):
            return ("global", n["n"])
        if n["n"] == "id" and owner_in_type(n.get("bty", ""), "State"):
            return rec(base)
        bt = rec(base)
        if n["n"].isdigit() and isinstance(bt, tuple) and bt and bt[0] == "tup" and int(n["n"]) + 1 < len(bt):
            return bt[1 + int(n["n"])]
        return ("field", n["n"], bt)
    if k == "mcall":
        m = n["m"]
        p = n.get("p") or ""
        if not n["a"] and m in SAME_VALUE:
            return rec(n["r"])
        if any(path_matches(p, s) for s in STATE_LOOKUP):
            return rec(n["a"][0])
        if local_of(n["r"], NO_T) is not None and fn.params and local_of(n["r"], NO_T) == fn.params[0].get("b") and fn.params[0].get("n") == "self":
            return ("call", m) + tuple(rec(a) for a in n["a"])
        return ("m", m, rec(n["r"])) + tuple(rec(a) for a in n["a"])
    if k == "call":
        p = n.get("p")
        nm = _name(p)
        if p and nm in ("Some", "Ok", "Box::new") and len(n["a"]) == 1:
            return ("ctor", nm, rec(n["a"][0]))
        return ("call", nm if p else "?") + tuple(rec(a) for a in n["a"])
    if k == "lit":
        v = n["v"]
        return ("lit", str(list(v.values())[0]))
    if k == "bin":
        return ("bin", n["op"], rec(n["l"]), rec(n["r"]))
    if k == "un":
        return ("un", n["op"], rec(n["e"]))
    if k == "closure":
        return ("closure", n.get("p"))
    if k == "if":
        ts = set()
        if not hirq.diverges(n["t"]):
            ts.add(rec(n["t"]))
        if "e" in n and not hirq.diverges(n["e"]):
            ts.add(rec(n["e"]))
        return alt(ts) if ts else ("never",)
    if k == "match":
        ts = {rec(a["body"]) for a in n["arms"] if not hirq.diverges(a["body"])}
        return alt(ts) if ts else ("never",)
    if k == "block":
        if "tail" in n:
            return rec(n["tail"])
        return ("unit",)
    if k == "index":
        return ("elem", rec(n["e"]))
    if k == "tup":
        return ("tup",) + tuple(rec(a) for a in n["a"])
    if k == "array":
        return ("array",) + tuple(rec(a) for a in n["a"])
    if k == "struct":
        return ("struct", n["r"].get("p")) + tuple((f[0], rec(f[1])) for f in n["f"])
    if k == "try":
        return rec(n["e"])
    return ("?", k, id(n))


def project(des, t):
    """applies a destructuring path to a term: (a, b).0 -> a, Some(x).0 -> x; the rest stays a ("pat", ..) term."""
    des = tuple(des or ())
    while des:
        kind, i = des[0]
        if isinstance(t, tuple) and t and t[0] == "tup" and kind == "ptup" and isinstance(i, int) and i + 1 < len(t):
            t = t[1 + i]
        elif isinstance(t, tuple) and t and t[0] == "ctor" and _name(kind) == t[1] and i == 0:
            t = t[2]
        else:
            break
        des = des[1:]
    return ("pat", des, t) if des else t


def alt(ts):
    flat = set()
    for t in ts:
        if isinstance(t, tuple) and t and t[0] == "alt":
            flat |= set(t[1])
        else:
            flat.add(t)
    if len(flat) == 1:
        return next(iter(flat))
    return ("alt", frozenset(flat))


def elem_of(t):
    """element of the collection described by t (copies through local collections are looked through)."""
    t = same_elements(t)
    if t[0] == "coll":
        els = t[1]
        if len(els) == 1:
            return next(iter(els))
        return ("alt", frozenset(els)) if els else ("elem", t)
    return ("elem", t)


def same_elements(t):
    """strips element-preserving wrappers: x.toList().sort(cmp) ~ x."""
    while isinstance(t, tuple) and t:
        if t[0] == "m" and t[1] in SAME_ELEMENTS:
            t = t[2]
        elif t[0] == "call" and t[1] in SAME_ELEMENTS and len(t) == 3:
            t = t[2]
        else:
            break
    return t


def subterms(t):
    st = [t]
    while st:
        x = st.pop()
        yield x
        if isinstance(x, tuple):
            for y in x:
                if isinstance(y, (tuple, frozenset)):
                    st.append(y)
        elif isinstance(x, frozenset):
            st.extend(x)


def mentions(t, sub):
    return any(x == sub for x in subterms(t))


def mentions_where(t, pred):
    return any(isinstance(x, tuple) and pred(x) for x in subterms(t))


def alternatives(t):
    return list(t[1]) if isinstance(t, tuple) and t and t[0] == "alt" else [t]


def show(t, lim=160):
    def s(x):
        if isinstance(x, frozenset):
            return "{" + "|".join(sorted(s(y) for y in x)) + "}"
        if isinstance(x, tuple):
            if not x:
                return "()"
            h = x[0]
            if h == "param":
                return "param%d" % x[1]
            if h == "cparam":
                return "cparam%d" % x[2]
            if h == "global":
                return "G." + x[1]
            if h == "field":
                return s(x[2]) + "." + x[1]
            if h == "elem":
                return "elem(" + s(x[1]) + ")"
            if h == "m":
                return "%s.%s(%s)" % (s(x[2]), x[1], ",".join(s(y) for y in x[3:]))
            if h == "call":
                return "%s(%s)" % (x[1], ",".join(s(y) for y in x[2:]))
            if h == "lit":
                return repr(x[1])
            if h == "def":
                return _name(x[1])
            if h == "pat":
                return "pat%s(%s)" % ("".join("." + str(d[1]) for d in (x[1] or ())), s(x[2]))
            if h == "closure":
                return "|..|"
            if h == "?":
                return "?" + str(x[1])
            if h == "v":
                return "local"
            if h == "out":
                return "out(%s#%d)" % (x[1], x[2])
            return h + "(" + ",".join(s(y) for y in x[1:]) + ")"
        return str(x)
    r = s(t)
    return r if len(r) <= lim else r[:lim] + "..."


def format_args(fn, root):
    """terms of the values interpolated by a format!/format_args! expansion below root, in order."""
    out = []
    for n in fn.walk(root):
        if n.get("k") == "call" and n.get("p") and "fmt::rt::Argument" in n["p"] and n["a"]:
            out.append(term(fn, n["a"][0]))
    return out


# ------------------------------------------------------------------------------------------ guards as terms

def guard_terms(fn, node):
    """[(term, polarity|None, raw)] for every condition that must hold for node to execute.
    Match arms / if-let: polarity None, term = ("arm", pattern head, scrutinee term)."""
    out = []
    for a, pol in hirq.guard_atoms(fn, node):
        if pol is None:
            g = a
            out.append((("arm", pat_head(g["pat"]), term(fn, g["cond"])), None, g))
        elif isinstance(a, dict) and a.get("k") == "letx":
            out.append((("arm", pat_head(a["pat"]), term(fn, a["init"])), pol, a))
        else:
            out.append((term(fn, a), pol, a))
    return out


def pat_head(p):
    k = p.get("k")
    if k in ("pts", "pstruct", "ppath"):
        return _name(p["r"].get("p"))
    if k == "bind":
        return "_"
    if k == "wild":
        return "_"
    if k == "plit":
        return str(p.get("v"))
    if k == "por":
        return "|".join(pat_head(x) for x in p["a"])
    return k or "?"


def under(fn, node, pred):
    """some guard (term, pol) of node satisfies pred(term, pol)."""
    return any(pred(t, p) for t, p, _ in guard_terms(fn, node))


def call_named(t, name):
    return isinstance(t, tuple) and len(t) >= 2 and t[0] in ("call", "m") and t[1] == name


def call_args(t):
    return t[2:] if t[0] == "call" else t[3:]


# ------------------------------------------------------------------------------------------ MIR helpers

def call_blocks(fn, node):
    """MIR call blocks carrying exactly the span of a HIR call node."""
    return [b for b in fn.blocks_of_span(node["s"]) if fn.blocks[b]["t"]["k"] == "call"]


def field_reads(fn, field):
    """[(block, false_target, true_target, read_block)] for every `switch` on a value copied from `<place>.field`
    (directly, or through single-assignment locals such as a hoisted `let r = g.field;`); read_block is where the field
    itself was read."""
    ndefs = {}
    for b in fn.blocks:
        for st in b["st"]:
            if st.get("k") == "assign" and isinstance(st.get("d"), int):
                ndefs[st["d"]] = ndefs.get(st["d"], 0) + 1
        t = b["t"]
        if t["k"] == "call" and isinstance(t.get("d"), int):
            ndefs[t["d"]] = ndefs.get(t["d"], 0) + 1
    carriers = {}
    changed = True
    while changed:
        changed = False
        for bi, b in enumerate(fn.blocks):
            for st in b["st"]:
                if st.get("k") != "assign" or not isinstance(st.get("d"), int) or st["d"] in carriers or ndefs.get(st["d"]) != 1:
                    continue
                if st["rv"].get("k") != "use":
                    continue
                for o in st["rv"].get("ops") or []:
                    pl = o.get("cp", o.get("mv"))
                    if isinstance(pl, list) and pl and isinstance(pl[-1], str) and pl[-1] == field:
                        carriers[st["d"]] = bi
                        changed = True
                    elif isinstance(pl, int) and pl in carriers:
                        carriers[st["d"]] = carriers[pl]
                        changed = True
    out = []
    for bi, b in enumerate(fn.blocks):
        t = b["t"]
        if t["k"] != "switch":
            continue
        op = t["op"].get("mv", t["op"].get("cp"))
        if isinstance(op, int) and op in carriers:
            f = [tb for v, tb in t["vals"] if v == "0"]
            out.append((bi, f[0] if f else None, t["else"], carriers[op]))
    return out


def field_writes(fn, field):
    """[(block, operand)] for `<place>.field = operand`."""
    out = []
    for bi, b in enumerate(fn.blocks):
        for st in b["st"]:
            d = st.get("d")
            if st.get("k") == "assign" and isinstance(d, list) and d and d[-1] == field:
                ops = st["rv"].get("ops") or []
                out.append((bi, ops[0] if ops else None))
    return out
