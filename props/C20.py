"""C20 — the BasicHTTP processor turns each valid POST into exactly one event.

Decided (structural necessary conditions, default feature configuration):
  R20.1 control shape of rocket_receive_event (one send site, outside every cycle, only under
        session-found and event-name-present, Status::Ok only on the Ok arm of that send, every
        other result is an error status on a path without a send),
  R20.2 agreement of the form-field names between BasicHTTPEventIOProcessor::send and the receiver,
  R20.3 agreement of the published location and the mounted route (/scxml/<id>, POST, form body).
Not decided: URL encoding symmetry of ureq/rocket, status codes on the wire, concurrent posts.
"""
from common import *
import hirq

MOD = "event_io_processor::http_event_io_processor::"
RECV = MOD + "rocket_receive_event"
SEND = "<" + MOD + "BasicHTTPEventIOProcessor as event_io_processor::EventIOProcessor>::send"
GETLOC = "<" + MOD + "BasicHTTPEventIOProcessor as event_io_processor::EventIOProcessor>::get_location"
NEW = MOD + "BasicHTTPEventIOProcessor::new"

# rocket::http::Status associated constants that report a failure (4xx / 5xx); semantic table
ERROR_STATUS = {"BadRequest", "Unauthorized", "PaymentRequired", "Forbidden", "NotFound", "MethodNotAllowed", "NotAcceptable",
                "RequestTimeout", "Conflict", "Gone", "LengthRequired", "PreconditionFailed", "PayloadTooLarge", "UriTooLong",
                "UnsupportedMediaType", "ExpectationFailed", "ImATeapot", "MisdirectedRequest", "UnprocessableEntity", "Locked",
                "FailedDependency", "UpgradeRequired", "PreconditionRequired", "TooManyRequests", "RequestHeaderFieldsTooLarge",
                "UnavailableForLegalReasons", "InternalServerError", "NotImplemented", "BadGateway", "ServiceUnavailable",
                "GatewayTimeout", "HttpVersionNotSupported", "InsufficientStorage", "LoopDetected", "NotExtended",
                "NetworkAuthenticationRequired"}
CHANNEL_SEND = ("std::sync::mpsc::Sender::<T>::send", "std::sync::mpsc::SyncSender::<T>::send", "BlockingQueue::<T>::enqueue")


# ------------------------------------------------------------------------------------------------
# local helpers
# ------------------------------------------------------------------------------------------------

def some_payload(fn, b):
    """If local b is bound by a `Some(b)` pattern (if let / match arm): (matched expression, binding info)."""
    info = fn.bindings().get(b)
    if not info or info["from"] not in ("iflet", "match"):
        return None
    d = info.get("destruct") or ()
    if len(d) != 1 or not str(d[0][0]).endswith("Some") or d[0][1] != 0:
        return None
    return (info.get("init") if info["from"] == "iflet" else info.get("scrutinee")), info


def unwrap_site(fn, b):
    """How local b was taken out of an Option. Returns {"scrutinee", "construct", "scope"} or None.
    Forms: `match E { Some(b) => scope, .. }`, `if let Some(b) = E { scope }`, `let Some(b) = E else { diverge }` and
    `let b = match E { Some(x) => x, _ => diverge }` (scope None = the rest of the enclosing block)."""
    info = fn.bindings().get(b)
    if info is None:
        return None
    d = info.get("destruct") or ()
    some = len(d) == 1 and str(d[0][0]).endswith("Some") and d[0][1] == 0
    if info["from"] == "match" and some:
        return {"scrutinee": info["scrutinee"], "construct": info["node"], "scope": info["arm"]["body"]}
    if info["from"] == "iflet" and some:
        p = fn.parent(info["node"])
        while p is not None and p.get("k") not in ("if", "while"):
            p = fn.parent(p)
        if p is None:
            return None
        return {"scrutinee": info["init"], "construct": p, "scope": p["t"] if p.get("k") == "if" else p["body"]}
    if info["from"] == "let" and some and info["node"].get("els") is not None and hirq.diverges(info["node"]["els"]):
        return {"scrutinee": info["init"], "construct": info["node"], "scope": None}
    if info["from"] == "let" and not d and info.get("init") is not None:
        m = peel(info["init"], NO_T)
        if m.get("k") == "match":
            good = [a for a in m["arms"] if pat_ctor(a["pat"]) == "Some"]
            rest = [a for a in m["arms"] if not any(a is g for g in good)]
            if len(good) == 1 and good[0]["pat"].get("k") == "pts" and local_of(good[0]["body"]) == good[0]["pat"]["a"][0].get("b") \
                    and rest and all(hirq.diverges(a["body"]) for a in rest):
                return {"scrutinee": m["e"], "construct": info["node"], "scope": None}
    return None


def result_leaves(fn):
    out = []

    def tails(n):
        k = n.get("k")
        if k == "block":
            if "tail" in n:
                tails(n["tail"])
        elif k == "if":
            tails(n["t"])
            if "e" in n:
                tails(n["e"])
        elif k == "match":
            for a in n["arms"]:
                tails(a["body"])
        elif k == "ret":
            pass
        else:
            out.append(n)
    tails(fn.hir)
    for r in fn.nodes("ret"):
        if "e" in r and hirq.enclosing_closure(fn, r) is None:
            tails(r["e"])
    return out


def pat_ctor(p):
    """Name of the constructor a pattern tests (`Some`, `None`, `Ok`, `Err`, a const path) or None."""
    if not isinstance(p, dict):
        return None
    if p.get("k") in ("pts", "ppath", "pstruct"):
        return p["r"].get("p", "").split("::")[-1]
    return None


def decode_template(lit):
    """Decodes the byte-coded template of a lowered `format_args!` literal into ['text' | ('arg', position)].
    Encoding (rustc_ast_lowering::format): n<0x80: n literal bytes; 0x80: u16 length + bytes; 0xC0|opts: placeholder
    (opts bit0: u32 flags, bit1: u16 width, bit2: u16 precision, bit3: u16 explicit position); 0: end."""
    v = lit.get("v", {})
    if "str" in v:
        return [v["str"]]
    txt = v.get("other", "")
    if not txt.startswith("ByteStr(["):
        raise AnchorMissing("not a format template literal: %r" % txt[:40])
    by = [int(x) for x in txt[len("ByteStr(["):txt.index("]")].split(",") if x.strip()]
    out = []
    i = 0
    implicit = 0
    while i < len(by):
        b = by[i]
        i += 1
        if b == 0:
            break
        if b < 0x80 or b == 0x80:
            if b == 0x80:
                n = by[i] | (by[i + 1] << 8)
                i += 2
            else:
                n = b
            out.append(bytes(by[i:i + n]).decode("utf-8"))
            i += n
        elif b & 0xC0 == 0xC0:
            if b & 1:
                i += 4
            if b & 2:
                i += 2
            if b & 4:
                i += 2
            pos = implicit
            if b & 8:
                pos = by[i] | (by[i + 1] << 8)
                i += 2
            implicit = pos + 1
            out.append(("arg", pos))
        else:
            raise AnchorMissing("unknown format opcode %d" % b)
    return out


def format_parts(fn, n):
    """For an expression that is `format!(..)` (possibly behind must_use / blocks): the template as a list of
    literal strings and argument expressions, else None."""
    n = peel(n, NO_T)
    if is_call(n, "std::hint::must_use") and n["a"]:
        n = n["a"][0]
        while n.get("k") == "block" and not n["st"] and "tail" in n:
            n = n["tail"]
    if not is_call(n, "std::fmt::format"):
        return None
    news = [c for c in hirq.walk(n) if is_call(c, "std::fmt::Arguments::new") or is_call(c, "std::fmt::Arguments::from_str")
            or is_call(c, "std::fmt::Arguments::new_const")]
    if len(news) != 1:
        raise AnchorMissing("format! lowering not recognised at %s" % line_of(n))
    c = news[0]
    tmpl = decode_template(peel(c["a"][0], NO_T))
    if len(c["a"]) < 2:
        return tmpl
    # argument array: [Argument::new_*(tuple.K), ...] with tuple = (&a, &b, ..)
    arr = hirq.origin(fn, c["a"][1])
    arr = arr.get("expr") if arr.get("from") == "expr" else None
    if arr is None or arr.get("k") != "array":
        raise AnchorMissing("format! argument array not recognised at %s" % line_of(n))
    args = []
    for el in arr["a"]:
        el = peel(el, NO_T)
        x = el["a"][0]
        f = hirq.field_of(x, NO_T)
        if f is not None:
            tup = hirq.origin(fn, f[0])
            tup = tup.get("expr") if tup.get("from") == "expr" else None
            if tup is None or tup.get("k") != "tup":
                raise AnchorMissing("format! argument tuple not recognised at %s" % line_of(n))
            x = tup["a"][int(f[1])]
        args.append(x)
    return [p if isinstance(p, str) else args[p[1]] for p in tmpl]


def lca_exclusive(fn, a, b):
    """True when a and b lie in different arms/branches of a common match / if (never both executed)."""
    anc_a = [a] + list(fn.ancestors(a))
    ids_a = {id(x): i for i, x in enumerate(anc_a)}
    prev = b
    for x in fn.ancestors(b):
        if id(x) in ids_a:
            ia = ids_a[id(x)]
            child_a = anc_a[ia - 1] if ia > 0 else None
            if child_a is None:
                return False  # a is an ancestor of b
            if x.get("k") == "match":
                return child_a is not prev and child_a is not x["e"] and prev is not x["e"]
            if x.get("k") == "if":
                return {id(child_a), id(prev)} == {id(x["t"]), id(x.get("e"))}
            return False
        prev = x
    return False


# ------------------------------------------------------------------------------------------------

def run(ctx):
    F = ctx.facts
    ctx.explanation = ("C20: control shape of rocket_receive_event (single acyclic channel send guarded by session lookup and by the event-name "
                       "option; Status::Ok only on the send's Ok arm; error results exclusive with the send), form-field table of "
                       "BasicHTTPEventIOProcessor::send vs the receiver's dispatch, published location template vs rocket route/mount/method")
    ctx.assumptions += [
        "feature BasicHttpEventIOProcessor is enabled (default configuration); rocket's #[post] expansion as seen in the resolved HIR",
        "ureq::post(..).send_form and rocket::form::Form<HashMap<String,String>> are inverse for all names/values (not decided here)",
        "std::sync::mpsc::Sender::send enqueues exactly one message per successful call",
    ]
    if not F.has_fn(RECV):
        ctx.rule("R20.0", "the BasicHTTP processor is part of the analysed configuration")
        ctx.ob("R20.0", "anchor", ctx.config != "default", "", "rocket_receive_event is not compiled in configuration %s" % ctx.config)
        return

    # -------------------------------------------------------------------------------------------- R20.1
    ctx.rule("R20.1", "rocket_receive_event: exactly one site can enqueue (Sender::send, directly or through an in-crate callee); it lies in no "
                      "loop/CFG cycle; it executes only inside the Some-arm of sessions.get(&<route parameter>) on the sender of that session "
                      "and inside the Some-arm of the option that holds the event name, which is what is assigned to event.name of the sent event; "
                      "Status::Ok is produced only on the Ok arm of that send; every other result is a 4xx/5xx status on a path that excludes the "
                      "send (or its Err arm); the session-missing and name-missing arms exist")

    def r1():
        fn = F.fn(RECV)
        cg = F.callgraph
        idx = hirq.order_index(fn)
        # ---- enqueue-capable call sites
        sites = []
        for c in fn.calls():
            p = c.get("p") or ""
            direct = any(path_matches(p, s) or p == s for s in CHANNEL_SEND)
            indirect = False
            if not direct and p in cg.local:
                seen = cg.reachable([p])
                indirect = any(any(path_matches(e["callee"], s) or e["callee"] == s for s in CHANNEL_SEND) for q in seen for e in cg.edges.get(q, ()))
            if direct or indirect:
                sites.append(c)
        ctx.exact("R20.1", "enqueue-capable call sites in rocket_receive_event", len(sites), 1)
        if len(sites) != 1:
            return
        send = sites[0]
        direct = any(path_matches(send["p"], s) for s in CHANNEL_SEND[:2])
        ctx.ob("R20.1", site_key(fn, "the enqueue is a direct Sender::send"), direct, line_of(send), "callee %s" % send["p"])
        # ---- acyclic
        loops = hirq.enclosing_loops(fn, send)
        bl = hir_call_blocks(fn, send)
        cyc = [b for b in bl if fn.cfg.in_cycle(b)]
        ctx.ob("R20.1", site_key(fn, "send outside every cycle"), not loops and bool(bl) and not cyc, line_of(send),
               "%d enclosing loop(s); MIR blocks %s, in a cycle: %s" % (len(loops), bl, cyc))

        def in_scope(u, node):
            """node executes only after the Option of unwrap site u was found to be Some."""
            if u["scope"] is not None:
                return node is u["scope"] or any(x is u["scope"] for x in fn.ancestors(node))
            blk = fn.parent(u["construct"])
            return blk is not None and any(x is blk for x in fn.ancestors(node)) and idx[id(u["construct"])] < idx[id(node)] and \
                not any(x is u["construct"] for x in fn.ancestors(node))

        def failure_of(u, node):
            """node lies on the None-continuation of unwrap site u."""
            inside = any(x is u["construct"] for x in fn.ancestors(node))
            in_scrut = any(x is u["scrutinee"] for x in [node] + list(fn.ancestors(node)))
            return inside and not in_scrut and not in_scope(u, node)

        # ---- session found
        sess_ok = False
        sess_u = None
        sess_detail = "receiver of the send is not <session>.sender"
        if send.get("k") == "mcall":
            o = hirq.origin(fn, send["r"])
            recv = o.get("expr") if o.get("from") == "expr" else None
            f = hirq.field_of(recv, NO_T) if recv is not None else None
            if f and f[1] == "sender":
                b = local_of(f[0], NO_T)
                u = unwrap_site(fn, b) if b is not None else None
                if u is not None:
                    so = hirq.origin(fn, u["scrutinee"])
                    src = so.get("expr") if so.get("from") == "expr" else None
                    if src is not None and src.get("k") == "mcall" and src["m"] == "get":
                        tbl = hirq.field_of(src["r"], NO_T)
                        key_is_param = param_index(fn, src["a"][0]) == 0
                        sess_ok = bool(tbl) and tbl[1] == "sessions" and key_is_param and in_scope(u, send)
                        sess_u = u
                        sess_detail = "sender of the session unwrapped from %s; key is the route parameter: %s; send inside its Some-scope: %s" % (
                            describe(src), key_is_param, in_scope(u, send))
        ctx.ob("R20.1", site_key(fn, "send only when the session is found"), sess_ok, line_of(send), sess_detail)
        # ---- event name present
        name_ok = False
        name_detail = "sent value %s" % describe(send["a"][0])
        name_u = None
        so = hirq.origin(fn, send["a"][0])
        sent = so["expr"] if so.get("from") == "expr" else peel(send["a"][0], NO_T)
        if is_call(sent, "std::boxed::Box::<T>::new") or is_call(sent, "Box::new"):
            sent = peel(sent["a"][0], NO_T)
        ev = local_of(sent, NO_T)
        if ev is not None:
            asg = [a for a in fn.nodes("assign") if is_field_of(a["l"], "name") and local_of(hirq.field_of(a["l"], NO_T)[0], NO_T) == ev]
            name_detail = "%d assignment(s) of %s.name" % (len(asg), describe(sent))
            if len(asg) == 1:
                a = asg[0]
                b = local_of(a["r"])
                u = unwrap_site(fn, b) if b is not None else None
                if u is not None:
                    name_opt = local_of(u["scrutinee"])
                    before = idx[id(a)] < idx[id(send)] and not hirq.enclosing_loops(fn, a) and \
                        all(any(x is y for y in fn.ancestors(send)) for x in fn.ancestors(a) if x.get("k") in ("if", "match"))
                    name_ok = name_opt is not None and in_scope(u, send) and before
                    name_u = u
                    name_detail = "event.name = payload of Some(..) = %s; send inside its Some-scope: %s; assigned on the way to the send: %s" % (
                        describe(u["scrutinee"]), in_scope(u, send), before)
        ctx.ob("R20.1", site_key(fn, "send only when the event name is present"), name_ok, line_of(send), name_detail)

        # ---- results
        def send_outcome(leaf):
            """'Ok' / 'Err' when leaf is produced on that outcome of the send, else None."""
            def is_send(e):
                e0 = peel(e, NO_T)
                if e0 is send:
                    return True
                o = hirq.origin(fn, e)
                return o.get("from") == "expr" and o["expr"] is send
            for g in hirq.guards(fn, leaf):
                if g["how"] == "arm" and is_send(g["cond"]):
                    c = pat_ctor(g["pat"])
                    if c in ("Ok", "Err"):
                        return c
                if g["pol"] is not None:
                    for a, pol in hirq.atoms(g["cond"], g["pol"]):
                        if a.get("k") == "mcall" and a["m"] in ("is_ok", "is_err") and is_send(a["r"]):
                            return "Ok" if (a["m"] == "is_ok") == pol else "Err"
                        if a.get("k") == "letx" and is_send(a["init"]) and pol:
                            c = pat_ctor(a["pat"])
                            if c in ("Ok", "Err"):
                                return c
            return None

        leaves = result_leaves(fn)
        n_ok = n_err = 0
        miss_session = miss_name = False
        for leaf in leaves:
            t = peel(leaf, NO_T)
            st = (hirq.def_path(t["a"][0]) or "") if t.get("k") == "tup" and t["a"] else ""
            sname = st.split("::")[-1] if "Status::" in st else None
            outcome = send_outcome(leaf)
            if sname == "Ok":
                ctx.ob("R20.1", site_key(fn, "Status::Ok only on the Ok arm of the send", n_ok), outcome == "Ok", line_of(leaf),
                       "Status::Ok produced %s" % ("on outcome %s of the send" % outcome if outcome else "independently of the send's outcome"))
                n_ok += 1
                continue
            is_err = sname in ERROR_STATUS
            returned_before = any(x.get("k") == "ret" for x in fn.ancestors(leaf)) and idx[id(leaf)] < idx[id(send)] and not loops
            excl = outcome == "Err" or (outcome is None and (lca_exclusive(fn, leaf, send) or returned_before))
            ctx.ob("R20.1", site_key(fn, "failure result: error status and no send", n_err), is_err and excl, line_of(leaf),
                   "status %s; %s" % (sname or describe(leaf), "Err outcome of the send" if outcome == "Err" else ("exclusive with the send" if excl else "the send may have happened on this path")))
            n_err += 1
            if is_err and excl and outcome is None:
                if sess_u is not None and failure_of(sess_u, leaf):
                    miss_session = True
                if name_u is not None and failure_of(name_u, leaf):
                    miss_name = True
        ctx.floor("R20.1", "Status::Ok results", n_ok, 1)
        ctx.ob("R20.1", site_key(fn, "unknown session => error status, nothing sent"), miss_session, fn.where, "the None-continuation of the session lookup returns an error: %s" % miss_session)
        ctx.ob("R20.1", site_key(fn, "missing event name => error status, nothing sent"), miss_name, fn.where, "the None-continuation of the event-name option returns an error: %s" % miss_name)
        # a valid POST must not be refused because another thread happens to hold a lock: the handler waits for the locks it needs
        # (the Err arm of Mutex::lock is poisoning only; try_lock turns ordinary contention into an error status)
        tries = [(b, t) for b, t in fn.mir_calls("Mutex::try_lock")]
        locks = [(b, t) for b, t in fn.mir_calls("Mutex::lock")]
        ctx.floor("R20.1", "lock acquisitions in the request handler", len(locks) + len(tries), 1)
        ctx.ob("R20.1", site_key(fn, "handler waits for its locks (no try_lock)"), not tries, fn.where,
               "%d blocking lock(s), %d try_lock(s)%s" % (len(locks), len(tries), "" if not tries else
                                                         ": a request that meets contention is answered with an error and enqueues nothing"))
    ctx.guard("R20.1", r1)

    # -------------------------------------------------------------------------------------------- R20.2
    ctx.rule("R20.2", "the form built by BasicHTTPEventIOProcessor::send carries event.name under key K1, event.content under key K2 and every "
                      "element of event.param_values under its own name, unchanged into ureq send_form; the receiver's dispatch on the form key "
                      "stores the value of K1 as the event name, of K2 as event.content (Data::String) and every other pair in event.param_values "
                      "(ParamPair{name: key, value: Data::String(value)}); K1, K2 are equal on both sides, distinct and non-empty")

    def r2():
        sd = F.fn(SEND)
        ev_ix = [i for i, p in enumerate(sd.params) if "fsm::Event" in p.get("ty", "")]
        if not ev_ix:
            raise AnchorMissing("no Event parameter in %s" % sd.path)
        ev_ix = ev_ix[0]

        def role(x, depth=5):
            """Which member of the event parameter an expression's value is taken from."""
            if depth <= 0:
                return None
            root, fields = hirq.field_chain(x)
            b = local_of(root)
            if b is None:
                return None
            if param_index(sd, root) == ev_ix:
                return fields[0] if fields else "event"
            sp = some_payload(sd, b)
            if sp is not None:
                r = role(sp[0], depth - 1)
                return r
            o = hirq.origin(sd, root)
            if o.get("from") == "for":
                r = role(o["node"]["iter"], depth - 1)
                return (r + "[]." + fields[0]) if r and fields else r
            if o.get("from") == "closure_param":
                # element of `xs.iter().map(|e| ..)` / for_each
                src = hirq.element_source(sd, root)
                r = role(src, depth - 1) if src is not None else None
                return (r + "[]." + fields[0]) if r and fields else r
            if o.get("from") == "expr" and o["expr"] is not peel(x):
                return role(o["expr"], depth - 1)
            return None

        # the (key, value) pairs the form is built from: `data.push((k, v))`, the elements of `vec![(k, v), ..]` that initialises it,
        # `data.extend(xs.iter().map(|e| (k, v)))`
        def is_pair(x):
            x = peel(x, NO_T)
            return x.get("k") == "tup" and len(x["a"]) == 2
        pairs = []   # (pair node, vec local, site)
        for c in sd.calls("Vec::<T, A>::push"):
            if is_pair(c["a"][0]):
                pairs.append((peel(c["a"][0], NO_T), local_of(c["r"], NO_T), c))
        for let in sd.nodes("let"):
            init = let.get("init")
            if init is None or let["pat"].get("k") != "bind" or "Vec<" not in let["pat"].get("ty", ""):
                continue
            i0 = init
            while i0.get("k") in ("ref", "cast"):
                i0 = i0["e"]
            if i0.get("k") == "call" and "into_vec" in (i0.get("p") or ""):
                for arr in hirq.walk(i0):
                    if arr.get("k") == "array":
                        for el in arr["a"]:
                            if is_pair(el):
                                pairs.append((peel(el, NO_T), let["pat"]["b"], let))
        for c in sd.calls("Extend::extend"):
            base_e, chain_e = method_chain(sd, c["a"][0], follow_lets=False)
            mp = [n for m, n in chain_e if m == "map"]
            if len(mp) == 1 and all(m in ("iter", "into_iter", "map") for m, _ in chain_e):
                cl = peel(mp[0]["a"][0], NO_T)
                if cl.get("k") == "closure" and is_pair(cl["body"]):
                    pairs.append((peel(cl["body"], NO_T), local_of(c["r"], NO_T), c))
        ctx.exact("R20.2", "form pairs added by send", len(pairs), 3)
        vecs = {vb for _, vb, _ in pairs}
        table = {}
        for i, (pr, _vb, c) in enumerate(pairs):
            k, v = pr["a"]
            kv = const_eval(peel(k, NO_T), F)
            vr = role(v)
            kr = role(k) if kv is None else None
            table.setdefault(vr, []).append((kv, kr, c))
        s_name = [kv for kv, kr, c in table.get("name", [])]
        s_content = [kv for kv, kr, c in table.get("content", [])]
        s_params = [(kv, kr) for kv, kr, c in table.get("param_values[].value", [])]
        ctx.ob("R20.2", site_key(sd, "event.name sent under one literal key"), len(s_name) == 1 and isinstance(s_name[0], str) and s_name[0] != "", sd.where, "keys %s" % s_name)
        ctx.ob("R20.2", site_key(sd, "event.content sent under one literal key"), len(s_content) == 1 and isinstance(s_content[0], str) and s_content[0] != "", sd.where, "keys %s" % s_content)
        ctx.ob("R20.2", site_key(sd, "each parameter sent under its own name"), len(s_params) == 1 and s_params[0] == (None, "param_values[].name"), sd.where,
               "parameter pairs keyed by %s" % s_params)
        # the vector reaches send_form unchanged
        sf = sd.calls("ureq::Request::send_form")
        posts = sd.calls("ureq::post")
        ctx.exact("R20.2", "send_form calls", len(sf), 1)
        ok = False
        detail = "no send_form"
        if sf:
            base, chain = method_chain(sd, sf[0]["a"][0])
            names = [m for m, _ in chain]
            ident = True
            for m, n in chain:
                if m == "map":
                    cl = peel(n["a"][0], NO_T)
                    ident = False
                    if cl.get("k") == "closure" and cl["params"] and cl["params"][0].get("k") == "ptup":
                        pb = [x.get("b") for x in cl["params"][0]["a"]]
                        body = only_stmt_call(cl["body"]) or cl["body"]
                        body = peel(body, NO_T)
                        ident = body.get("k") == "tup" and [local_of(x) for x in body["a"]] == pb
                elif m not in ("iter", "collect", "as_slice", "into_iter", "to_vec", "as_ref"):
                    ident = False
            ok = local_of(base, NO_T) in vecs and len(vecs) == 1 and ident
            tgt = sd.params[[i for i, p in enumerate(sd.params) if p.get("n") == "target"][0]]["b"] if any(p.get("n") == "target" for p in sd.params) else None
            post_ok = len(posts) == 1 and local_of(posts[0]["a"][0]) == tgt and peel(sf[0]["r"], NO_T) is posts[0]
            ok = ok and post_ok
            detail = "send_form(%s via %s), pairs passed through unchanged: %s; POST to the target parameter: %s" % (describe(base), ".".join(names), ident, post_ok)
        ctx.ob("R20.2", site_key(sd, "all pairs reach ureq::post(target).send_form unchanged"), ok, line_of(sf[0]) if sf else sd.where, detail)

        # ---- receiver
        rv = F.fn(RECV)
        fors = [l for l in rv.nodes("for") if l["pat"].get("k") == "ptup" and len(l["pat"]["a"]) == 2]
        form_loops = []
        for l in fors:
            o = hirq.origin(rv, l["iter"])
            src = o.get("expr") if o.get("from") == "expr" else None
            if src is not None and src.get("k") == "mcall" and src["m"] == "into_inner" and "rocket::form::Form<" in (rv.params[param_index(rv, src["r"])]["ty"] if param_index(rv, src["r"]) is not None else ""):
                form_loops.append(l)
        ctx.exact("R20.2", "loops over the posted form", len(form_loops), 1)
        if not form_loops:
            return
        lp = form_loops[0]
        kb, vb = lp["pat"]["a"][0].get("b"), lp["pat"]["a"][1].get("b")
        disp = [m for m in hirq.walk(lp["body"]) if m.get("k") == "match" and local_of(m["e"]) == kb]
        ctx.exact("R20.2", "dispatch on the form key", len(disp), 1)
        if not disp:
            return

        def uses_value(e):
            return hirq.mentions_local(e, vb)

        r_name, r_content, r_default = [], [], []
        name_opts = set()
        for arm in disp[0]["arms"]:
            pat = arm["pat"]
            kv = None
            if pat.get("k") == "ppath":
                kv = F.const_value(pat["r"]["p"]) if pat["r"].get("p") in F.consts else None
            elif pat.get("k") == "plit":
                kv = pat["v"].get("str") if isinstance(pat.get("v"), dict) else None
            is_default = pat.get("k") in ("wild", "bind")
            effects = []
            for a in hirq.walk(arm["body"]):
                if a.get("k") == "assign":
                    f = hirq.field_of(a["l"], NO_T)
                    b = local_of(a["l"], NO_T)
                    r = peel(a["r"], NO_T)
                    if b is not None and is_call(r, "Some") and local_of(r["a"][0]) == vb:
                        effects.append(("opt", b))
                    elif f and f[1] == "content" and owner_in_type(peel(a["l"], NO_T).get("bty", ""), "Event"):
                        inner = peel(r["a"][0], NO_T) if is_call(r, "Some") and r["a"] else {}
                        effects.append(("content", is_call(inner, "datamodel::Data::String") and local_of(inner["a"][0]) == vb))
                if a.get("k") == "mcall" and a["m"] == "push":
                    recv = peel(a["r"], NO_T)
                    # `x.param_values.as_mut().unwrap()` / `x.param_values.get_or_insert_with(Vec::new)`: the Vec inside the option
                    while recv.get("k") == "mcall" and recv["m"] in ("as_mut", "unwrap", "expect", "get_or_insert_with", "get_or_insert", "get_or_insert_default"):
                        recv = peel(recv["r"], NO_T)
                    root, fields = hirq.field_chain(recv)
                    if fields[:1] == ["param_values"]:
                        o = hirq.origin(rv, a["a"][0])
                        st = o.get("expr") if o.get("from") == "expr" else None
                        good = False
                        if st is not None and st.get("k") == "struct" and st["r"].get("p", "").endswith("ParamPair"):
                            fl = dict((x[0], x[1]) for x in st["f"])
                            val = peel(fl.get("value", {}), NO_T)
                            good = local_of(fl.get("name", {})) == kb and is_call(val, "datamodel::Data::String") and local_of(val["a"][0]) == vb
                        effects.append(("param", good))
            for e in effects:
                if e[0] == "opt":
                    r_name.append((kv, e[1], is_default))
                    name_opts.add(e[1])
                elif e[0] == "content":
                    r_content.append((kv, e[1], is_default))
                elif e[0] == "param":
                    r_default.append((kv, e[1], is_default))
        # the option filled in the name arm is the one whose payload becomes event.name
        flows = False
        for a in rv.nodes("assign"):
            if is_field_of(a["l"], "name") and owner_in_type(peel(a["l"], NO_T).get("bty", ""), "Event"):
                b = local_of(a["r"])
                u = unwrap_site(rv, b) if b is not None else None
                if u is not None and local_of(u["scrutinee"]) in name_opts:
                    flows = True
        k1 = r_name[0][0] if len(r_name) == 1 else None
        k2 = r_content[0][0] if len(r_content) == 1 else None
        ctx.ob("R20.2", site_key(rv, "receiver: event name taken from one constant key"), len(r_name) == 1 and isinstance(k1, str) and not r_name[0][2] and flows, line_of(disp[0]),
               "arms %s; the option becomes event.name: %s" % ([(x[0], x[2]) for x in r_name], flows))
        ctx.ob("R20.2", site_key(rv, "receiver: content taken from one constant key as Data::String"), len(r_content) == 1 and isinstance(k2, str) and r_content[0][1] and not r_content[0][2], line_of(disp[0]),
               "arms %s" % [(x[0], x[1]) for x in r_content])
        ctx.ob("R20.2", site_key(rv, "receiver: every other pair becomes a ParamPair"), len(r_default) == 1 and r_default[0][2] and r_default[0][1], line_of(disp[0]),
               "default arm pushes ParamPair{name: key, value: Data::String(value)}: %s" % [(x[1], x[2]) for x in r_default])
        ctx.ob("R20.2", site_key(rv, "key agreement: event name"), len(s_name) == 1 and k1 is not None and s_name[0] == k1, line_of(disp[0]), "sender %s, receiver %r" % (s_name, k1))
        ctx.ob("R20.2", site_key(rv, "key agreement: content"), len(s_content) == 1 and k2 is not None and s_content[0] == k2, line_of(disp[0]), "sender %s, receiver %r" % (s_content, k2))
        ctx.ob("R20.2", site_key(rv, "reserved keys distinct"), k1 is not None and k2 is not None and k1 != k2 and k1 != "" and k2 != "", line_of(disp[0]), "%r / %r" % (k1, k2))
    ctx.guard("R20.2", r2)

    # -------------------------------------------------------------------------------------------- R20.3
    ctx.rule("R20.3", "get_location(id) renders <location><id>; the location stored by BasicHTTPEventIOProcessor::new is scheme://host:port + path P; "
                      "the route of rocket_receive_event (method POST, mounted at base B, form body) is B + static segments + one dynamic segment bound to "
                      "the u32 parameter used as session key; P followed by the id equals that route with the dynamic segment in the id's place")

    def r3():
        gl = F.fn(GETLOC)
        leaves = result_leaves(gl)
        parts = format_parts(gl, leaves[0]) if len(leaves) == 1 else None
        ok = parts is not None and len(parts) == 2 and all(not isinstance(p, str) for p in parts)
        loc_field = ok and is_field_of(parts[0], "location") and param_index(gl, hirq.field_of(parts[0], NO_T)[0]) == 0
        id_param = ok and param_index(gl, parts[1]) == 1
        ctx.ob("R20.3", site_key(gl, "get_location = self.location ++ id"), bool(ok and loc_field and id_param), gl.where,
               "template %s" % ([p if isinstance(p, str) else describe(p) for p in parts] if parts else "not a single format!"))
        # the stored location
        nw = F.fn(NEW)
        lits = [n for n in nw.walk() if n.get("k") == "struct" and n["r"].get("p", "").endswith("BasicHTTPEventIOProcessor")]
        ctx.exact("R20.3", "constructions of BasicHTTPEventIOProcessor in new", len(lits), 1)
        loc_path = None
        for n in lits:
            fl = dict((x[0], x[1]) for x in n["f"])
            lp = format_parts(nw, fl["location"]) if "location" in fl else None
            shape = lp is not None and len(lp) >= 4 and isinstance(lp[0], str) and lp[0].endswith("://") and not isinstance(lp[1], str) \
                and lp[2] == ":" and not isinstance(lp[3], str) and all(isinstance(p, str) for p in lp[4:])
            if shape:
                loc_path = "".join(lp[4:])
            ctx.ob("R20.3", site_key(nw, "location = scheme://host:port/path"), bool(shape), line_of(n),
                   "template %s" % ([p if isinstance(p, str) else "{" + describe(p) + "}" for p in lp] if lp else "location is not a format! literal"))
        # the port in the published location is the port the server listens on
        for n in lits:
            fl = dict((x[0], x[1]) for x in n["f"])
            lp = format_parts(nw, fl["location"]) if "location" in fl else None
            if not lp or len(lp) < 4 or isinstance(lp[3], str):
                continue
            pub_ix = param_index(nw, lp[3])
            pub_c = const_eval(peel(lp[3], NO_T), F)
            conf = []
            for c in nw.calls("rocket::figment::Figment::merge"):
                t = peel(c["a"][0], NO_T)
                if t.get("k") == "tup" and len(t["a"]) == 2 and const_eval(peel(t["a"][0], NO_T), F) == "port":
                    conf.append(t["a"][1])
            okp = len(conf) == 1
            detail = "%d port setting(s) on the rocket configuration" % len(conf)
            if okp:
                c_ix = param_index(nw, conf[0])
                c_c = const_eval(peel(conf[0], NO_T), F)
                if pub_ix is not None and c_ix == pub_ix:
                    detail = "both are parameter #%d" % pub_ix
                elif pub_c is not None and pub_c == c_c:
                    detail = "both are the constant %s" % pub_c
                elif pub_ix is not None and c_c is not None:
                    # every in-crate caller must pass exactly the configured constant
                    passed = [const_eval(peel(c["a"][pub_ix], NO_T), F) for g in F.fn_list if g.hir is not None for c in g.calls(NEW)]
                    okp = bool(passed) and all(p == c_c for p in passed)
                    detail = "server listens on the constant %s; in-crate callers pass %s for the published port" % (c_c, passed)
                else:
                    okp = False
                    detail = "published port %s vs configured port %s" % (describe(lp[3]), describe(conf[0]))
            ctx.ob("R20.3", site_key(nw, "published port == listening port"), okp, line_of(n), detail)
        # every other construction copies the field
        for g in F.fn_list:
            if g.hir is None or g is nw:
                continue
            for i, n in enumerate(x for x in g.walk() if x.get("k") == "struct" and x["r"].get("p", "").endswith("::BasicHTTPEventIOProcessor")):
                fl = dict((x[0], x[1]) for x in n["f"])
                src = peel(fl["location"]) if "location" in fl else {}
                if is_call(src, "std::clone::Clone::clone") and len(src.get("a", [])) == 1:
                    src = peel(src["a"][0])
                okc = "location" in fl and is_field_of(src, "location")
                ctx.ob("R20.3", site_key(g, "copy keeps location", i), okc, line_of(n), "location := %s" % (describe(fl["location"]) if "location" in fl else "?"))
        # the route
        info = F.fn(RECV + "::into_info")
        sts = [n for n in info.walk() if n.get("k") == "struct" and n["r"].get("p", "").endswith("StaticInfo")]
        ctx.exact("R20.3", "StaticInfo of rocket_receive_event", len(sts), 1)
        if not sts:
            return
        fl = dict((x[0], x[1]) for x in sts[0]["f"])
        uri = const_eval(peel(fl["uri"], NO_T), F)
        method = (hirq.def_path(fl["method"]) or "").split("::")[-1]
        # mount base: the mount call whose route list contains rocket_receive_event
        mounts = [c for c in nw.calls("rocket::Rocket::<rocket::Build>::mount") if any(is_call(x, RECV + "::into_route") for x in hirq.walk(c["a"][1]))]
        ctx.exact("R20.3", "mount of rocket_receive_event", len(mounts), 1)
        base = const_eval(peel(mounts[0]["a"][0], NO_T), F) if mounts else None
        rv = F.fn(RECV)
        route = None
        if isinstance(uri, str) and isinstance(base, str):
            route = "/" + "/".join(s for s in (base + "/" + uri).split("/") if s)
        segs = [s for s in (route or "").split("/") if s]
        dyn = [s for s in segs if s.startswith("<") and s.endswith(">")]
        dyn_ok = len(dyn) == 1 and segs[-1] == dyn[0] and "." not in dyn[0]
        pname = dyn[0][1:-1] if dyn else None
        pidx = [i for i, p in enumerate(rv.params) if p.get("n") == pname]
        key_ok = False
        if pidx:
            for c in rv.calls("HashMap::<K, V, S, A>::get"):
                t = hirq.field_of(c["r"], NO_T)
                if t and t[1] == "sessions" and param_index(rv, c["a"][0]) == pidx[0]:
                    key_ok = True
        ty_ok = bool(pidx) and rv.params[pidx[0]].get("ty") == "u32"
        form_ok = any("rocket::form::Form<std::collections::HashMap<std::string::String, std::string::String>>" in t for t in rv.sig["in"])
        ctx.ob("R20.3", site_key(rv, "route: POST with a form body"), method == "Post" and form_ok, rv.where, "method %s; form parameter: %s" % (method, form_ok))
        ctx.ob("R20.3", site_key(rv, "route: one trailing dynamic segment = the session key"), dyn_ok and key_ok and ty_ok, rv.where,
               "route %s; <%s> is the key of sessions.get: %s; type u32: %s" % (route, pname, key_ok, ty_ok))
        static = "/" + "/".join(segs[:-1]) + "/" if dyn_ok else None
        ctx.ob("R20.3", site_key(rv, "published location path == mounted route prefix"), loc_path is not None and static is not None and loc_path == static, rv.where,
               "location path %r + id vs route %r" % (loc_path, route))
        # the sender posts (method agreement)
        sd = F.fn(SEND)
        ctx.ob("R20.3", site_key(sd, "sender uses POST"), len(sd.calls("ureq::post")) == 1 and not sd.calls("ureq::get") and not sd.calls("ureq::put"), sd.where,
               "ureq::post calls: %d" % len(sd.calls("ureq::post")))
    ctx.guard("R20.3", r3)
