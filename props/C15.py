"""C15 — the SCXML event I/O processor routes each send to exactly the addressed queue.

Decided: the dispatch table of ScxmlEventIOProcessor::send (extracted by partial evaluation of the
control conditions for one representative target per class), origin/origintype stamped before the
dispatch, the event built by SendParameters::execute reaching the queue unmodified, agreement of
the reply-address constant between get_location and the dispatcher, atomic id counters.
Not decided: delivery across real threads (mpsc contract); unknown sessions (C12, D6/D7).
"""
from common import *
import hirq
from peval import PE, UNK, NOHOOK, Enum, known, format_pieces
from bflow import guard_terms, show

SCX = "event_io_processor::scxml_event_io_processor::"
PROC = "<" + SCX + "ScxmlEventIOProcessor as event_io_processor::EventIOProcessor>::"
EXEC = "<executable_content::SendParameters as executable_content::ExecutableContent>::execute"
W3C_ORIGINTYPE = "http://www.w3.org/TR/scxml/#SCXMLEventProcessor"


def by_value_uses(fn, bid):
    """Call / method-call nodes that receive local `bid` by value (directly, cloned or boxed) as an argument."""
    out = []
    for c in fn.walk():
        if c.get("k") not in ("call", "mcall") or is_call(c, "Box::new"):
            continue
        for i, a in enumerate(c["a"]):
            x = a
            while x.get("k") == "block" and not x["st"] and "tail" in x:
                x = x["tail"]
            if is_call(x, "Box::new") and len(x["a"]) == 1:
                x = x["a"][0]
            if x.get("k") == "ref":
                continue
            if x.get("k") == "mcall" and x["m"] == "clone" and not x["a"]:
                x = x["r"]
                if x.get("k") == "ref":
                    x = x["e"]
            if x.get("k") == "path" and x["r"].get("k") == "local" and x["r"]["b"] == bid:
                out.append((c, i))
    return out


def run(ctx):
    F = ctx.facts
    ctx.explanation = ("C15: dispatch table of ScxmlEventIOProcessor::send per target class, origin/origintype stamped before dispatch, "
                       "the <send> event reaches the processor unmodified, reply-address constant shared by get_location and the "
                       "dispatcher, session/platform id counters only via fetch_add")
    ctx.assumptions += [
        "std::sync::mpsc delivers what FsmExecutor::send_to_session hands to the session's Sender (channel contract)",
        "AtomicU32::fetch_add returns distinct values to concurrent callers (until wrap-around)",
        "one representative target string per class stands for the class: the dispatcher tests the target only by literal match, starts_with and slicing with the checked constants",
        "rustc's HIR and type resolution for the analysed configuration",
    ]
    send = F.fn(PROC + "send")
    PREFIX = F.const_value(SCX + "SCXML_TARGET_SESSION_ID_PREFIX")
    INTERNAL = F.const_value(SCX + "SCXML_TARGET_INTERNAL")
    PARENT = F.const_value(SCX + "SCXML_TARGET_PARENT")
    INVPFX = F.const_value(SCX + "SCXML_TARGET_INVOKE_ID_PREFIX")

    def classify(c, i):
        if c.get("k") == "mcall" and c["m"] == "enqueue" and global_field_expr(c["r"], "externalQueue"):
            return "own external queue"
        if is_call(c, "fsm::GlobalData::enqueue_internal"):
            return "own internal queue"
        if is_call(c, SCX + "ScxmlEventIOProcessor::send_to_session") and i == 2:
            return "send_to_session"
        return None

    # ------------------------------------------------------------------------------------------ R15.1
    ctx.rule("R15.1", "dispatch table of ScxmlEventIOProcessor::send: '' -> own externalQueue.enqueue; '#_internal' -> enqueue_internal with "
                      "etype=internal; '#_parent' -> send_to_session(parent_session_id); '#_scxml_<n>' -> send_to_session(n); '#_<id>' -> "
                      "send_to_session(child_sessions[id].session_id); other targets deliver nothing and raise error.execution; exactly one "
                      "delivery call is reachable per target class, none inside a loop")

    def r1():
        tb, eb = send.params[2]["b"], send.params[3]["b"]
        uses = by_value_uses(send, eb)
        sites = []
        for c, i in uses:
            kind = classify(c, i)
            sites.append((c, kind))
            ctx.ob("R15.1", site_key(send, "delivery call is one of the three queues", len(sites) - 1), kind is not None and not hirq.enclosing_loops(send, c),
                   line_of(c), "%s receives the event: %s%s" % (describe(c)[:60], kind or "NOT a known delivery", "; inside a loop" if hirq.enclosing_loops(send, c) else ""))
        ctx.exact("R15.1", "delivery calls in ScxmlEventIOProcessor::send", len(sites), 5)
        etype = [a for a in send.walk() if a.get("k") == "assign" and (hirq.field_of(a["l"], NO_T) or (None, None))[1] == "etype"
                 and local_of(hirq.field_of(a["l"], NO_T)[0], NO_T) == eb]
        errs = {"execution": [c for c in send.calls("fsm::GlobalData::enqueue_internal") if is_call(peel(c["a"][0], NO_T), "fsm::Event::error_execution")],
                "communication": [c for c in send.calls("fsm::GlobalData::enqueue_internal") if is_call(peel(c["a"][0], NO_T), "fsm::Event::error_communication")]}

        def sid_role(c, pe):
            """What the session id argument of a send_to_session call is."""
            a = c["a"][1]
            v = pe.ev(a)
            if known(v) and isinstance(v, int):
                return ("number", v)
            o = hirq.origin(send, a)
            if o.get("from") in ("match", "iflet"):
                # match global.parent_session_id { Some(sid) => send_to_session(.., sid, ..), None => <error path> }
                scr = o.get("scrutinee") if o.get("from") == "match" else o.get("init")
                pat = (o.get("arm") or {}).get("pat") or (o.get("node") or {}).get("pat") or {}
                if scr is not None and global_field_expr(peel(scr), "parent_session_id") and str(pat.get("r", {}).get("p", "")).endswith("::Some"):
                    return ("parent", None)
            x = o.get("expr") if o.get("from") == "expr" else None
            if x is not None and x.get("k") == "match":
                # let session_id = match child_sessions.get(invokeid) { Some(session) => session.session_id, None => return }
                for arm in x["arms"]:
                    t = peel(hirq_tail(arm["body"]), NO_T)
                    f = hirq.field_of(t, NO_T)
                    if f and f[1] == "session_id":
                        scr = peel(x["e"], NO_T)
                        if scr.get("k") == "mcall" and scr["m"] == "get" and global_field_expr(scr["r"], "child_sessions"):
                            return ("child", pe.ev(scr["a"][0]))
                return ("?", None)
            f = hirq.field_of(x if x is not None else a)
            if f and f[1] == "parent_session_id" and global_field_expr(peel(x if x is not None else a), "parent_session_id"):
                return ("parent", None)
            return ("?", None)

        def hirq_tail(b):
            while b.get("k") == "block" and "tail" in b:
                b = b["tail"]
            return b

        table = [
            ("", "own external queue", None),
            (INTERNAL, "own internal queue", None),
            (PARENT, "send_to_session", ("parent", None)),
            (PREFIX + "42", "send_to_session", ("number", 42)),
            (INVPFX + "kid7", "send_to_session", ("child", "kid7")),
            ("http://example.org/x", None, None),
            ("plainname", None, None),
            (PREFIX + "4x2", None, None),
        ]
        for t, want, want_sid in table:
            may, sure = [], []
            roles = []
            for c, kind in sites:
                pe = PE(F, send, {tb: t})
                r = pe.reach(c)
                if r is not False:
                    may.append((c, kind))
                    if kind == "send_to_session":
                        roles.append(sid_role(c, pe))
                if r is True:
                    sure.append(c)
            kinds = [k for _, k in may]
            ok = kinds == ([want] if want else [])
            detail = "target '%s': reachable delivery calls %s, expected %s" % (t, kinds, [want] if want else [])
            if ok and want_sid is not None:
                ok = roles == [want_sid]
                detail += "; session id is %s, expected %s" % (roles, want_sid)
            if ok and want == "own internal queue":
                # etype = internal on this path only, before the enqueue
                idx = hirq.order_index(send)
                on = [a for a in etype if PE(F, send, {tb: t}).reach(a) is True and hirq.def_path(a["r"]) == "fsm::EventType::internal"]
                ok = len(on) == 1 and idx[id(on[0])] < idx[id(may[0][0])]
                detail += "; etype = internal assigned before the enqueue: %s" % ok
            if ok and want != "own internal queue":
                on = [a for a in etype if PE(F, send, {tb: t}).reach(a) is not False]
                ok = not on
                detail += "; etype untouched: %s" % ok
            if ok and want is None:
                kind = "communication" if t.startswith(PREFIX) else "execution"
                er = [c for c in errs[kind] if PE(F, send, {tb: t}).reach(c) is True]
                ok = len(er) == 1
                detail += "; error.%s raised: %s" % (kind, ok)
            ctx.ob("R15.1", site_key(send, "target '%s'" % t), ok, send.where, detail)

        # the processor's send_to_session hands every event to the executor's send_to_session (the target session's EXTERNAL queue):
        # one such call, (session_id, event) unchanged, under no condition other than "the executor is there", no exit before it,
        # and the only thing this function may put on the own internal queue is a freshly built error.communication
        sts = F.fn("ScxmlEventIOProcessor::send_to_session")
        ex_calls = sts.calls("FsmExecutor::send_to_session")
        ctx.exact("R15.1", "FsmExecutor::send_to_session calls in the processor's send_to_session", len(ex_calls), 1)
        idx2 = hirq.order_index(sts)
        for c in ex_calls:
            a_sid = param_index(sts, c["a"][0]) == 2
            a_ev = param_index(sts, hirq.peel(c["a"][1])) == 3
            gts = guard_terms(sts, c)
            only_executor = all(g[0] == "arm" and str(g[1]).endswith("Some") for g, pol, raw in gts) and len(gts) <= 1 and not hirq.enclosing_loops(sts, c)
            early = [r for r in sts.nodes("ret") if idx2[id(r)] < idx2[id(c)]]
            ctx.ob("R15.1", site_key(sts, "delivers (session_id, event) through the executor, unconditionally"), a_sid and a_ev and only_executor and not early, line_of(c),
                   "session id is the parameter: %s; event is the parameter: %s; conditions on the way: %s; returns before it: %d" % (
                       a_sid, a_ev, [(show(g), pol) for g, pol, raw in gts], len(early)))
        for i, c in enumerate(sts.calls("enqueue_internal")):
            arg = hirq.peel(c["a"][0], NO_T)
            fresh = is_call(arg, "Event::error_communication")
            ctx.ob("R15.1", site_key(sts, "own internal queue receives only error.communication", i), fresh, line_of(c), "enqueue_internal(%s)" % describe(arg))
    ctx.guard("R15.1", r1)

    # ------------------------------------------------------------------------------------------ R15.2
    ctx.rule("R15.2", "origin_type (= the W3C SCXML processor URI) and origin (= get_location(own session id), when unset) are assigned "
                      "unconditionally before the dispatch; the processor writes no other event field (etype only on the #_internal path); "
                      "the Event built by SendParameters::execute takes name/sendid/params/content from the evaluated attributes and "
                      "reaches EventIOProcessor::send unmodified, through Datamodel::send and the processor's send_to_session")

    def r2_stamp():
        eb = send.params[3]["b"]
        idx = hirq.order_index(send)
        first_delivery = min(idx[id(c)] for c, _ in by_value_uses(send, eb))
        writes = [a for a in send.walk() if a.get("k") in ("assign", "assignop") and hirq.field_chain(a["l"], NO_T)[1] and
                  local_of(hirq.field_chain(a["l"], NO_T)[0], NO_T) == eb]
        names = sorted({hirq.field_chain(a["l"], NO_T)[1][0] for a in writes})
        ctx.ob("R15.2", site_key(send, "event fields written by the processor"), set(names) == {"etype", "origin", "origin_type"}, send.where,
               "fields written: %s (allowed and required: etype, origin, origin_type)" % names)
        other = [n for n in send.walk() if (n.get("k") == "ref" and n.get("mut") and local_of(n["e"], NO_T) == eb) or
                 (n.get("k") == "mcall" and n.get("rty", "").startswith("&mut") and local_of(n["r"], NO_T) == eb)]
        # ... nor one of its fields (`event.invoke_id.clone_from(..)`, `event.name.push_str(..)`, `event.param_values.take()`)
        other += [n for n in send.walk() if n.get("k") == "mcall" and n.get("rty", "").startswith("&mut") and hirq.field_chain(n["r"], NO_T)[1] and
                  local_of(hirq.field_chain(n["r"], NO_T)[0], NO_T) == eb]
        other += [n for n in send.walk() if n.get("k") == "ref" and n.get("mut") and hirq.field_chain(n["e"], NO_T)[1] and
                  local_of(hirq.field_chain(n["e"], NO_T)[0], NO_T) == eb]
        ctx.ob("R15.2", site_key(send, "event is not handed out mutably"), not other, send.where, "%d `&mut event` / `&mut event.<field>` use(s)" % len(other))
        for fld in ("origin_type", "origin"):
            ws = [a for a in writes if hirq.field_chain(a["l"], NO_T)[1] == [fld]]
            ctx.exact("R15.2", "assignments of event.%s" % fld, len(ws), 1)
            for a in ws:
                g = hirq.guards(send, a)
                before = idx[id(a)] < first_delivery
                v = peel(a["r"], NO_T)
                inner = peel(v["a"][0]) if is_call(v, "Some") and len(v["a"]) == 1 else None
                if fld == "origin_type":
                    uncond = not g
                    val = PE(F, send, {}).ev(a["r"])
                    okv = val == Enum("Some", [W3C_ORIGINTYPE])
                    detail = "value %s" % (val,)
                else:
                    uncond = all(x["how"] == "then" and x["pol"] is True and peel(x["cond"], NO_T).get("k") == "mcall" and
                                 peel(x["cond"], NO_T)["m"] == "is_none" and (hirq.field_of(peel(x["cond"], NO_T)["r"], NO_T) or (None, None))[1] == "origin"
                                 for x in g)
                    okv = inner is not None and inner.get("k") == "mcall" and inner["m"] == "get_location" and local_of(inner["r"], NO_T) == send.params[0]["b"]
                    if okv:
                        o = hirq.origin(send, inner["a"][0])
                        okv = o.get("from") == "expr" and global_field_expr(o["expr"], "session_id")
                    detail = "value %s" % describe(a["r"])
                ctx.ob("R15.2", site_key(send, "event.%s stamped before the dispatch" % fld), uncond and before and okv, line_of(a),
                       "%s; unconditional%s: %s; precedes every delivery call: %s" % (detail, " (only skipped when already set)" if fld == "origin" else "", uncond, before))

    def r2_flow():
        ex = F.fn(EXEC)
        selfb, dmb = ex.params[0]["b"], ex.params[1]["b"]
        lits = [n for n in ex.walk() if n.get("k") == "struct" and n["r"].get("p") == "fsm::Event"]
        ctx.exact("R15.2", "Event literals in SendParameters::execute", len(lits), 1)
        lit = lits[0]
        par = ex.parent(lit)
        evb = par["pat"]["b"] if par.get("k") == "let" and par["pat"].get("k") == "bind" else None
        if evb is None:
            raise AnchorMissing("the Event literal is not bound by a let")
        fields = dict((n, e) for n, e in lit["f"])

        def alt_value(e):
            """(value field, expr field) if e is the result of get_expression_alternative_value(&self.A, &self.B)."""
            for _ in range(6):
                e = peel(e)
                if e.get("k") == "mcall" and e["m"] == "get_expression_alternative_value" and local_of(e["r"], NO_T) == dmb:
                    fa, fb = hirq.field_of(e["a"][0]), hirq.field_of(e["a"][1])
                    if fa and fb and local_of(fa[0], NO_T) == selfb and local_of(fb[0], NO_T) == selfb:
                        return fa[1], fb[1]
                    return None
                if e.get("k") == "match":
                    e = e["e"]
                    continue
                if e.get("k") == "try":
                    e = e["e"]
                    continue
                b = local_of(e)
                if b is None:
                    return None
                info = ex.bindings().get(b)
                if info is None:
                    return None
                if info["from"] in ("let", "iflet") and info.get("init") is not None and not ex.assignments_to(b):
                    e = info["init"]
                elif info["from"] == "match":
                    e = info["scrutinee"]
                else:
                    return None
            return None
        ctx.ob("R15.2", site_key(ex, "Event.name <- value of event/eventexpr"), alt_value(fields["name"]) == ("event", "event_expr"), line_of(lit),
               "name derives from get_expression_alternative_value%s" % (alt_value(fields["name"]),))
        sb = local_of(fields["sendid"])
        sdef = hirq.single_def(ex, sb) if sb is not None else None
        reads = {hirq.field_of(n, NO_T)[1] for n in hirq.walk(sdef) if n.get("k") == "field" and local_of(n["e"], NO_T) == selfb} if sdef is not None else set()
        ctx.ob("R15.2", site_key(ex, "Event.sendid <- id / generated idlocation id"), {"name", "name_location"} <= reads, line_of(lit),
               "sendid is local `%s`, defined from self.%s" % (hirq.local_name(fields["sendid"]), sorted(reads)))
        # params: the vector filled by evaluate_params(&self.params, &mut v) (and namelist pushes)
        vecs = set()
        for c in ex.calls("datamodel::Datamodel::evaluate_params"):
            f0 = hirq.field_of(c["a"][0])
            if f0 and f0[1] == "params" and local_of(f0[0], NO_T) == selfb:
                vecs.add(local_of(c["a"][1], NO_T))
        pv = {n["r"]["b"] for n in hirq.walk(fields["param_values"]) if n.get("k") == "path" and n["r"].get("k") == "local"}
        ctx.ob("R15.2", site_key(ex, "Event.param_values <- evaluated <param>/namelist vector"), len(vecs) == 1 and pv == vecs, line_of(lit),
               "param_values reads local(s) %s; evaluate_params fills %s" % (sorted(pv), sorted(vecs)))
        cb = local_of(fields["content"], NO_T)
        casg = ex.assignments_to(cb) if cb is not None else []
        okc = len(casg) == 1
        if okc:
            src = [c for c in ex.calls("datamodel::Datamodel::evaluate_content") if any(x is casg[0] for x in ex.ancestors(c)) or
                   any(g["cond"] is not None and any(y is c for y in hirq.walk(g["cond"])) for g in hirq.guards(ex, casg[0]))]
            f0 = hirq.field_of(src[0]["a"][0]) if src else None
            okc = bool(f0) and f0[1] == "content" and local_of(f0[0], NO_T) == selfb
        ctx.ob("R15.2", site_key(ex, "Event.content <- evaluated <content>"), okc, line_of(lit), "content local assigned once from evaluate_content(&self.content): %s" % okc)
        nones = all(peel(fields[f], NO_T).get("k") == "path" and (hirq.def_path(fields[f]) or "").endswith("::None") for f in ("origin", "origin_type"))
        ext = hirq.def_path(fields["etype"]) == "fsm::EventType::external"
        ctx.ob("R15.2", site_key(ex, "Event.origin/origin_type left to the processor, etype external"), nones and ext, line_of(lit),
               "origin/origin_type = None: %s; etype = external: %s" % (nones, ext))
        # the event is never modified and is what both send paths pass on
        muts = [a for a in ex.walk() if a.get("k") in ("assign", "assignop") and local_of(hirq.field_chain(a["l"], NO_T)[0], NO_T) == evb]
        muts += [n for n in ex.walk() if (n.get("k") == "ref" and n.get("mut") and local_of(n["e"], NO_T) == evb) or
                 (n.get("k") == "mcall" and n.get("rty", "").startswith("&mut") and local_of(n["r"], NO_T) == evb)]
        ctx.ob("R15.2", site_key(ex, "event not modified after construction"), not muts, line_of(lit), "%d write(s) to the built event" % len(muts))
        sends = ex.calls("datamodel::Datamodel::send") + ex.calls("event_io_processor::EventIOProcessor::send")
        ctx.exact("R15.2", "send calls in SendParameters::execute (immediate + delayed)", len(sends), 2)
        for i, c in enumerate(sends):
            okE = local_of(c["a"][2]) == evb
            # the target argument derives from the evaluated target/targetexpr
            tv = alt_value(c["a"][1])
            okG = True
            if c["m"] == "send" and is_call(c, "event_io_processor::EventIOProcessor::send"):
                # the delayed path hands the processor the sender's own global data (origin = own location)
                o = hirq.origin(ex, c["a"][0])
                x = peel(o["expr"], NO_T) if o.get("from") == "expr" else {}
                okG = x.get("k") == "mcall" and x["m"] in ("global", "global_s") and local_of(x["r"], NO_T) == dmb
            ctx.ob("R15.2", site_key(ex, "send(own global data, evaluated target, the built event)", i), okE and okG and tv == ("target", "target_expr"), line_of(c),
                   "event argument is the built event: %s; global data is the executing data model's: %s; target argument derives from "
                   "get_expression_alternative_value%s" % (okE, okG, tv))

    def r2_relay():
        ds = F.fn("datamodel::Datamodel::send")
        cs = ds.calls("event_io_processor::EventIOProcessor::send")
        ctx.exact("R15.2", "processor send calls in Datamodel::send", len(cs), 1)
        for c in cs:
            ok = param_index(ds, c["a"][2]) == 3 and param_index(ds, c["a"][1]) == 2 and \
                peel(c["a"][0], NO_T).get("k") == "mcall" and peel(c["a"][0], NO_T)["m"] in ("global", "global_s") and local_of(peel(c["a"][0], NO_T)["r"], NO_T) == ds.params[0]["b"]
            ctx.ob("R15.2", site_key(ds, "relays (own global data, target, event) unchanged"), ok, line_of(c), "processor.send(%s)" % ",".join(describe(a) for a in c["a"]))
        impls = F.impls.get("datamodel::Datamodel::send", set())
        ctx.ob("R15.2", "datamodel::Datamodel::send|not overridden", impls == {"datamodel::Datamodel::send"}, "", "implementations: %s" % sorted(impls))
        # global() and global_s() of a data model are the same Arc
        gi = {F.fns[p].self_ty: F.fns[p] for p in F.impls.get("datamodel::Datamodel::global", ())}
        gs_ = {F.fns[p].self_ty: F.fns[p] for p in F.impls.get("datamodel::Datamodel::global_s", ())}
        ctx.floor("R15.2", "implementations of Datamodel::global", len(gi), 2)
        for ty in sorted(gi):
            a = hirq.field_of(gi[ty].hir.get("tail", {}))
            b = hirq.field_of(gs_[ty].hir.get("tail", {})) if ty in gs_ else None
            ctx.ob("R15.2", site_key(gi[ty], "global() and global_s() return the same field"), bool(a) and bool(b) and a[1] == b[1], gi[ty].where,
                   "global() -> self.%s, global_s() -> self.%s" % (a[1] if a else "?", b[1] if b else "?"))
        ps = F.fn(SCX + "ScxmlEventIOProcessor::send_to_session")
        cs = ps.calls("fsm_executor::FsmExecutor::send_to_session")
        ctx.exact("R15.2", "executor calls in ScxmlEventIOProcessor::send_to_session", len(cs), 1)
        for c in cs:
            ok = param_index(ps, c["a"][0]) == 2 and param_index(ps, c["a"][1]) == 3
            ctx.ob("R15.2", site_key(ps, "forwards (session_id, event)"), ok, line_of(c), "executor.send_to_session(%s)" % ",".join(describe(a) for a in c["a"]))
        fe = F.fn("fsm_executor::FsmExecutor::send_to_session")
        gs = fe.calls("fsm_executor::FsmExecutor::get_session_sender")
        snd = [c for c in fe.walk() if c.get("k") == "mcall" and c["m"] == "send" and "Sender" in c.get("rty", "") + (c.get("p") or "")]
        ok = len(gs) == 1 and param_index(fe, gs[0]["a"][0]) == 1 and len(snd) == 1 and param_index(fe, peel(snd[0]["a"][0], NO_T)["a"][0] if is_call(peel(snd[0]["a"][0], NO_T), "Box::new") else snd[0]["a"][0]) == 2
        if ok:
            o = hirq.origin(fe, snd[0]["r"])
            ok = o.get("from") == "match" and is_call(peel(o["scrutinee"], NO_T), "fsm_executor::FsmExecutor::get_session_sender")
        ctx.ob("R15.2", site_key(fe, "sends the event to the sender registered for session_id"), ok, fe.where,
               "get_session_sender(session_id) -> sender.send(Box::new(event)): %s" % ok)
    ctx.guard("R15.2", r2_stamp)
    ctx.guard("R15.2", r2_flow)
    ctx.guard("R15.2", r2_relay)

    # ------------------------------------------------------------------------------------------ R15.3
    ctx.rule("R15.3", "reply addressing: ScxmlEventIOProcessor.location is the constant SCXML_TARGET_SESSION_ID_PREFIX in every construction "
                      "that is used, get_location is location immediately followed by the session id, the dispatcher strips the same "
                      "constant it tests with starts_with, and every set_ioprocessors publishes get_location(own session id) as `location`")

    def r3():
        ty = SCX + "ScxmlEventIOProcessor"
        cons = []
        for fn in F.fn_list:
            if fn.hir is None:
                continue
            for n in fn.walk():
                if n.get("k") == "struct" and n["r"].get("p") == ty:
                    cons.append((fn, n))
        ctx.floor("R15.3", "constructions of ScxmlEventIOProcessor", len(cons), 2)
        for fn, n in cons:
            loc = dict((a, b) for a, b in n["f"]).get("location")
            kind = None
            if loc is not None and hirq.def_path(loc) == SCX + "SCXML_TARGET_SESSION_ID_PREFIX":
                kind = "the prefix constant"
            elif loc is not None and hirq.field_of(loc) and hirq.field_of(loc)[1] == "location" and "ScxmlEventIOProcessor" in (peel(loc).get("bty", "")):
                kind = "copy of another processor's location"
            elif fn.trait.endswith("Default") or fn.path.endswith("as std::default::Default>::default"):
                callers = F.callgraph.callers_of(fn.path)
                kind = "derived Default (location \"\"), never called in the crate" if not callers else None
            ctx.ob("R15.3", site_key(fn, "location initialised with the session prefix"), kind is not None, line_of(n), "location <- %s" % (kind or describe(loc) if loc is not None else "?"))
        muts = mutations_of_field(F, "ScxmlEventIOProcessor", "location")
        ctx.ob("R15.3", ty + "|location never re-assigned", not muts, "", "%d mutation(s) of the location field" % len(muts))
        gl = F.fn(PROC + "get_location")
        fmts = gl.calls("std::fmt::Arguments::<'a>::new")
        ctx.exact("R15.3", "format templates in get_location", len(fmts), 1)
        pieces = format_pieces(fmts[0])
        tups = [n for n in gl.walk() if n.get("k") == "tup"]
        args = tups[0]["a"] if tups else []
        f0 = hirq.field_of(args[0]) if len(args) == 2 else None
        ok = pieces == [None, None] and bool(f0) and f0[1] == "location" and local_of(f0[0], NO_T) == gl.params[0]["b"] and param_index(gl, args[1]) == 1
        ctx.ob("R15.3", site_key(gl, "location followed by the id, nothing in between"), ok, gl.where,
               "template pieces %s, arguments (%s)" % (pieces, ", ".join(describe(a) for a in args)))
        # dispatcher: the slice start is the length of the constant that starts_with tested
        gets = [c for c in send.walk() if c.get("k") == "mcall" and c["m"] == "get" and local_of(c["r"], NO_T) == send.params[2]["b"]]
        ctx.exact("R15.3", "target.get(..) slices in the dispatcher", len(gets), 2)
        seen = []
        for i, c in enumerate(gets):
            rng = peel(c["a"][0], NO_T)
            start = dict((a, b) for a, b in rng["f"]).get("start") if rng.get("k") == "struct" else None
            cst = None
            if start is not None:
                s0 = peel(start, NO_T)
                if s0.get("k") == "mcall" and s0["m"] == "len":
                    cst = hirq.def_path(s0["r"])
            tested = [hirq.def_path(a["a"][0]) for a, pol in hirq.guard_atoms(send, c) if pol is True and isinstance(a, dict) and a.get("k") == "mcall"
                      and a["m"] == "starts_with" and local_of(a["r"], NO_T) == send.params[2]["b"]]
            seen.append(cst)
            ctx.ob("R15.3", site_key(send, "slice strips the tested prefix", i), cst is not None and tested == [cst], line_of(c),
                   "under starts_with(%s) the target is sliced from %s.len()" % (tested, cst))
        ctx.ob("R15.3", site_key(send, "session prefix parsed is the one get_location emits"), SCX + "SCXML_TARGET_SESSION_ID_PREFIX" in seen, send.where,
               "constants stripped by the dispatcher: %s" % seen)
        impls = sorted(i for i in F.impls.get("datamodel::Datamodel::set_ioprocessors", ()) if "NullDatamodel" not in i)
        ctx.floor("R15.3", "set_ioprocessors implementations with data", len(impls), 1)
        for p in impls:
            fn = F.fns[p]
            cs = fn.calls("event_io_processor::EventIOProcessor::get_location")
            ok = len(cs) == 1
            detail = "%d get_location call(s)" % len(cs)
            if ok:
                c = cs[0]
                o = hirq.origin(fn, c["a"][0])
                x = o.get("expr") if o.get("from") == "expr" else None
                oks = x is not None and global_field_expr(x, "session_id")
                loops = hirq.enclosing_loops(fn, c)
                okl = len(loops) == 1 and loops[0].get("k") == "for" and any(n.get("k") == "field" and n["n"] == "io_processors" for n in hirq.walk(loops[0]["iter"]))
                lits = [n for n in hirq.walk(loops[0]["body"]) if n.get("k") == "lit" and n["v"].get("str") == "location"] if loops else []
                ok = oks and okl and bool(lits)
                detail = "argument is the session's own id: %s; for every registered io processor: %s; stored under \"location\": %s" % (oks, okl, bool(lits))
            ctx.ob("R15.3", site_key(fn, "publishes get_location(own session id)"), ok, fn.where, detail)
    ctx.guard("R15.3", r3)

    # ------------------------------------------------------------------------------------------ R15.4
    ctx.rule("R15.4", "SESSION_ID_COUNTER and PLATFORM_ID_COUNTER are used only as receiver of fetch_add(1, ..) (no load/store pair) and start at 1")

    def r4():
        for cname, floor in (("fsm::SESSION_ID_COUNTER", 1), ("fsm::PLATFORM_ID_COUNTER", 2)):
            uses = []
            for fn in F.fn_list:
                if fn.hir is None:
                    continue
                for n in fn.walk():
                    if n.get("k") == "path" and n["r"].get("k") == "def" and n["r"].get("p") == cname:
                        par = fn.parent(n)
                        while par is not None and par.get("k") == "ref":
                            par = fn.parent(par)
                        uses.append((fn, n, par))
            ctx.floor("R15.4", "uses of " + cname, len(uses), floor)
            cnt = {}
            for fn, n, par in uses:
                ok = par is not None and par.get("k") == "mcall" and par["m"] == "fetch_add" and par["r"] is n or \
                    (par is not None and par.get("k") == "mcall" and par["m"] == "fetch_add" and peel(par["r"], NO_T) is n)
                ok = ok and const_eval(par["a"][0]) == 1
                i = cnt.get(fn.path, 0)
                cnt[fn.path] = i + 1
                ctx.ob("R15.4", site_key(fn, "%s.fetch_add(1)" % cname.split("::")[-1], i), ok, line_of(n), "used as %s" % (describe(par) if par is not None else "?"))
            init = F.const(cname)["init"]
            start = const_eval(init["a"][0]) if init.get("k") == "call" and init.get("a") else None
            ctx.ob("R15.4", cname + "|starts at 1", start == 1, "", "initial value %s" % start)
        # MIR cross-check: no other atomic operation on the counters' type in the functions that touch them (load/store/swap/compare_exchange)
        users = {fn.path for fn in F.fn_list if fn.hir is not None and any(n.get("k") == "path" and n["r"].get("k") == "def" and
                                                                          n["r"].get("p") in ("fsm::SESSION_ID_COUNTER", "fsm::PLATFORM_ID_COUNTER") for n in fn.walk())}
        bad = []
        for p in sorted(users):
            fn = F.fns[p]
            for bi, t in fn.mir_calls():
                f = t["f"]
                if "atomic::Atomic" in f and not f.endswith("::fetch_add") and any(x in f for x in ("::load", "::store", "::swap", "::compare_exchange", "::fetch_")):
                    bad.append("%s: %s" % (p, f))
        ctx.ob("R15.4", "atomic operations other than fetch_add in the id-issuing functions", not bad, "", "%s" % (bad or "none"))
    ctx.guard("R15.4", r4)

    # ------------------------------------------------------------------------------------------ R15.5
    ctx.rule("R15.5", "a session can be addressed ('#_scxml_<id>', '#_<invokeid>', cancel) as soon as the call that starts it returns: "
                      "ExecutorState.sessions.insert(session_id, ..) is executed by the starting thread, unconditionally, before the session "
                      "thread is spawned (not inside the spawned closure); FsmExecutor::send_to_session looks the target up in that table")

    def r5():
        ins = [(fn, par) for fn, n, kind, meth, par in mutations_of_field(F, "ExecutorState", "sessions") if meth == "insert"]
        ctx.exact("R15.5", "ExecutorState.sessions.insert sites", len(ins), 1)
        for fn, c in ins:
            owner = fn
            top = F.fns.get(fn.parent_path) if fn.kind == "Closure" and fn.parent_path else fn
            host = top if top is not None else fn
            node = c
            # the site as seen from the enclosing named function (closures are inline in its HIR)
            if host is not fn:
                same = [x for x in host.walk() if x.get("k") == "mcall" and x.get("m") == "insert" and x.get("s") == c.get("s")]
                node = same[0] if same else None
            in_cl = hirq.enclosing_closure(host, node) is not None if node is not None else True
            spawns = [s for s in host.walk() if s.get("k") == "mcall" and s["m"] in ("spawn", "spawn_unchecked") and "thread" in (s.get("p") or "")] + \
                     [s for s in host.calls("std::thread::spawn")]
            idx5 = hirq.order_index(host)
            before = node is not None and bool(spawns) and all(idx5[id(node)] < idx5[id(s)] for s in spawns)
            gts = guard_terms(host, node) if node is not None else []
            key_ok = node is not None and bool(node["a"]) and "session_id" in describe(node["a"][0])
            ctx.ob("R15.5", site_key(host, "registered before the session thread is spawned"), (not in_cl) and before and not gts and
                   host.path.endswith("start_fsm_with_data_and_finish_mode"), line_of(c),
                   "in %s; inside a closure: %s; precedes %d spawn site(s): %s; conditions: %s" % (
                       host.path, in_cl, len(spawns), before, [(show(g), p) for g, p, _ in gts]))
        # positive control: the executor's send_to_session resolves the target through that table (directly or in a callee)
        cg = F.callgraph
        lk = F.fn("fsm_executor::FsmExecutor::send_to_session")
        region = [F.fns[cg.body_of.get(p, p)] for p in cg.reachable({lk.path}) if cg.body_of.get(p, p) in F.fns and cg.body_of.get(p, p).startswith("fsm_executor::")]
        reads = [n for g in region if g.hir is not None for n in g.walk() if n.get("k") == "field" and n["n"] == "sessions"]
        ctx.floor("R15.5", "lookups of ExecutorState.sessions behind FsmExecutor::send_to_session", len(reads), 1)
    ctx.guard("R15.5", r5)
