"""C18 — partial or failed .rfsm I/O is reported, never silently accepted.

Decided: W6 every path of FsmReader::read to an Ok result passes the false branch of a has_error() test; W7 every panic-capable
edge reachable from FsmReader::read is discharged, audited or a finding; W8 in the protocol writer every io::Result reaches
eval_result and no Write::write discards its byte count; W9 the reader's error state is sticky: every read operation tests `ok`
(directly or through read_type_and_size / verify_*), and only error() clears it.
"""
from collections import defaultdict

from common import *
import hirq
import panics
import C11
import C17


def run(ctx):
    F = ctx.facts
    cg = F.callgraph
    ctx.explanation = ("C18: must-pass-through of the reader's error test before Ok, diverging-edge audit of the .rfsm reader, io::Result and "
                       "byte-count discipline of the protocol writer, sticky error state of the protocol reader")
    ctx.assumptions += ["std::io::Read::read_exact / byteorder::ReadBytesExt::read_u8 return Err at end of input",
                        "std::io::Write::write may accept fewer bytes than given (documented contract)"]
    rd = F.fn("serializer::fsm_reader::FsmReader::read")

    # ---------------------------------------------------------------- W6
    ctx.rule("W6", "every path of FsmReader::read to an Ok(..) result passes the false branch of a ProtocolReader::has_error() test made after the "
                   "last read (a truncated image makes every later read return a default, so only this test tells a model from garbage)")

    def w6():
        cfg = rd.cfg
        oks = []
        for bi, b in enumerate(rd.blocks):
            for st in b["st"]:
                if st["k"] == "assign" and st["rv"]["k"] == "agg" and st["rv"].get("name", "").endswith("Result::Ok") and place_is_ret(st["d"]):
                    oks.append(bi)
        ctx.floor("W6", "Ok(..) results in FsmReader::read", len(oks), 1)
        tests = []
        for bi, t in rd.mir_calls("ProtocolReader::has_error"):
            d = t["d"] if isinstance(t["d"], int) else t["d"][0]
            nxt = t["t"]
            # the switch on the result (possibly after a copy)
            for sb in cfg.reachable_from(nxt):
                tt = rd.blocks[sb]["t"]
                if tt["k"] == "switch":
                    pl = tt["op"].get("mv", tt["op"].get("cp"))
                    l = pl if isinstance(pl, int) else (pl[0] if pl else None)
                    if l == d:
                        false_t = [tb for v, tb in tt["vals"] if v == "0"]
                        tests.append((bi, sb, false_t))
        reads = [bi for bi, t in rd.mir_calls() if ("ProtocolReader::read_" in t["f"] or "FsmReader" in t["f"] and "::read_" in t["f"])]
        for i, ob in enumerate(oks):
            ok = False
            for tb, sb, false_t in tests:
                for ft in false_t:
                    if set(cfg.pred[ft]) == {sb} and cfg.dominates(ft, ob):
                        # no read between the test and the Ok
                        later = [r for r in reads if r in cfg.reachable_from(ft) and ob in cfg.reachable_from(r)]
                        if not later:
                            ok = True
            s = rd.blocks[ob]["t"].get("s") or rd.span
            ctx.ob("W6", site_key(rd, "Ok result", i), ok, rd.where,
                   "Ok(..) %s" % ("is dominated by the no-error branch of has_error() with no read in between" if ok else
                                  "is reachable without a has_error() test after the last read: a truncated image is returned as a model"))
    ctx.guard("W6", w6)

    # ---------------------------------------------------------------- W7
    ctx.rule("W7", "every panic-capable edge reachable from FsmReader::read is a harmless class, structurally discharged (masked ordinal), audited "
                   "with a reason (tables/panic_audit_C18.json) or a finding")

    def w7():
        seen = panics.region(F, [rd.path], stop=lambda p: p.startswith("tracer::"))
        c11 = set(panics.region(F, C11.c11_roots(cg), stop=C11.c11_stop).keys())
        nodes = {n for n in seen if n not in c11 or "serializer" in n}
        bodies, edges = panics.collect(F, nodes)
        ctx.floor("W7", "functions reachable from FsmReader::read", len(bodies), 40)
        # masked ordinals: from_ordinal(x & MASK) whose literal arms cover 0..=MASK
        covered = set()
        for fn in bodies:
            if fn.hir is None:
                continue
            for c in fn.calls("from_ordinal"):
                a = peel(c["a"][0], NO_T)
                if a.get("k") == "bin" and a["op"] == "BitAnd":
                    mask = const_eval(a["r"])
                    callee = F.fns.get(c["p"])
                    if callee is not None and isinstance(mask, int):
                        lits = set()
                        for m in callee.nodes("match"):
                            for arm in m["arms"]:
                                if arm["pat"].get("k") == "plit":
                                    import re
                                    mt = re.search(r"Int\(Pu128\((\d+)\)", str(arm["pat"]["v"]))
                                    if mt:
                                        lits.add(int(mt.group(1)))
                        if set(range(mask + 1)) <= lits:
                            covered.add(c["p"])
        callers = defaultdict(set)
        for fn in bodies:
            if fn.hir is None:
                continue
            for c in fn.calls("from_ordinal"):
                a = peel(c["a"][0], NO_T)
                masked = a.get("k") == "bin" and a["op"] == "BitAnd"
                if masked and c["p"] in covered:
                    callers[c["p"]].add("masked")
                elif error_checked(fn, c):
                    callers[c["p"]].add("checked")
                else:
                    callers[c["p"]].add("raw")
        keep = []
        for e in edges:
            st = callers.get(e.fn)
            if e.kind == "diverge" and st and st <= {"masked", "checked"}:
                ctx.ob("W7", e.key, True, e.where, "ordinal argument: every caller in the reader passes `x & MASK` with the literal arms covering 0..=MASK, or a value "
                       "whose read was followed by a has_error() test (a cut-off image cannot reach the conversion)")
                continue
            keep.append(e)
        C11.audit_edges(ctx, "W7", F, keep, "panic_audit_C18.json", ".rfsm reader")
    ctx.guard("W7", w7)

    # ---------------------------------------------------------------- W8
    ctx.rule("W8", "in DefaultProtocolWriter every io::Result reaches eval_result (directly or through a binding that does) and no std::io::Write::write "
                   "result has its byte count discarded (write_all or a loop is required: a sink may accept only part of a write)")

    def w8():
        n = 0
        for fn in F.fn_list:
            if "DefaultProtocolWriter" not in fn.path or fn.hir is None:
                continue
            for c in fn.walk():
                if c.get("k") != "mcall" or "std::io" not in (c.get("ty") or "") and "Result<" not in (c.get("ty") or ""):
                    continue
                ty = c.get("ty") or ""
                if not ("io::Error" in ty or "std::io::Result" in ty):
                    continue
                n += 1
                m = c["m"]
                # where does the result go?
                dest = result_sink(fn, c)
                if m == "write" and "usize" in ty:
                    cnt = count_used(fn, c)
                    ctx.ob("W8", site_key(fn, "Write::write count is used", n), cnt, line_of(c),
                           "Write::write returns the number of bytes accepted; %s" % ("it is used" if cnt else "it is discarded (Ok(_)): a short write silently truncates the image"))
                ctx.ob("W8", site_key(fn, "io result of %s reaches eval_result" % m, n), dest, line_of(c),
                       "result of %s %s" % (m, "reaches eval_result / is tested" if dest else "is dropped"))
        ctx.floor("W8", "io::Result producing calls in the protocol writer", n, 5)
        ev = F.fn("DefaultProtocolWriter::eval_result")
        sets = [a for a in ev.nodes("assign") if is_field_of(a["l"], "ok") and const_eval(a["r"]) is False]
        ctx.ob("W8", site_key(ev, "eval_result records the failure"), len(sets) == 1 and any(
            g["how"] == "arm" and g["pat"]["r"].get("p", "").endswith("::Err") for g in hirq.guards(ev, sets[0])), ev.where, "ok = false on the Err arm")
        he = [f for f in F.fn_list if "DefaultProtocolWriter" in f.path and f.path.endswith("::has_error")]
        okh = False
        if he:
            t = peel(wire_only_value(he[0].hir), NO_T)
            okh = t.get("k") == "un" and t["op"] == "Not" and is_field_of(t["e"], "ok")
        ctx.ob("W8", "has_error is !ok", okh, he[0].where if he else "", "the writer's error state is visible through has_error()")
    ctx.guard("W8", w8)

    # ---------------------------------------------------------------- W9
    ctx.rule("W9", "sticky error state of DefaultProtocolReader: every read operation of the ProtocolReader trait tests `ok` before touching the input "
                   "(directly, or by starting with read_type_and_size / another read operation) and `ok` is cleared only by error() and two redundant "
                   "assignments next to an error() call")

    def w9():
        impls = [f for f in F.fn_list if f.path.startswith("<serializer::default_protocol_reader::DefaultProtocolReader<R> as serializer::protocol_reader::ProtocolReader<R>>::read_")]
        ctx.floor("W9", "read operations implemented by DefaultProtocolReader", len(impls), 6)
        inner = ["read_type_and_size", "read_additional_number_bytes"]
        for fn in impls + [F.fn("DefaultProtocolReader::read_type_and_size"), F.fn("DefaultProtocolReader::read_additional_number_bytes")]:
            # every call that touches the input (self.reader.*) is guarded by self.ok, or the function only calls other read operations
            touches = [c for c in fn.walk() if c.get("k") == "mcall" and is_field_of(c["r"], "reader")]
            ok = True
            detail = "no direct input access"
            for c in touches:
                g = hirq.guard_atoms(fn, c)
                guarded = any(p is True and isinstance(a, dict) and is_field_of(a, "ok") for a, p in g)
                ok = ok and guarded
                detail = "input access %s by self.ok" % ("guarded" if guarded else "NOT guarded")
            ctx.ob("W9", site_key(fn, "input touched only under self.ok"), ok, fn.where, detail)
        # who writes ok?
        for fn, n, kind, meth, par in mutations_of_field(F, "DefaultProtocolReader", "ok"):
            val = const_eval(par["r"]) if par.get("k") == "assign" else None
            if fn.path.endswith("::error") or fn.path.endswith("::new"):
                ctx.ob("W9", "ok written|%s" % fn.path, True, line_of(n), "error()/new() own the flag")
                continue
            # allowed: `self.ok = false` right after a self.error(..) call in the same block
            blk = next((a for a in fn.ancestors(par) if a.get("k") == "block"), None)
            near = blk is not None and any(x.get("k") == "mcall" and x.get("m") == "error" for x in blk["st"])
            ctx.ob("W9", "ok written|%s" % fn.path, val is False and near, line_of(n),
                   "%s assigns ok = %s %s" % (fn.path, val, "next to an error() call (redundant)" if near else "outside error()"))
        er = F.fn("DefaultProtocolReader::error")
        sets = [a for a in er.nodes("assign") if is_field_of(a["l"], "ok") and const_eval(a["r"]) is False]
        ctx.ob("W9", site_key(er, "error() clears ok"), len(sets) == 1, er.where, "error() sets ok = false")
        never_true = [1 for fn, n, kind, meth, par in mutations_of_field(F, "DefaultProtocolReader", "ok")
                      if par.get("k") == "assign" and const_eval(par["r"]) is True]
        ctx.ob("W9", "ok never set back to true", not never_true, "", "%d assignment(s) ok = true outside the constructor" % len(never_true))
    ctx.guard("W9", w9)


def error_checked(fn, call):
    """The call is dominated by the no-error branch of a has_error() test, and no read lies between the test and the call."""
    blocks = hir_call_blocks(fn, call)
    if not blocks:
        return False
    cfg = fn.cfg
    reads = [bi for bi, t in fn.mir_calls() if "ProtocolReader::read_" in t["f"] or ("FsmReader" in t["f"] and "::read_" in t["f"])]
    for bi, t in fn.mir_calls("ProtocolReader::has_error"):
        d = t["d"] if isinstance(t["d"], int) else t["d"][0]
        for sb in cfg.reachable_from(t["t"]):
            tt = fn.blocks[sb]["t"]
            if tt["k"] != "switch":
                continue
            pl = tt["op"].get("mv", tt["op"].get("cp"))
            l = pl if isinstance(pl, int) else (pl[0] if pl else None)
            if l != d:
                continue
            for ft in [tb for v, tb in tt["vals"] if v == "0"]:
                if set(cfg.pred[ft]) == {sb} and all(cfg.dominates(ft, b) for b in blocks):
                    later = [r for r in reads if r in cfg.reachable_from(ft) and any(b in cfg.reachable_from(r) for b in blocks) and r not in blocks]
                    if not later:
                        return True
    return False


def place_is_ret(d):
    return d == 0 or (isinstance(d, list) and d[0] == 0)


def wire_only_value(b):
    import wire
    return wire.only_value(b)


def result_sink(fn, call):
    """Does the io::Result of `call` reach eval_result, a `match`/`is_ok` test, or a binding that later does?"""
    p = fn.parent(call)
    while p is not None and p.get("k") in ("ref", "block") and not p.get("st"):
        p = fn.parent(p)
    if p is None:
        return False
    k = p.get("k")
    if k == "mcall" and p["m"] == "eval_result":
        return True
    if k == "match":
        return True
    if k in ("let", "assign"):
        b = None
        if k == "let" and p["pat"].get("k") == "bind":
            b = p["pat"]["b"]
        elif k == "assign":
            b = local_of(p["l"], NO_T)
        if b is None:
            return False
        for n in fn.walk():
            if n.get("k") == "mcall" and n["m"] == "eval_result" and any(local_of(a, NO_T) == b for a in n["a"]):
                return True
            if n.get("k") == "match" and local_of(n["e"], NO_T) == b:
                return True
        return False
    return False


def count_used(fn, call):
    """Is the Ok(count) of Write::write bound to a name that is used (not `Ok(_)`), or is the call inside a loop that advances?"""
    p = fn.parent(call)
    b = None
    if p is not None and p.get("k") == "let" and p["pat"].get("k") == "bind":
        b = p["pat"]["b"]
    for n in fn.walk():
        if n.get("k") == "match" and (n["e"] is call or (b is not None and local_of(n["e"], NO_T) == b)):
            for a in n["arms"]:
                pat = a["pat"]
                if pat.get("k") in ("pts", "pstruct") and pat["r"].get("p", "").endswith("::Ok"):
                    subs = pat.get("a") or [x[1] for x in pat.get("f", [])]
                    if subs and subs[0].get("k") == "bind":
                        bid = subs[0]["b"]
                        return any(hirq.mentions_local(x, bid) for x in [a["body"]])
            return False
    return False
