"""C08 — executable content runs in document order with SCXML error semantics.

Decided (structural necessary conditions on the resolved HIR / call graph):
  R08.1 every loop that runs a block of executable content iterates the stored Vec in order and
        leaves with `false` at the first element that returns `false`; every Datamodel::executeContent
        sibling owns such a loop (K4)
  R08.2 If::execute: `content` under the condition, `else_content` under its negation, Err => false
  R08.3 error discipline: every Err path of an evaluation API reaches an error-event enqueue (K2)
  R08.4 assign writes only declared, writable locations
  R08.5 foreach binds item and index before each body call and advances the index
  R08.6 raise enqueues one internal event named after the element, unconditionally
Not decided: which branch runs for given data (values).
"""
from common import *
import hirq

EC_EXECUTE = "executable_content::ExecutableContent::execute"
DM = "datamodel::Datamodel::"
NULL_DM = "datamodel::NullDatamodel"

# Sources of evaluation errors (semantic table, one reason per line). Everything else that can fail
# is derived: a function that hands the Err of one of these (or of a derived one) on to its caller.
ERR_SEEDS = {
    "expression_engine::parser::ExpressionParser::parse": "rfsm-expression: syntax error",
    "expression_engine::expressions::Expression::execute": "rfsm-expression: run-time error of a compiled expression (dyn)",
    "boa_engine::Context::eval": "ECMAScript: syntax or run-time error",
}
# modules that *are* the evaluator: opaque behind the seeds, not audited for error events
EVALUATOR_PREFIX = ("expression_engine::", "<expression_engine::")

ERROR_EVENT_CTORS = ("fsm::Event::error_execution", "fsm::Event::error_execution_with_event",
                     "fsm::Event::error_communication", "fsm::Event::error")
ORDER_PRESERVING = {"iter", "unwrap", "expect", "get", "as_slice", "as_ref", "iterator", "into_iter", "deref", "clone"}


# ------------------------------------------------------------------------------------------------
# small HIR helpers
# ------------------------------------------------------------------------------------------------

def base_path(p):
    """call-graph instance name -> def path (`f{Self=..}` -> `f`)."""
    i = p.find("{Self=")
    return p[:i] if i >= 0 else p


def last_seg(p):
    return (p or "").split("::")[-1]


def is_ctor(n, name):
    """`Ok(..)` / `Err(..)` / `Some(..)` constructor call."""
    return n.get("k") == "call" and n.get("p") and last_seg(n["p"]) == name and \
        (n["p"].startswith("std::") or n["p"].startswith("core::"))


def pat_ctor(p):
    if p.get("k") == "pts":
        return last_seg(p["r"].get("p", ""))
    return None


def pat_may_be_err(p):
    """Can a Result::Err value match this pattern?"""
    k = p.get("k")
    if k == "pts":
        c = pat_ctor(p)
        if c == "Err":
            return True
        if c == "Ok":
            return False
        return True
    if k == "por":
        return any(pat_may_be_err(x) for x in p["a"])
    return True


def pat_only_err(p):
    k = p.get("k")
    if k == "pts":
        return pat_ctor(p) == "Err"
    if k == "por":
        return all(pat_only_err(x) for x in p["a"])
    return False


def tail_of(n):
    """Value-producing end of a block chain."""
    while n.get("k") == "block":
        if "tail" in n:
            n = n["tail"]
        elif n["st"]:
            n = n["st"][-1]
            break
        else:
            break
    return n


def uses_of(fn, b):
    out = []
    for n in fn.walk():
        if n.get("k") == "path" and n["r"].get("k") == "local" and n["r"]["b"] == b:
            par = fn.parent(n)
            if par is not None and par.get("k") in ("assign", "assignop") and par["l"] is n:
                continue
            out.append(n)
    return out


def in_closure(fn, n):
    return hirq.enclosing_closure(fn, n)


def depends_on(fn, e, targets, depth=6):
    """Does the value of e mention one of the bindings `targets`, directly or through the lets / match
    arms / if-lets that define the locals it mentions?"""
    if depth < 0:
        return False
    for n in hirq.walk(e):
        if n.get("k") == "path" and n["r"].get("k") == "local":
            b = n["r"]["b"]
            if b in targets:
                return True
            info = fn.bindings().get(b)
            if not info:
                continue
            src = None
            if info["from"] == "let":
                src = info.get("init")
            elif info["from"] == "match":
                src = info.get("scrutinee")
            elif info["from"] == "iflet":
                src = info.get("init")
            elif info["from"] == "for":
                src = info.get("iter")
            if src is not None and depends_on(fn, src, targets, depth - 1):
                return True
            for a in fn.assignments_to(b):
                if depends_on(fn, a["r"], targets, depth - 1):
                    return True
    return False


# ------------------------------------------------------------------------------------------------
# error discipline (R08.3)
# ------------------------------------------------------------------------------------------------

class ErrDiscipline:
    def __init__(self, F):
        self.F = F
        self._raises = {}
        self.summary = {}  # fn path -> {"fallible": bool, "raising": bool}

    # ---- who enqueues an error event ------------------------------------------------------
    def is_error_event(self, fn, e, depth=3):
        e = peel(e, NO_T)
        if e.get("k") == "call" and e.get("p") and any(path_matches(e["p"], c) for c in ERROR_EVENT_CTORS):
            return True
        b = local_of(e, NO_T)
        if b is not None and depth > 0:
            d = hirq.single_def(fn, b)
            if d is not None:
                return self.is_error_event(fn, d, depth - 1)
        return False

    def is_base_raise(self, fn, n):
        if n.get("k") not in ("call", "mcall") or not n.get("p"):
            return False
        name = last_seg(n["p"])
        if name == "enqueue_internal":
            return any(self.is_error_event(fn, a) for a in n["a"])
        if name == "enqueue" and n.get("k") == "mcall":
            f = hirq.field_of(n["r"], NO_T)
            return bool(f) and f[1] == "internalQueue" and any(self.is_error_event(fn, a) for a in n["a"])
        return False

    def targets(self, n):
        """In-crate bodies a call node may run: the function itself, or the implementors of a trait item
        (narrowed by a concrete receiver type)."""
        p = n.get("p")
        if not p:
            return []
        F = self.F
        impls = F.impls.get(p)
        if impls:
            impls = sorted(impls)
            rty = (n.get("rty") or "").replace("&mut ", "").replace("&", "").strip()
            if rty and not rty.startswith("dyn ") and rty != "Self":
                narrowed = [i for i in impls if i.startswith("<" + rty + " as ")]
                if narrowed:
                    impls = narrowed
            return impls
        return [p]

    def fn_raises(self, path):
        """Every execution of the function enqueues an error event (must, not may)."""
        if path in self._raises:
            return self._raises[path]
        self._raises[path] = False  # recursion guard
        g = self.F.fns.get(path)
        r = bool(g is not None and g.hir is not None and self.must_raise(g, g.hir))
        self._raises[path] = r
        return r

    def must_raise(self, fn, n):
        k = n.get("k")
        if k is None:  # arm
            return self.must_raise(fn, n["body"])
        if k == "closure":
            return False
        if k == "block":
            for s in n["st"]:
                if self.must_raise(fn, s):
                    return True
                if hirq.diverges(s):
                    return False
            return "tail" in n and self.must_raise(fn, n["tail"])
        if k == "if":
            if self.must_raise(fn, n["c"]):
                return True
            return "e" in n and self.must_raise(fn, n["t"]) and self.must_raise(fn, n["e"])
        if k == "match":
            if self.must_raise(fn, n["e"]):
                return True
            return bool(n["arms"]) and all(self.must_raise(fn, a["body"]) for a in n["arms"])
        if k == "for":
            return self.must_raise(fn, n["iter"])
        if k == "while":
            return self.must_raise(fn, n["cond"])
        if k == "bin" and n["op"] in ("And", "Or"):
            return self.must_raise(fn, n["l"])
        if k == "let":
            return "init" in n and self.must_raise(fn, n["init"])
        if k in ("call", "mcall"):
            for c in children(n):
                if self.must_raise(fn, c):
                    return True
            if self.is_base_raise(fn, n):
                return True
            t = self.targets(n)
            return bool(t) and all(self.fn_raises(x) for x in t)
        for c in children(n):
            if self.must_raise(fn, c):
                return True
        return False

    def raise_precedes(self, fn, node):
        """An error-event enqueue is executed on every path that reaches `node` (lexical dominance)."""
        cur = node
        for anc in fn.ancestors(node):
            k = anc.get("k")
            if k == "closure":
                return False
            if k == "block":
                for s in anc["st"]:
                    if s is cur:
                        break
                    if self.must_raise(fn, s):
                        return True
            elif k == "if" and cur is not anc["c"] and self.must_raise(fn, anc["c"]):
                return True
            elif k == "match" and cur is not anc["e"] and self.must_raise(fn, anc["e"]):
                return True
            cur = anc
        return False

    # ---- where does the Result of a call go ------------------------------------------------
    def flows_to_return(self, fn, n, depth=4):
        cur = n
        while True:
            p = fn.parent(cur)
            if p is None:
                return cur is fn.hir
            k = p.get("k")
            if k == "block":
                if p.get("tail") is cur:
                    cur = p
                    continue
                return False
            if k == "if":
                if cur is p["c"]:
                    return False
                cur = p
                continue
            if k is None:  # arm
                if p.get("guard") is cur:
                    return False
                cur = p
                continue
            if k == "match":
                if cur is p["e"]:
                    return False
                cur = p
                continue
            if k == "ret":
                return in_closure(fn, p) is None
            if k == "closure":
                return False
            if k == "let" and p.get("init") is cur and p["pat"].get("k") == "bind" and depth > 0:
                b = p["pat"]["b"]
                if fn.assignments_to(b):
                    return False
                return any(self.flows_to_return(fn, u, depth - 1) for u in uses_of(fn, b))
            return False

    def consume(self, fn, n, depth=4):
        """What happens to the Result value of expression n: list of
        ('region', node) — code that runs exactly when it is Err;
        ('flag', node, value) — boolean expression that has `value` when it is Err;
        ('propagate', node) — handed to the caller of fn as Err;
        ('none', why) — the Err information is dropped; ('unknown', why)."""
        cur = n
        p = fn.parent(cur)
        while p is not None and (p.get("k") in ("ref", "cast") or (p.get("k") == "block" and not p["st"] and p.get("tail") is cur)):
            cur, p = p, fn.parent(p)
        if p is None:
            return [("propagate", cur)] if cur is fn.hir else [("unknown", "no consumer")]
        k = p.get("k")
        if k == "match" and p["e"] is cur:
            regs = [("region", a["body"]) for a in p["arms"] if pat_may_be_err(a["pat"])]
            return regs or [("none", "no arm matches Err")]
        if k == "tup":
            idx = [i for i, x in enumerate(p["a"]) if x is cur][0]
            pp = fn.parent(p)
            if pp is not None and pp.get("k") == "match" and pp["e"] is p:
                regs = []
                for a in pp["arms"]:
                    pat = a["pat"]
                    sub = pat["a"][idx] if pat.get("k") == "ptup" and idx < len(pat["a"]) else pat
                    if pat.get("k") != "ptup" or pat_may_be_err(sub):
                        regs.append(("region", a["body"]))
                return regs or [("none", "no arm matches Err")]
            if pp is not None and pp.get("k") == "let" and pp["pat"].get("k") == "ptup" and depth > 0:
                sub = pp["pat"]["a"][idx]
                if sub.get("k") == "bind":
                    return self._consume_local(fn, sub["b"], depth)
            return [("unknown", "Result stored in a tuple")]
        if k == "letx" and p["init"] is cur:
            iff = fn.parent(p)
            if iff is None or iff.get("k") != "if" or iff["c"] is not p:
                return [("unknown", "if-let inside a compound condition")]
            if pat_only_err(p["pat"]):
                return [("region", iff["t"])]
            if not pat_may_be_err(p["pat"]):
                return [("region", iff["e"])] if "e" in iff else [("none", "`if let Ok(..)` without else: Err ignored")]
            return [("region", iff["t"])]
        if k == "let" and p.get("init") is cur:
            pat = p["pat"]
            if "els" in p:
                if not pat_may_be_err(pat):
                    return [("region", p["els"])]
                return [("unknown", "let-else on a non-Ok pattern")]
            if pat.get("k") == "bind" and depth > 0:
                return self._consume_local(fn, pat["b"], depth)
            return [("none", "Result bound to `%s` and dropped" % pat.get("k"))]
        if k == "assign" and p["r"] is cur and depth > 0:
            b = local_of(p["l"], NO_T)
            if b is not None:
                return self._consume_local(fn, b, depth)
        if k == "try":
            return [("propagate", p)]
        if k == "ret":
            return [("propagate", p)] if in_closure(fn, p) is None else [("unknown", "returned from a closure")]
        if k == "mcall" and p["r"] is cur:
            m = p["m"]
            if m in ("unwrap_or_else", "or_else"):
                c = peel(p["a"][0], NO_T)
                if c.get("k") == "closure":
                    return [("region", c["body"])]
                return [("unknown", "%s with a non-closure argument" % m)]
            if m == "is_ok":
                return [("flag", p, False)]
            if m == "is_err":
                return [("flag", p, True)]
            if m in ("map", "and_then", "map_err", "clone", "as_ref", "as_mut"):
                return self.consume(fn, p, depth)
            if m in ("unwrap", "expect"):
                return [("none", "`%s()` panics on Err instead of raising an error event" % m)]
            return [("none", "`.%s()` drops the Err" % m)]
        if self.flows_to_return(fn, cur):
            return [("propagate", cur)]
        if k == "block":
            return [("none", "Result discarded")]
        return [("unknown", "Result used by `%s`" % k)]

    def _consume_local(self, fn, b, depth):
        """The Result sits in a local: each use inspects the same value, so one use that raises (or hands the Err on)
        settles the Err path; the uses are alternatives."""
        groups = [self.consume(fn, u, depth - 1) for u in uses_of(fn, b)]
        if not groups:
            return [("none", "Result bound and never inspected")]
        if len(groups) == 1:
            return groups[0]
        return [("anyof", groups)]

    # ---- a boolean that tells "it was Err": does the raising branch follow? ----------------
    def flag_handled(self, fn, node, value, depth=6):
        """`node` evaluates to `value` on the Err path. True iff from there an error-event enqueue is
        reached: the value is tested by an `if` whose taken branch must raise (directly, or after being
        stored in a local / yielded as the value of enclosing blocks, ifs and match arms)."""
        cur = node
        while depth > 0:
            depth -= 1
            p = fn.parent(cur)
            if p is None:
                return False
            k = p.get("k")
            if k == "un" and p["op"] == "Not":
                cur, value = p, (not value)
                continue
            if k == "if" and p["c"] is cur:
                br = p["t"] if value else p.get("e")
                return br is not None and self.must_raise(fn, br)
            if k == "block" and p.get("tail") is cur:
                cur = p
                continue
            if k == "if" and cur is not p["c"]:
                cur = p
                continue
            if k is None and p.get("body") is cur:
                cur = fn.parent(p)
                continue
            if k == "let" and p.get("init") is cur and p["pat"].get("k") == "bind":
                b = p["pat"]["b"]
                blk = fn.parent(p)
                if blk is None or blk.get("k") != "block":
                    return False
                seq = list(blk["st"]) + ([blk["tail"]] if "tail" in blk else [])
                i = [j for j, s in enumerate(seq) if s is p][0]
                for s in seq[i + 1:]:
                    if s.get("k") == "if":
                        c, v = s["c"], value
                        while c.get("k") == "un" and c["op"] == "Not":
                            c, v = c["e"], (not v)
                        if local_of(c, NO_T) == b:
                            br = s["t"] if v else s.get("e")
                            return br is not None and self.must_raise(fn, br)
                    if s is blk.get("tail") and local_of(s, NO_T) == b:
                        return self.flag_handled(fn, blk, value, depth)
                    if any(x.get("k") == "ret" and in_closure(fn, x) is in_closure(fn, p) for x in hirq.walk(s)):
                        return False
                    if any(a for a in fn.assignments_to(b) if any(y is a for y in hirq.walk(s))):
                        return False
                return False
            return False
        return False

    # ---- classification of one call site ----------------------------------------------------
    def callee_status(self, n):
        """(fallible, raising) of the callee of call node n."""
        p = n.get("p")
        if not p:
            return (False, False)
        for s in ERR_SEEDS:
            if path_matches(p, s):
                return (True, False)
        ts = [t for t in self.targets(n) if not t.startswith("<" + NULL_DM + " as ")]
        st = [self.summary.get(t) for t in ts]
        st = [s for s in st if s is not None and s["fallible"]]
        if not st:
            return (False, False)
        return (True, all(s["raising"] for s in st))

    def verdicts_of(self, fn, outs, returns_result):
        verdicts = []
        for o in outs:
            if o[0] == "anyof":
                alts = [self.verdicts_of(fn, g, returns_result) for g in o[1]]
                good = [a for a in alts if a and all(v in ("raised", "propagated") for v, _ in a)]
                if good:
                    verdicts.extend(good[0])
                else:
                    for a in alts:
                        verdicts.extend(a)
                continue
            if o[0] == "region":
                reg = o[1]
                if self.must_raise(fn, reg):
                    verdicts.append(("raised", "the Err branch enqueues an error event"))
                    continue
                t = tail_of(reg)
                if t.get("k") == "ret" and "e" in t:
                    t = peel(t["e"], NO_T)
                    yields_err = is_ctor(t, "Err")
                    to_ret = True
                else:
                    yields_err = is_ctor(peel(t, NO_T), "Err")
                    to_ret = self.flows_to_return(fn, reg)
                if returns_result and yields_err and to_ret and in_closure(fn, reg) is None:
                    verdicts.append(("propagated", "the Err branch returns Err to the caller"))
                    continue
                v = const_eval(t) if t.get("k") == "lit" else None
                if isinstance(v, bool) and self.flag_handled(fn, reg, v):
                    verdicts.append(("raised", "the Err branch yields %s and the following `if` on that value enqueues an error event" % v))
                    continue
                verdicts.append(("SWALLOWED", "the Err branch (%s) neither enqueues an error event nor returns Err" % line_of(reg)))
            elif o[0] == "flag":
                if self.flag_handled(fn, o[1], o[2]):
                    verdicts.append(("raised", "tested by %s and the Err branch enqueues an error event" % describe(o[1])))
                else:
                    verdicts.append(("SWALLOWED", "only `%s` is looked at and no error event follows on the Err path" % describe(o[1])))
            elif o[0] == "propagate":
                if returns_result:
                    verdicts.append(("propagated", "Err is returned to the caller"))
                else:
                    verdicts.append(("UNKNOWN", "Result leaves a function that does not return Result"))
            elif o[0] == "none":
                verdicts.append(("SWALLOWED", o[1]))
            else:
                verdicts.append(("UNKNOWN", o[1]))
        return verdicts

    def classify(self, fn, call):
        """-> (verdict, detail); verdict in raised-by-callee / raised / propagated / SWALLOWED / UNKNOWN"""
        fallible, raising = self.callee_status(call)
        outs = self.consume(fn, call)
        returns_result = "Result<" in ((fn.sig or {}).get("out") or "")
        verdicts = self.verdicts_of(fn, outs, returns_result)
        return fallible, raising, verdicts

    # ---- summaries: which functions can return an evaluation Err, and do they raise first -----
    def candidates(self):
        out = []
        for g in self.F.fn_list:
            if g.kind == "Closure" or g.hir is None or g.path.startswith(EVALUATOR_PREFIX):
                continue
            if "Result<" in ((g.sig or {}).get("out") or ""):
                out.append(g)
        return out

    def call_sites(self, g):
        return [n for n in g.walk() if n.get("k") in ("call", "mcall") and n.get("p")]

    def compute(self):
        cands = self.candidates()
        calls = {g.path: self.call_sites(g) for g in cands}
        for _ in range(12):
            changed = False
            for g in cands:
                exits = []  # (node, raised?)
                regions = []
                for c in calls[g.path]:
                    fallible, raising, verdicts = self.classify(g, c)
                    if not fallible:
                        continue
                    for o in flat_outcomes(self.consume(g, c)):
                        if o[0] == "region":
                            regions.append(o[1])
                    for v, _d in verdicts:
                        if v == "propagated":
                            exits.append((c, raising or self.raise_precedes(g, c)))
                        elif v == "raised":
                            exits.append((c, True))
                if exits:
                    # further Err values made up by an already fallible function
                    for n in g.walk():
                        if is_ctor(n, "Err") and in_closure(g, n) is None and not any(any(a is r for a in g.ancestors(n)) for r in regions):
                            exits.append((n, self.raise_precedes(g, n)))
                new = {"fallible": bool(exits), "raising": bool(exits) and all(r for _, r in exits)}
                if self.summary.get(g.path) != new:
                    self.summary[g.path] = new
                    changed = True
            if not changed:
                break
        return self


# ------------------------------------------------------------------------------------------------
# content loops (R08.1 / R08.2)
# ------------------------------------------------------------------------------------------------

def exec_wrappers(F):
    """In-crate helpers whose result is `<param>.execute(..)` (e.g. a tracing wrapper): name -> param index."""
    out = {}
    for g in F.fn_list:
        if g.kind == "Closure" or g.hir is None:
            continue
        t = peel(tail_of(g.hir), NO_T)
        if t.get("k") == "mcall" and t.get("p") and path_matches(t["p"], EC_EXECUTE):
            i = param_index(g, t["r"])
            if i is not None:
                out[g.path] = i
    return out


def element_of_exec_call(F, fn, n, wrappers):
    """If n runs one executable-content element: the expression denoting that element."""
    if n.get("k") == "mcall" and n.get("p") and path_matches(n["p"], EC_EXECUTE):
        return n["r"]
    if n.get("k") in ("call", "mcall") and n.get("p") in wrappers:
        i = wrappers[n["p"]]
        args = ([n["r"]] if n.get("k") == "mcall" else []) + list(n["a"])
        if i < len(args):
            return args[i]
    return None


def content_loops(F, fn, wrappers):
    """[(for node, exec call node)] — `for` loops whose body runs the loop variable as executable content."""
    out = []
    for lp in fn.nodes("for"):
        for n in hirq.walk(lp["body"]):
            el = element_of_exec_call(F, fn, n, wrappers)
            if el is None:
                continue
            if hirq.enclosing_loops(fn, n)[0] is not lp:
                continue
            out.append((lp, n, el))
    return out


def loop_source(fn, lp):
    """(order preserving?, the `.get(&X)` on Fsm.executableContent or None, X)"""
    base, chain = method_chain(fn, lp["iter"])
    names = [m for m, _ in chain]
    ok = all(m in ORDER_PRESERVING for m in names)
    get = [n for m, n in chain if m == "get"]
    src = None
    if get:
        f = hirq.field_of(get[0]["r"], NO_T)
        if f and f[1] == "executableContent":
            src = get[0]
    return ok, src, names, base


def value_after(fn, node, root):
    """The expression whose value `root` yields when control leaves `node` normally: the tail of the innermost enclosing block in
    which something follows, re-evaluated at every outer block (None: unit)."""
    val = None
    cur = node
    for anc in fn.ancestors(node):
        if anc.get("k") == "block":
            seq = list(anc["st"]) + ([anc["tail"]] if "tail" in anc else [])
            pos = next((i for i, s in enumerate(seq) if s is cur), None)
            if pos is not None and pos < len(seq) - 1:
                val = anc.get("tail")
        if anc is root:
            break
        cur = anc
    while val is not None and val.get("k") == "block" and not val["st"] and "tail" in val:
        val = val["tail"]
    return val


def false_exit(fn, lp, call):
    """A `return false` inside the loop that is taken exactly when `call` yields false."""
    for r in hirq.walk(lp["body"]):
        if r.get("k") != "ret" or "e" not in r or const_eval(r["e"]) is not False:
            continue
        if in_closure(fn, r) is not in_closure(fn, call):
            continue
        for a, pol in hirq.guard_atoms(fn, r):
            if pol is False and isinstance(a, dict) and a is call:
                return r
    return None


def run(ctx):
    F = ctx.facts
    ctx.explanation = ("C08: every loop over a block of executable content (3 executeContent siblings, If x2, ForEach, Script) keeps Vec order and "
                       "stops at the first `false`; If::execute branch polarity; error discipline of every call that can yield an evaluation "
                       "error (Err path must reach an error-event enqueue, in the caller or in a callee proven to raise on every Err exit); "
                       "assign writes only occupied, non-read-only entries; foreach binds item/index before each body call; raise enqueues")
    ctx.assumptions += [
        "rustc's HIR/MIR and type resolution for the analysed configuration",
        "the evaluators behind the seed APIs (ExpressionParser::parse, dyn Expression::execute, boa Context::eval) report every evaluation error as Err",
        "W3C B.1: the null data model has no value/location expression language, so NullDatamodel's `Err(\"unimplemented\")` stubs are not evaluation "
        "errors of a conformant document (its executeContent stub is D13)",
        "R08.3 scope is the code reachable from ExecutableContent::execute implementations and Fsm::conditionMatch (asynchronous closures not followed); "
        "<invoke> argument evaluation (Fsm::invoke) is outside C08",
    ]
    wrappers = exec_wrappers(F)

    # ------------------------------------------------------------------------------ R08.1
    ctx.rule("R08.1", "every loop that runs executable-content elements iterates the stored Vec in order (only order-preserving adaptors between "
                      "`Fsm.executableContent.get(&id)` / the element list and the loop), tests the result of each element and returns false at "
                      "the first false; the function ends with true; every Datamodel::executeContent implementation contains such a loop over "
                      "`get(&<its content-id parameter>)`")

    def r1():
        impls = sorted(F.impls.get(DM + "executeContent", ()))
        ctx.floor("R08.1", "Datamodel::executeContent implementations", len(impls), 2)
        owners = list(impls) + [p for p in sorted(F.impls.get(EC_EXECUTE, ()))]
        n_loops = 0
        for path in owners:
            fn = F.fns[path]
            loops = content_loops(F, fn, wrappers)
            if path in impls:
                good = 0
                for lp, call, el in loops:
                    _, src, _, _ = loop_source(fn, lp)
                    if src is not None and param_index(fn, src["a"][0]) == 2:
                        good += 1
                ctx.ob("R08.1", site_key(fn, "content loop"), good >= 1, fn.where,
                       "%d loop(s) over executableContent.get(&contentId) that run each element" % good)
            for i, (lp, call, el) in enumerate(loops):
                n_loops += 1
                ok_order, src, names, base = loop_source(fn, lp)
                is_loopvar = hirq.loop_var_of(fn, el) is lp
                ctx.ob("R08.1", site_key(fn, "loop keeps Vec order", i), ok_order and is_loopvar, line_of(lp),
                       "iterates %s via [%s]; executed element is the loop variable: %s" % (describe(base), ",".join(names), is_loopvar))
                r = false_exit(fn, lp, call)
                ctx.ob("R08.1", site_key(fn, "stops at first false", i), r is not None, line_of(call),
                       "`return false` guarded by !%s: %s" % (describe(call), "found" if r is not None else "MISSING"))
            if loops:
                # normal completion yields true (closure body for ForEach, function body otherwise)
                for i, (lp, call, el) in enumerate(loops):
                    cl = in_closure(fn, lp)
                    body = cl["body"] if cl is not None else fn.hir
                    t = value_after(fn, lp, body)
                    ctx.ob("R08.1", site_key(fn, "completes with true", i), t is not None and const_eval(t) is True, line_of(t if t is not None else lp),
                           "value after the loop: %s" % (describe(t) if t is not None else "()"))
        # Script: loop over its own list calling Datamodel::executeContent
        sc = F.fns["<executable_content::Script as executable_content::ExecutableContent>::execute"]
        n_sc = 0
        for lp in sc.nodes("for"):
            for c in sc.calls(DM + "executeContent", root=lp["body"]):
                n_sc += 1
                base, chain = method_chain(sc, lp["iter"])
                ok_order = all(m in ORDER_PRESERVING for m, _ in chain) and is_field_of(base, "content")
                lv = hirq.loop_var_of(sc, c["a"][1]) is lp
                r = false_exit(sc, lp, c)
                ctx.ob("R08.1", site_key(sc, "script loop keeps order and stops at first false", n_sc - 1), ok_order and lv and r is not None, line_of(lp),
                       "iterates self.content in order: %s; runs the loop variable: %s; return false on false: %s" % (ok_order, lv, r is not None))
        ctx.floor("R08.1", "loops over executable-content elements", n_loops, 4)
        ctx.floor("R08.1", "Script loops", n_sc, 1)
    ctx.guard("R08.1", r1)

    # ------------------------------------------------------------------------------ R08.2
    ctx.rule("R08.2", "If::execute: the loop over `self.content` runs only under the condition value, the loop over `self.else_content` only under "
                      "its negation; the condition value is the Ok value of execute_condition and `false` on Err (If::execute and Fsm::conditionMatch)")

    def r2():
        fn = F.fns["<executable_content::If as executable_content::ExecutableContent>::execute"]
        disc = ErrDiscipline(F)
        conds = fn.calls(DM + "execute_condition")
        ctx.exact("R08.2", "execute_condition calls in If::execute", len(conds), 1)
        loops = content_loops(F, fn, wrappers)
        ctx.exact("R08.2", "content loops in If::execute", len(loops), 2)
        seen = set()
        for lp, call, el in loops:
            _, src, _, _ = loop_source(fn, lp)
            field = None
            if src is not None:
                f = hirq.field_of(src["a"][0], NO_T)
                field = f[1] if f and hirq.local_name(f[0]) == "self" else None
            want = {"content": True, "else_content": False}.get(field)
            pols = []
            for a, pol in hirq.guard_atoms(fn, lp):
                if not isinstance(a, dict) or a.get("k") is None or pol is None:
                    continue
                b = local_of(a, NO_T)
                if b is not None:
                    d = hirq.single_def(fn, b)
                    if d is not None and conds and any(x is conds[0] for x in hirq.walk(d)):
                        pols.append(pol)
                elif conds and any(x is conds[0] for x in hirq.walk(a)):
                    pols.append(pol)
            seen.add(field)
            ctx.ob("R08.2", site_key(fn, "branch polarity of %s" % field), want is not None and pols == [want], line_of(lp),
                   "loop over self.%s runs under condition polarity %s (expected %s)" % (field, pols, want))
        ctx.ob("R08.2", site_key(fn, "both branches present"), seen == {"content", "else_content"}, fn.where, "loops over %s" % sorted(str(x) for x in seen))

        # Err => false, Ok(v) => v at both callers
        n = 0
        for g in F.fn_list:
            if g.hir is None or g.kind == "Closure":
                continue
            for k_, c in enumerate(g.calls(DM + "execute_condition")):
                n += 1
                outs = flat_outcomes(disc.consume(g, c))
                vals = []
                for o in outs:
                    if o[0] == "region":
                        t = tail_of(o[1])
                        v = const_bool(F, t)
                        vals.append(v if v is not None else describe(t))
                    elif o[0] == "none" and "unwrap_or_default" in o[1]:
                        vals.append(False)
                    else:
                        vals.append(o[0])
                # `.unwrap_or(false)`
                p = g.parent(c)
                if p is not None and p.get("k") == "mcall" and p["r"] is c and p["m"] == "unwrap_or":
                    vals = [const_eval(p["a"][0])]
                ok_err = bool(vals) and all(v is False for v in vals)
                # Ok arm hands the value on unchanged
                ok_ok = True
                p = g.parent(c)
                while p is not None and p.get("k") in ("ref",):
                    p = g.parent(p)
                if p is not None and p.get("k") == "match":
                    for a in p["arms"]:
                        if pat_ctor(a["pat"]) == "Ok":
                            sub = a["pat"]["a"][0]
                            t = tail_of(a["body"])
                            ok_ok = sub.get("k") == "bind" and local_of(t) == sub["b"]
                ctx.ob("R08.2", site_key(g, "condition Err counts as false", k_), ok_err and ok_ok, line_of(c),
                       "value on Err: %s; Ok value passed through: %s" % (vals, ok_ok))
        ctx.exact("R08.2", "callers of Datamodel::execute_condition", n, 2)
    ctx.guard("R08.2", r2)

    # ------------------------------------------------------------------------------ R08.3
    ctx.rule("R08.3", "error discipline: in every function reachable from an ExecutableContent::execute implementation or Fsm::conditionMatch, each "
                      "call that can yield an evaluation Err (seed APIs and every function that hands such an Err on) has its Err path reach an "
                      "error-event enqueue (enqueue_internal of Event::error_*, internal_error_execution*/communication or a helper that always "
                      "does so) before the function continues/returns, unless the callee itself raises on every Err exit or the Err is returned "
                      "to the caller (who then carries the obligation)")

    def r3():
        disc = ErrDiscipline(F).compute()
        roots = sorted(F.impls.get(EC_EXECUTE, ())) + ["fsm::Fsm::conditionMatch"]
        ctx.floor("R08.3", "ExecutableContent::execute implementations", len(roots) - 1, 9)
        seen = F.callgraph.reachable(roots)
        scope = sorted({base_path(p) for p in seen})
        n_sites = 0
        per_callee = {}
        for path in scope:
            g = F.fns.get(path)
            if g is None or g.hir is None or g.kind == "Closure" or path.startswith(EVALUATOR_PREFIX) or path.startswith("<" + NULL_DM + " as "):
                continue
            ords = {}
            for c in disc.call_sites(g):
                fallible, raising, verdicts = disc.classify(g, c)
                if not fallible:
                    continue
                short = "::".join(strip_generics_(c["p"]).split("::")[-2:])
                i = ords.get(short, 0)
                ords[short] = i + 1
                n_sites += 1
                per_callee[short] = per_callee.get(short, 0) + 1
                if raising:
                    ok, detail = True, "callee raises an error event on every Err exit"
                else:
                    bad = [d for v, d in verdicts if v in ("SWALLOWED", "UNKNOWN")]
                    ok = not bad and bool(verdicts)
                    detail = "; ".join(sorted({d for _, d in verdicts})) if verdicts else "no consumer found"
                ctx.ob("R08.3", site_key(g, "Err of " + short, i), ok, line_of(c), detail)
        ctx.floor("R08.3", "call sites that can yield an evaluation error", n_sites, 25)
        ctx.floor("R08.3", "call sites of Datamodel::execute", per_callee.get("Datamodel::execute", 0), 6)
        ctx.floor("R08.3", "call sites of Datamodel::execute_condition", per_callee.get("Datamodel::execute_condition", 0), 2)
        ctx.floor("R08.3", "call sites of Datamodel::get_expression_alternative_value", per_callee.get("Datamodel::get_expression_alternative_value", 0), 4)
        ctx.floor("R08.3", "call sites of Datamodel::get_by_location", per_callee.get("Datamodel::get_by_location", 0), 2)
        # positive controls for the summaries
        for t in sorted(F.impls.get(DM + "get_by_location", ())):
            if t.startswith("<" + NULL_DM + " as "):
                continue
            s = disc.summary.get(t) or {}
            ctx.ob("R08.3", "%s|raises on every Err exit|0" % t, bool(s.get("fallible")) and bool(s.get("raising")), F.fns[t].where,
                   "summary of get_by_location: %s" % s)
        ex = [t for t in sorted(F.impls.get(DM + "execute", ())) if not t.startswith("<" + NULL_DM + " as ")]
        ctx.ob("R08.3", "control|Datamodel::execute is recognised as fallible", bool(ex) and all((disc.summary.get(t) or {}).get("fallible") for t in ex), "",
               "summaries: %s" % {t: disc.summary.get(t) for t in ex})
        ctx.extra["r08_3_fallible_functions"] = sorted(p for p, s in disc.summary.items() if s["fallible"])
    ctx.guard("R08.3", r3)

    def r3_abort():
        # "aborts the remainder of the enclosing block": where an executable-content element reads a location of a namelist
        # (Datamodel::get_by_location raises error.execution itself), the Err outcome must end the element with `false` - a
        # `match` whose Err arm returns false, `let Ok(v) = .. else { return false }` - and not merely skip the entry
        n = 0
        for path in sorted(F.impls.get(EC_EXECUTE, ())):
            g = F.fns[path]
            if g.hir is None:
                continue
            for c in g.calls(DM + "get_by_location"):
                n += 1
                ok, how = False, "the Err outcome is not turned into `return false`"
                par = g.parent(c)
                while par is not None and par.get("k") in ("ref", "cast", "block") and par.get("k") != "match":
                    if par.get("k") == "block" and par.get("tail") is not c and par.get("st"):
                        break
                    c2, par = par, g.parent(par)
                m = par if par is not None and par.get("k") == "match" else None
                if m is not None:
                    for a in m["arms"]:
                        head = (a["pat"].get("r") or {}).get("p", "")
                        if head.endswith("::Err"):
                            rets = [r for r in hirq.walk(a["body"]) if r.get("k") == "ret" and "e" in r and const_eval(r["e"]) is False]
                            ok = bool(rets) and hirq.diverges(a["body"])
                            how = "match: the Err arm %s" % ("returns false" if ok else "does not return false")
                elif par is not None and par.get("k") == "let" and par.get("els") is not None:
                    rets = [r for r in hirq.walk(par["els"]) if r.get("k") == "ret" and "e" in r and const_eval(r["e"]) is False]
                    ok = bool(rets) and (par["pat"].get("r") or {}).get("p", "").endswith("::Ok")
                    how = "let-else: %s" % ("returns false" if ok else "does not return false")
                elif par is not None and par.get("k") == "try":
                    ok, how = False, "`?` in a function returning bool"
                ctx.ob("R08.3", site_key(g, "a failing namelist entry aborts the element", n - 1), ok, line_of(c), how)
        ctx.floor("R08.3", "namelist reads in executable content", n, 1)
    ctx.guard("R08.3", r3_abort)

    # ------------------------------------------------------------------------------ R08.4
    ctx.rule("R08.4", "DataStore::set_arc replaces a value only through the occupied entry and only when it is not read-only (no other insert); "
                      "ExpressionAssign writes through the target arc only under !is_readonly() of that arc; Datamodel::assign implementations "
                      "pass (left, right) in order with allow_undefined = false, and assign_internal builds ExpressionAssign exactly when "
                      "!allow_undefined; Assign::execute passes (location, expr)")

    def r4():
        sa = F.fn("datamodel::DataStore::set_arc")
        ins = [c for c in sa.walk() if c.get("k") in ("call", "mcall") and c.get("p") and last_seg(c["p"]) in ("insert", "or_insert", "or_insert_with", "insert_entry", "extend")]
        ctx.exact("R08.4", "insert sites in DataStore::set_arc", len(ins), 1)
        for i, c in enumerate(ins):
            occupied = "OccupiedEntry" in c["p"] or "OccupiedEntry" in (c.get("rty") or "")
            g = hirq.guard_atoms(sa, c)
            ro = any(pol is False and isinstance(a, dict) and a.get("k") == "mcall" and a["m"] == "is_readonly" and
                     depends_on(sa, a["r"], {local_of(c["r"])}) for a, pol in g)
            ctx.ob("R08.4", site_key(sa, "insert only into an occupied, writable entry", i), occupied and ro, line_of(c),
                   "insert through %s; guarded by !is_readonly() of the same entry: %s" % (c["p"], ro))
        # ExpressionAssign: the write is guarded by !target.is_readonly()
        ea = F.fns["<expression_engine::expressions::ExpressionAssign as expression_engine::expressions::Expression>::execute"]
        wr = write_sites(ea)
        ctx.floor("R08.4", "write sites in ExpressionAssign::execute", len(wr), 1)
        for i, (c, tgt) in enumerate(wr):
            ok = write_guarded(ea, c, tgt)
            ctx.ob("R08.4", site_key(ea, "write under !is_readonly(target)", i), ok, line_of(c), "target %s" % describe(tgt))
        # the three assign entry points
        asg = F.fns["<executable_content::Assign as executable_content::ExecutableContent>::execute"]
        cs = asg.calls(DM + "assign")
        ctx.exact("R08.4", "Datamodel::assign calls in Assign::execute", len(cs), 1)
        for c in cs:
            ok = is_field_of(c["a"][0], "location") and is_field_of(c["a"][1], "expr")
            ctx.ob("R08.4", site_key(asg, "assign(location, expr)"), ok, line_of(c), "arguments %s, %s" % (describe(c["a"][0]), describe(c["a"][1])))
        n = 0
        for t in sorted(F.impls.get(DM + "assign", ())):
            if t.startswith("<" + NULL_DM + " as "):
                continue
            g = F.fns[t]
            cs = [c for c in g.walk() if c.get("k") in ("call", "mcall") and c.get("p") and last_seg(c["p"]) == "assign_internal"]
            ctx.ob("R08.4", site_key(g, "delegates to assign_internal"), len(cs) == 1, g.where, "%d call(s)" % len(cs))
            for c in cs:
                n += 1
                a = c["a"]
                ok = len(a) == 3 and depends_on(g, a[0], {g.params[1]["b"]}) and not depends_on(g, a[0], {g.params[2]["b"]}) and \
                    depends_on(g, a[1], {g.params[2]["b"]}) and not depends_on(g, a[1], {g.params[1]["b"]}) and const_eval(a[2]) is False
                ctx.ob("R08.4", site_key(g, "assign_internal(left, right, false)"), ok, line_of(c),
                       "arguments %s" % [describe(x) for x in a])
        ctx.floor("R08.4", "Datamodel::assign implementations with an expression language", n, 1)
        # rfsm: allow_undefined selects the operator
        ai = F.fn("datamodel::expression_engine::RFsmExpressionDatamodel::assign_internal")
        au = [c for c in ai.calls("ExpressionAssignUndefined::new")]
        an = [c for c in ai.calls("ExpressionAssign::new")]
        ctx.exact("R08.4", "ExpressionAssign::new in assign_internal", len(an), 1)
        pb = ai.params[3]["b"]
        for c in an:
            g = hirq.guard_atoms(ai, c)
            ok = any(pol is False and isinstance(a, dict) and local_of(a, NO_T) == pb for a, pol in g)
            ctx.ob("R08.4", site_key(ai, "ExpressionAssign when !allow_undefined"), ok, line_of(c), "guards %s" % [(describe(x), p) for x, p in g if isinstance(x, dict) and x.get("k")])
        for c in au:
            g = hirq.guard_atoms(ai, c)
            ok = any(pol is True and isinstance(a, dict) and local_of(a, NO_T) == pb for a, pol in g)
            ctx.ob("R08.4", site_key(ai, "ExpressionAssignUndefined only when allow_undefined"), ok, line_of(c), "guards %s" % [(describe(x), p) for x, p in g if isinstance(x, dict) and x.get("k")])
    ctx.guard("R08.4", r4)

    def r4_strict():
        # ECMAScript model: `<assign>` to an undeclared location is an error because the script context runs in strict mode; the
        # declare-if-missing path switches strict mode off for one evaluation. Off and on are paired: the restoring statement stands
        # in the same block, under the same condition, and no return / `?` lies between the two (otherwise a failed evaluation leaves
        # the session in sloppy mode and later assigns to undeclared locations stop raising error.execution).
        name = "datamodel::ecma_script::ECMAScriptDatamodel::assign_internal"
        if not F.has_fn(name):
            return
        fn = F.fn(name)
        calls = [c for c in fn.walk() if c.get("k") == "mcall" and c["m"] == "strict" and "Context" in (c.get("p") or "") and c["a"]]
        off = [c for c in calls if const_eval(c["a"][0]) is False]
        on = [c for c in calls if const_eval(c["a"][0]) is True]
        ctx.exact("R08.4", "strict(false) sites in the ECMAScript assign_internal", len(off), 1)
        ctx.exact("R08.4", "strict(true) sites in the ECMAScript assign_internal", len(on), 1)
        if len(off) != 1 or len(on) != 1:
            return
        idx4 = hirq.order_index(fn)

        def stmt_of(c):
            cur = c
            for anc in fn.ancestors(c):
                if anc is fn.hir:
                    return cur
                cur = anc
            return None
        s_off, s_on = stmt_of(off[0]), stmt_of(on[0])
        same_block = s_off is not None and s_on is not None and s_off is not s_on and idx4[id(s_off)] < idx4[id(s_on)]
        same_cond = same_block and s_off.get("k") == "if" and s_on.get("k") == "if" and describe(s_off["c"]) == describe(s_on["c"]) and \
            "e" not in s_off and "e" not in s_on
        exits = [r for r in fn.walk() if r.get("k") in ("ret", "try") and hirq.enclosing_closure(fn, r) is None and
                 s_off is not None and s_on is not None and idx4[id(s_off)] < idx4[id(r)] < idx4[id(s_on)]]
        ctx.ob("R08.4", site_key(fn, "strict mode restored on every path after it was switched off"), same_cond and not exits, line_of(off[0]),
               "restoring statement later in the function body under the same condition: %s; returns / `?` in between: %s" % (
                   same_cond, [line_of(r) for r in exits] or "none"))
    ctx.guard("R08.4", r4_strict)

    # ------------------------------------------------------------------------------ R08.5
    ctx.rule("R08.5", "execute_for_each implementations: the body callback is called inside a loop over the collection; in the same iteration and "
                      "before the call the item variable (named by parameter `item`) is set from the loop element and the index variable (named by "
                      "parameter `index`) from a counter that is incremented once per iteration; ForEach::execute passes (array, item, index) and a "
                      "body that runs `self.content`")

    def r5():
        n_loops = 0
        for t in sorted(F.impls.get(DM + "execute_for_each", ())):
            if t.startswith("<" + NULL_DM + " as "):
                continue
            g = F.fns[t]
            p_item, p_index, p_body = g.params[2]["b"], g.params[3]["b"], g.params[4]["b"]
            idx = hirq.order_index(g)
            bodies = [c for c in g.walk() if c.get("k") == "call" and local_of(c["f"], NO_T) == p_body]
            ctx.ob("R08.5", site_key(g, "calls the body"), len(bodies) >= 1, g.where, "%d call(s) of the body callback" % len(bodies))
            for i, bc in enumerate(bodies):
                loops = hirq.enclosing_loops(g, bc)
                ctx.ob("R08.5", site_key(g, "body called per element", i), bool(loops) and loops[0].get("k") == "for", line_of(bc), "enclosing loops: %d" % len(loops))
                if not loops or loops[0].get("k") != "for":
                    continue
                n_loops += 1
                lp = loops[0]
                lvars = set(pattern_bindings(lp["pat"]))
                bguards = [id(x["node"]) for x in hirq.guards(g, bc)]
                # a body that reports false (an error in its block) ends the foreach with false, so the caller's block stops too
                fx = false_exit(g, lp, bc)
                ctx.ob("R08.5", site_key(g, "a false body ends the foreach with false", i), fx is not None, line_of(bc),
                       "`return false` under the negated body call: %s" % ("line %s" % line_of(fx) if fx is not None else "none (a `break` or nothing)"))

                def setter(pname):
                    out = []
                    for c in hirq.walk(lp["body"]):
                        if c.get("k") not in ("call", "mcall") or not c.get("p") or in_closure(g, c) is not in_closure(g, bc):
                            continue
                        if last_seg(c["p"]) not in ("set", "set_arc", "assign", "assign_internal", "set_js_property", "set_undefined", "set_undefined_arc"):
                            continue
                        if not c["a"] or not depends_on(g, c["a"][0], {pname}):
                            continue
                        if idx[id(c)] >= idx[id(bc)]:
                            continue
                        # no guard of its own besides those of the body call (and emptiness tests of the name)
                        own = [x for x in hirq.guards(g, c) if id(x["node"]) not in bguards and any(y is lp for y in g.ancestors(x["node"]))]
                        own = [x for x in own if not (x.get("cond") is not None and depends_on(g, x["cond"], {pname}) and not depends_on(g, x["cond"], lvars))]
                        if own:
                            continue
                        out.append(c)
                    return out
                items = [c for c in setter(p_item) if len(c["a"]) > 1 and depends_on(g, c["a"][1], lvars)]
                ctx.ob("R08.5", site_key(g, "item set from the element before the body", i), len(items) >= 1, line_of(bc),
                       "setters of `item` before the call: %s" % [describe(c) for c in items])
                # counter
                counters = set()
                for a in hirq.walk(lp["body"]):
                    if a.get("k") == "assignop" and a["op"] in ("Add", "AddAssign") and const_eval(a["r"]) == 1 and hirq.enclosing_loops(g, a)[0] is lp:
                        b = local_of(a["l"], NO_T)
                        if b is not None and idx[id(a)] > idx[id(bc)]:
                            own = [x for x in hirq.guards(g, a) if id(x["node"]) not in bguards and any(y is lp for y in g.ancestors(x["node"]))
                                   and not (x.get("cond") is not None and any(y is bc for y in hirq.walk(x["cond"])))]
                            if not own:
                                counters.add(b)
                # or the loop itself counts: `for (x, i) in coll.into_iter().zip(0..)` / `for (i, x) in coll.iter().enumerate()`
                _, chain5 = method_chain(g, lp["iter"])
                pat5 = lp["pat"]
                if pat5.get("k") == "ptup" and len(pat5["a"]) == 2 and all(s.get("k") == "bind" for s in pat5["a"]):
                    for m5, n5 in chain5[-1:]:
                        if m5 == "enumerate" and not n5["a"]:
                            counters.add(pat5["a"][0]["b"])
                        if m5 == "zip" and len(n5["a"]) == 1:
                            rng = peel(n5["a"][0], NO_T)
                            start = [v for name, v in rng.get("f", []) if name == "start"] if rng.get("k") == "struct" else []
                            if (rng.get("r") or {}).get("p", "").endswith("RangeFrom") and start and const_eval(start[0]) == 0:
                                counters.add(pat5["a"][1]["b"])
                idxs = [c for c in setter(p_index) if len(c["a"]) > 1 and depends_on(g, c["a"][1], counters)]
                ctx.ob("R08.5", site_key(g, "index set from a per-iteration counter before the body", i), len(idxs) >= 1 and bool(counters), line_of(bc),
                       "counters incremented after the body: %d; setters of `index`: %s" % (len(counters), [describe(c) for c in idxs]))
        ctx.floor("R08.5", "foreach loops that call the body", n_loops, 2)
        fe = F.fns["<executable_content::ForEach as executable_content::ExecutableContent>::execute"]
        cs = fe.calls(DM + "execute_for_each")
        ctx.exact("R08.5", "execute_for_each calls in ForEach::execute", len(cs), 1)
        for c in cs:
            a = c["a"]
            ok = is_field_of(a[0], "array") and is_field_of(a[1], "item") and depends_on(fe, a[2], set()) is False
            o = hirq.origin(fe, a[2])
            uses_index = any(n.get("k") == "field" and n["n"] == "index" for n in hirq.walk(o.get("expr", a[2]))) or \
                any(n.get("k") == "field" and n["n"] == "index" for n in hirq.walk(hirq.single_def(fe, local_of(a[2])) or a[2]))
            cl = peel(a[3], NO_T)
            runs = cl.get("k") == "closure" and any(hirq.enclosing_closure(fe, lp) is cl and (loop_source(fe, lp)[1] is not None and
                                                    is_field_of(loop_source(fe, lp)[1]["a"][0], "content")) for lp, _, _ in content_loops(F, fe, wrappers))
            ctx.ob("R08.5", site_key(fe, "execute_for_each(array, item, index, body over self.content)"), ok and uses_index and runs, line_of(c),
                   "array/item fields: %s; index from self.index: %s; body runs self.content: %s" % (ok, uses_index, runs))
    ctx.guard("R08.5", r5)

    # ------------------------------------------------------------------------------ R08.6
    ctx.rule("R08.6", "Raise::execute enqueues exactly one event on the internal queue, unconditionally, built from `self.event` with "
                      "EventType::internal; GlobalData::enqueue_internal appends its parameter to internalQueue")

    def r6():
        fn = F.fns["<executable_content::Raise as executable_content::ExecutableContent>::execute"]
        cs = [c for c in fn.walk() if c.get("k") in ("call", "mcall") and c.get("p") and last_seg(c["p"]) == "enqueue_internal"]
        ctx.exact("R08.6", "enqueue_internal calls in Raise::execute", len(cs), 1)
        for c in cs:
            ev = c["a"][-1]
            o = hirq.origin(fn, ev)
            e = o.get("expr") if o.get("from") == "expr" else None
            ok = e is not None and is_call(e, "fsm::Event::new") and any(is_field_of(a, "event") for a in e["a"]) and \
                any((hirq.def_path(a) or "").endswith("EventType::internal") for a in e["a"])
            unguarded = not hirq.guards(fn, c) and not hirq.enclosing_loops(fn, c)
            ctx.ob("R08.6", site_key(fn, "enqueues Event::new(.., self.event, .., internal)"), ok and unguarded, line_of(c),
                   "event built from self.event with EventType::internal: %s; unconditional: %s" % (ok, unguarded))
        gq = F.fn("fsm::GlobalData::enqueue_internal")
        enq = [c for c in gq.walk() if c.get("k") == "mcall" and c["m"] == "enqueue" and is_field_of(c["r"], "internalQueue")]
        ok = len(enq) == 1 and param_index(gq, enq[0]["a"][0]) == 1 and not hirq.guards(gq, enq[0])
        ctx.ob("R08.6", site_key(gq, "internalQueue.enqueue(event)"), ok, gq.where, "%d enqueue(s) of the parameter" % len(enq))
    ctx.guard("R08.6", r6)

    # ------------------------------------------------------------------------------ R08.7
    ctx.rule("R08.7", "<if>/<elseif>/<else> chains are read into nested If values linked through If.else_content: the reader attaches a new "
                      "else region only to an If whose else_content is still 0 (every assignment `x.else_content = id` in the XML reader is "
                      "under `x.else_content == 0` of the same x, inside the loop that follows the existing links) - an existing link is "
                      "never overwritten, which would unlink the branches behind it")

    def r7():
        n = 0
        for fn in F.fn_list:
            if fn.hir is None or not fn.path.startswith("scxml_reader::"):
                continue
            for a in fn.nodes("assign"):
                f = hirq.field_of(a["l"], NO_T)
                if not f or f[1] != "else_content":
                    continue
                base = local_of(f[0], NO_T)
                n += 1
                unset = False
                for g, pol in hirq.guard_atoms(fn, a):
                    if pol is None or not isinstance(g, dict) or g.get("k") != "bin":
                        continue
                    gf = hirq.field_of(g["l"], NO_T)
                    if gf and gf[1] == "else_content" and local_of(gf[0], NO_T) == base and base is not None and const_eval(g["r"]) == 0:
                        if (g["op"] in ("Gt", "Ne") and pol is False) or (g["op"] == "Eq" and pol is True):
                            unset = True
                in_loop = bool(hirq.enclosing_loops(fn, a))
                ctx.ob("R08.7", site_key(fn, "else region attached only where none is linked yet", n - 1), unset and in_loop, line_of(a),
                       "assignment under `else_content == 0` of the same If: %s; inside the loop that follows the chain: %s" % (unset, in_loop))
        ctx.floor("R08.7", "assignments of If.else_content in the XML reader", n, 2)
    ctx.guard("R08.7", r7)


# ------------------------------------------------------------------------------------------------
# helpers used by R08.4 (and by C09, which re-implements the same query on all Expression impls)
# ------------------------------------------------------------------------------------------------

def flat_outcomes(outs):
    out = []
    for o in outs:
        if o[0] == "anyof":
            for g in o[1]:
                out.extend(flat_outcomes(g))
        else:
            out.append(o)
    return out


def const_bool(F, e, depth=2):
    """Boolean the expression always evaluates to: a literal, or a call of an in-crate helper all of whose results are
    the same literal."""
    e = peel(e, NO_T)
    if e.get("k") == "lit":
        v = const_eval(e)
        return v if isinstance(v, bool) else None
    if e.get("k") in ("call", "mcall") and e.get("p") and depth > 0:
        g = F.fns.get(e["p"])
        if g is None or g.hir is None or F.impls.get(e["p"]):
            return None
        outs = [tail_of(g.hir)] + [r["e"] for r in g.nodes("ret") if "e" in r and hirq.enclosing_closure(g, r) is None]
        vals = {const_bool(F, o, depth - 1) for o in outs}
        if len(vals) == 1 and None not in vals:
            return vals.pop()
    return None


def strip_generics_(p):
    from facts import strip_generics
    return strip_generics(p)


def pattern_bindings(p):
    out = []
    if not isinstance(p, dict):
        return out
    k = p.get("k")
    if k == "bind":
        out.append(p["b"])
        if "sub" in p:
            out.extend(pattern_bindings(p["sub"]))
    elif k in ("pts", "ptup", "por", "pslice"):
        for s in p["a"]:
            out.extend(pattern_bindings(s))
    elif k == "pstruct":
        for _, s in p["f"]:
            out.extend(pattern_bindings(s))
    elif "e" in p and isinstance(p["e"], dict):
        out.extend(pattern_bindings(p["e"]))
    return out


def write_sites(fn):
    """[(call node, expression denoting the DataArc written)] — `X.clone_into(<T>.lock().unwrap().deref_mut())` and
    `*<T>.lock().unwrap() = ..`."""
    out = []
    for c in fn.walk():
        if c.get("k") == "mcall" and c["m"] == "clone_into" and c["a"]:
            tgt = arc_of_guard(c["a"][0])
            if tgt is not None:
                out.append((c, tgt))
        if c.get("k") == "assign":
            tgt = arc_of_guard(c["l"])
            if tgt is not None:
                out.append((c, tgt))
    return out


def arc_of_guard(e):
    """`T` in `T.lock().unwrap().deref_mut()` / `*T.lock().unwrap()`."""
    e = peel(e, {"deref_mut", "deref", "unwrap", "expect", "as_mut", "borrow_mut"})
    if e.get("k") == "mcall" and e["m"] == "lock" and ("DataArc" in (e.get("p") or "") or "DataArc" in (e.get("rty") or "")):
        return e["r"]
    return None


def write_guarded(fn, c, tgt):
    tb = local_of(tgt)
    for a, pol in hirq.guard_atoms(fn, c):
        if pol is False and isinstance(a, dict) and a.get("k") == "mcall" and a["m"] == "is_readonly" and tb is not None and local_of(a["r"]) == tb:
            return True
    return False
