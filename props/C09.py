"""C09 — In(), system variables, read-only-ness and data binding.

Decided (structural necessary conditions on the resolved HIR / MIR):
  R09.1 every reader of GlobalData.configuration outside the interpreter is an In() implementation that tests membership
        of an id looked up in a name->id table filled from Fsm.states, on the live GlobalData (K1/K3/K4)
  R09.2 the two set_event tables: the seven W3C field names (shared constants) each fed from its Event field (K4)
  R09.3 read-only installation of _sessionid/_name/_ioprocessors/_event, the store never replaces a read-only entry,
        every write through a DataArc tests is_readonly, and members/elements of a read-only container are refused (deep)
  R09.4 Fsm::interpret initialises system variables, functions, _ioprocessors and the data model before the global
        script and enterStates; the recursion covers every child state; late/early decided by `binding == Early`
  R09.5 late binding in enterStates: initializeDataModel(s, true) exactly under `binding == Late && isFirstEntry`,
        before the onentry content of the same iteration, with isFirstEntry cleared on that path
Not decided: what `_event` holds at every evaluation point (values; needs C03/C13 as premises).
"""
from common import *
import hirq
from facts import strip_generics

DM = "datamodel::Datamodel::"
NULL_DM = "datamodel::NullDatamodel"
EXPR_EXECUTE = "expression_engine::expressions::Expression::execute"
FSMP = "fsm::Fsm::"

# W3C 5.10.1: the fields of _event, and the Event field(s) each one reports
EVENT_FIELDS = {
    "EVENT_VARIABLE_FIELD_NAME": ("name", {"name"}),
    "EVENT_VARIABLE_FIELD_TYPE": ("type", {"etype"}),
    "EVENT_VARIABLE_FIELD_SEND_ID": ("sendid", {"sendid"}),
    "EVENT_VARIABLE_FIELD_ORIGIN": ("origin", {"origin"}),
    "EVENT_VARIABLE_FIELD_ORIGIN_TYPE": ("origintype", {"origin_type"}),
    "EVENT_VARIABLE_FIELD_INVOKE_ID": ("invokeid", {"invoke_id"}),
    "EVENT_VARIABLE_FIELD_DATA": ("data", {"param_values", "content"}),
}
SYSTEM_NAMES = {"SESSION_ID_VARIABLE_NAME": "_sessionid", "SESSION_NAME_VARIABLE_NAME": "_name", "EVENT_VARIABLE_NAME": "_event",
                "SYS_IO_PROCESSORS": "_ioprocessors"}


# ------------------------------------------------------------------------------------------------
# helpers
# ------------------------------------------------------------------------------------------------

def last_seg(p):
    return (p or "").split("::")[-1]


def is_ctor(n, name):
    return n.get("k") == "call" and bool(n.get("p")) and last_seg(n["p"]) == name and n["p"].startswith(("std::", "core::"))


def tail_of(n):
    while n.get("k") == "block":
        if "tail" in n:
            n = n["tail"]
        elif n["st"]:
            n = n["st"][-1]
            break
        else:
            break
    return n


def in_closure(fn, n):
    return hirq.enclosing_closure(fn, n)


def source_of_binding(fn, b):
    """Expression a local takes its value from (let initialiser / match scrutinee component / if-let initialiser)."""
    info = fn.bindings().get(b)
    if not info:
        return None, None
    fr = info["from"]
    if fr == "let":
        e = info.get("init")
        if e is None:
            asg = fn.assignments_to(b)
            e = asg[0]["r"] if len(asg) == 1 else None
    elif fr == "match":
        e = info.get("scrutinee")
    elif fr == "iflet":
        e = info.get("init")
    else:
        return None, info
    d = info.get("destruct") or ()
    if e is not None and d:
        ep = peel(e, NO_T)
        if ep.get("k") == "tup" and d[0][0] in ("ptup", "tup") and isinstance(d[0][1], int) and d[0][1] < len(ep["a"]):
            e = ep["a"][d[0][1]]
    return e, info


def provenance(fn, e, depth=16):
    """Walks back where the value of e is taken *from*: receivers of method calls, bases of field/index accesses,
    payloads of Ok/Some, initialisers / scrutinees of the locals met. Yields ('node', n) for every expression visited
    and ('local', binding, info) for every local."""
    while depth > 0 and e is not None:
        depth -= 1
        e = peel(e, NO_T)
        yield ("node", e, None)
        k = e.get("k")
        if k == "mcall":
            e = e["r"]
        elif k == "call" and (is_ctor(e, "Ok") or is_ctor(e, "Some")) and e["a"]:
            e = e["a"][0]
        elif k in ("field", "index"):
            e = e["e"]
        elif k == "path" and e["r"].get("k") == "local":
            b = e["r"]["b"]
            src, info = source_of_binding(fn, b)
            yield ("local", b, info)
            e = src
        else:
            return


def depends_on(fn, e, targets, depth=6):
    if depth < 0 or e is None:
        return False
    for n in hirq.walk(e):
        if n.get("k") == "path" and n["r"].get("k") == "local":
            b = n["r"]["b"]
            if b in targets:
                return True
            src, info = source_of_binding(fn, b)
            if info and info["from"] == "for":
                src = info.get("iter")
            if src is not None and depends_on(fn, src, targets, depth - 1):
                return True
            for a in fn.assignments_to(b):
                if depends_on(fn, a["r"], targets, depth - 1):
                    return True
    return False


def event_fields_in(fn, e, event_b, depth=5, seen=None):
    """Names of the fields of the `event` parameter the value of e is computed from (through lets / matches)."""
    out = set()
    seen = seen if seen is not None else set()
    if e is None or depth < 0:
        return out
    for n in hirq.walk(e):
        if n.get("k") == "field" and local_of(n["e"], NO_T) == event_b:
            out.add(n["n"])
        elif n.get("k") == "path" and n["r"].get("k") == "local" and n["r"]["b"] != event_b and n["r"]["b"] not in seen:
            b = n["r"]["b"]
            seen.add(b)
            src, info = source_of_binding(fn, b)
            if info and info["from"] == "for":
                src = info.get("iter")
            out |= event_fields_in(fn, src, event_b, depth - 1, seen)
            for a in fn.assignments_to(b):
                out |= event_fields_in(fn, a["r"], event_b, depth - 1, seen)
    return out


def const_refs(F, e):
    """Last path segments of the consts / statics mentioned in e."""
    out = []
    for n in hirq.walk(e):
        if n.get("k") == "path" and n["r"].get("k") == "def" and str(n["r"].get("dk", "")).startswith(("Const", "Static", "AssocConst")):
            out.append(last_seg(n["r"]["p"]))
    return out


def owner_of(bty):
    t = (bty or "").replace("&mut ", "").replace("&", "").strip()
    return last_seg(strip_generics(t))


def write_sites(fn):
    """[(node, expression denoting the DataArc written through)]"""
    out = []
    for c in fn.walk():
        if c.get("k") == "mcall" and c["m"] == "clone_into" and c["a"]:
            tgt = arc_of_guard(c["a"][0])
            if tgt is not None:
                out.append((c, tgt))
        elif c.get("k") in ("assign", "assignop"):
            tgt = arc_of_guard(c["l"])
            if tgt is not None:
                out.append((c, tgt))
    return out


def arc_of_guard(e):
    e = peel(e, {"deref_mut", "deref", "unwrap", "expect", "as_mut", "borrow_mut"})
    if e.get("k") == "mcall" and e["m"] == "lock" and ("DataArc" in (e.get("p") or "") or "DataArc" in (e.get("rty") or "")):
        return e["r"]
    return None


def readonly_guard(fn, node, b):
    """node executes only when `<b>.is_readonly()` is false."""
    for a, pol in hirq.guard_atoms(fn, node):
        if pol is False and isinstance(a, dict) and a.get("k") == "mcall" and a["m"] == "is_readonly" and local_of(a["r"]) == b:
            return True
    return False


def builder_flags(e):
    """{method: literal} of a PropertyDescriptor builder chain."""
    out = {}
    for n in hirq.walk(e):
        if n.get("k") == "mcall" and "PropertyDescriptorBuilder" in (n.get("p") or "") and len(n["a"]) == 1:
            v = const_eval(n["a"][0])
            if isinstance(v, bool):
                out.setdefault(n["m"], []).append(v)
    return out


def call_named(fn, name, root=None):
    return [c for c in fn.walk(root) if c.get("k") in ("call", "mcall") and c.get("p") and last_seg(c["p"]) == name]


def run(ctx):
    F = ctx.facts
    ctx.explanation = ("C09: who reads GlobalData.configuration outside the interpreter and how (In() implementations: table from Fsm.states, live "
                       "membership test, polarity), agreement of the two set_event tables with W3C 5.10.1, read-only installation of the four system "
                       "variables, read-only discipline of the data store and of every write through a DataArc incl. members of read-only "
                       "containers, initialisation order in Fsm::interpret, late binding in Fsm::enterStates")
    ctx.assumptions += [
        "rustc's HIR/MIR and type resolution for the analysed configuration",
        "boa: a property defined with writable(false) / Attribute::READONLY rejects assignment",
        "deep read-only is decided at the access expressions (member / index results inherit the container's flag), the formulation of DESIGN R09.3; "
        "an installation-side deep freeze of every nested value would be an alternative the rule does not recognise",
        "the configuration is only read under the session's GlobalData lock or from the &GlobalData handed to actions",
    ]

    # ------------------------------------------------------------------------------ R09.1
    ctx.rule("R09.1", "every function outside fsm::Fsm that reads GlobalData.configuration is an In() implementation: exactly one membership test "
                      "on `<GlobalData>.configuration` (guard locked in the function or a &GlobalData parameter — never a stored copy), whose "
                      "argument comes from `<table>.get(name)`; the result reports membership un-negated; every insert into that table is "
                      "`(state.name, state.id)` for `state` iterating Fsm.states")

    def r1():
        readers = {}
        for fn, n in field_uses(F, "GlobalData", "configuration"):
            owner = fn if fn.kind != "Closure" else F.fns.get(fn.parent_path, fn)
            if owner.path.startswith(FSMP) or owner.path.startswith("fsm::GlobalData"):
                continue
            readers.setdefault(owner.path, (owner, []))[1].append(n)
        ctx.floor("R09.1", "In() implementations (readers of GlobalData.configuration outside Fsm)", len(readers), 2)
        tables = set()
        for path in sorted(readers):
            fn, uses = readers[path]
            tests = []
            for u in uses:
                p = fn.parent(u)
                cur = u
                while p is not None and (p.get("k") in ("field", "ref") or (p.get("k") == "un" and p["op"] == "Deref")):
                    cur, p = p, fn.parent(p)
                if p is not None and p.get("k") == "mcall" and p["r"] is cur and p["m"] in ("contains", "isMember"):
                    tests.append(p)
            ctx.ob("R09.1", site_key(fn, "one live membership test"), len(tests) == 1 and len(uses) == 1, fn.where,
                   "%d read(s) of GlobalData.configuration, %d membership test(s)" % (len(uses), len(tests)))
            for t in tests:
                # live GlobalData: parameter or lock taken here
                live = False
                for kind, x, info in provenance(fn, t["r"]):
                    if kind == "node" and x.get("k") == "mcall" and x["m"] == "lock":
                        live = True
                    if kind == "local" and info and info["from"] == "param" and "GlobalData" in (info.get("ty") or ""):
                        live = True
                # id from a table lookup
                tbl = None
                for kind, x, info in provenance(fn, t["a"][0]):
                    if kind != "node":
                        continue
                    tbl = table_lookup(x)
                    if tbl is None and x.get("k") in ("call", "mcall") and x.get("p") in F.fns and not F.impls.get(x["p"]):
                        # one level of helper inlining: `fn lookup(&self, n) -> Option<&StateId> { self.table.get(n) }`
                        g = F.fns[x["p"]]
                        if g.hir is not None:
                            for k2, y, _ in provenance(g, tail_of(g.hir)):
                                if k2 == "node" and table_lookup(y):
                                    tbl = table_lookup(y)
                                    break
                    if tbl is not None:
                        break
                if tbl:
                    tables.add(tbl)
                ctx.ob("R09.1", site_key(fn, "membership of table[name] in the live configuration"), live and tbl is not None, line_of(t),
                       "receiver from a lock()/&GlobalData parameter: %s; argument looked up in %s" % (live, tbl))
                # polarity
                neg = False
                cur, p = t, fn.parent(t)
                while p is not None and (p.get("k") in ("ref", "un") or (p.get("k") == "block" and p.get("tail") is cur)):
                    if p.get("k") == "un" and p["op"] == "Not":
                        neg = not neg
                    cur, p = p, fn.parent(p)
                ok = not neg
                how = "value handed on un-negated"
                if p is not None and p.get("k") == "if" and p["c"] is cur:
                    lits = [const_eval(x) for x in hirq.walk(p["t"]) if x.get("k") == "lit" and isinstance(const_eval(x), bool)]
                    ok = (lits == [not neg]) if lits else False
                    how = "used as condition; the then-branch yields %s" % lits
                ctx.ob("R09.1", site_key(fn, "reports membership, not its negation"), ok, line_of(t), how)
        ctx.floor("R09.1", "name->id tables used by In()", len(tables), 2)
        for owner, field in sorted(tables):
            sites = []
            for fn, n, kind, meth, par in mutations_of_field(F, owner, field):
                if meth == "insert":
                    sites.append((fn, par))
                else:
                    ctx.ob("R09.1", "%s.%s|mutated by %s in %s" % (owner, field, meth or kind, fn.path), False, line_of(n), "only insert(state.name, state.id) is expected")
            for fn in F.fn_list:
                if fn.hir is None:
                    continue
                for s in fn.nodes("struct"):
                    if owner_of(s["r"].get("p")) != owner and not path_matches(s["r"].get("p", ""), owner):
                        continue
                    for name, e in s["f"]:
                        if name != field:
                            continue
                        b = local_of(e, NO_T)
                        if b is None:
                            init = peel(e, NO_T)
                            ok = init.get("k") == "call" and last_seg(init.get("p") or "") in ("new", "default", "with_capacity")
                            cp = peel(e)  # a copy of the same table of another instance (derived Clone)
                            if cp.get("k") == "call" and last_seg(cp.get("p") or "") == "clone" and len(cp["a"]) == 1:
                                cp = peel(cp["a"][0])
                            ok = ok or (cp.get("k") == "field" and cp["n"] == field and owner_of(cp.get("bty")) == owner)
                            ctx.ob("R09.1", "%s.%s|initialised in %s" % (owner, field, fn.path), ok, line_of(e), "field initialised with %s" % describe(e))
                            continue
                        for c in fn.walk():
                            if c.get("k") == "mcall" and local_of(c["r"], NO_T) == b and c.get("rty", "").startswith("&mut"):
                                if c["m"] == "insert":
                                    sites.append((fn, c))
                                else:
                                    ctx.ob("R09.1", "%s.%s|mutated by %s in %s" % (owner, field, c["m"], fn.path), False, line_of(c), "only insert is expected")
            ctx.ob("R09.1", "%s.%s|table is filled" % (owner, field), len(sites) >= 1, "", "%d insert site(s)" % len(sites))
            for i, (fn, c) in enumerate(sites):
                loops = hirq.enclosing_loops(fn, c)
                ok = False
                detail = "not inside a for loop"
                if loops and loops[0].get("k") == "for":
                    lp = loops[0]
                    base, chain = method_chain(fn, lp["iter"])
                    bf = peel(base, NO_T)
                    over_states = bf.get("k") == "field" and bf["n"] == "states" and owner_in_type(bf.get("bty", ""), "Fsm")
                    lv = lp["pat"].get("b") if lp["pat"].get("k") == "bind" else None
                    a0, a1 = hirq.field_of(c["a"][0]), hirq.field_of(c["a"][1])
                    ok = over_states and lv is not None and bool(a0) and bool(a1) and a0[1] == "name" and a1[1] == "id" and \
                        local_of(a0[0]) == lv and local_of(a1[0]) == lv and not [g for g in hirq.guards(fn, c) if any(x is lp for x in fn.ancestors(g["node"]))]
                    detail = "loop over Fsm.states: %s; insert(%s, %s)" % (over_states, describe(c["a"][0]), describe(c["a"][1]))
                ctx.ob("R09.1", site_key(fn, "%s.%s = {state.name: state.id}" % (owner, field), i), ok, line_of(c), detail)
    ctx.guard("R09.1", r1)

    # ------------------------------------------------------------------------------ R09.2
    ctx.rule("R09.2", "set_event of every data model with variables: exactly the seven W3C fields of _event (shared name constants whose values are "
                      "name/type/sendid/origin/origintype/invokeid/data), each computed from the corresponding field of the Event parameter")

    def r2():
        for cname, (w3c, _) in sorted(EVENT_FIELDS.items()):
            v = F.const_value("datamodel::" + cname)
            ctx.ob("R09.2", "const|%s" % cname, v == w3c, "", "%s = %r (W3C: %r)" % (cname, v, w3c))
        n_impl = 0
        for t in sorted(F.impls.get(DM + "set_event", ())):
            if t.startswith("<" + NULL_DM + " as "):
                continue
            fn = F.fns[t]
            n_impl += 1
            ev_b = fn.params[1]["b"]
            rows = {}
            for c in fn.walk():
                if c.get("k") != "mcall" or len(c["a"]) < 2:
                    continue
                if c["m"] not in ("insert", "property"):
                    continue
                keys = [k for k in const_refs(F, c["a"][0]) if k in EVENT_FIELDS]
                if len(keys) != 1:
                    continue
                rows.setdefault(keys[0], []).append(c)
            ctx.ob("R09.2", site_key(fn, "seven fields"), set(rows) == set(EVENT_FIELDS) and all(len(v) == 1 for v in rows.values()), fn.where,
                   "fields set: %s" % sorted(rows))
            for cname in sorted(rows):
                for c in rows[cname]:
                    got = event_fields_in(fn, c["a"][1], ev_b)
                    want = EVENT_FIELDS[cname][1]
                    ctx.ob("R09.2", site_key(fn, "_event.%s from Event.%s" % (EVENT_FIELDS[cname][0], "/".join(sorted(want)))), got == want, line_of(c),
                           "value computed from Event.{%s}" % ",".join(sorted(got)))
                    if cname == "EVENT_VARIABLE_FIELD_TYPE":
                        nm = [x for x in hirq.walk(c["a"][1]) if x.get("k") == "mcall" and x.get("p") and path_matches(x["p"], "fsm::EventType::name")]
                        ctx.ob("R09.2", site_key(fn, "_event.type is EventType::name()"), len(nm) == 1, line_of(c), "%d call(s) of EventType::name" % len(nm))
        ctx.floor("R09.2", "set_event implementations with variables", n_impl, 1)
    ctx.guard("R09.2", r2)

    # ------------------------------------------------------------------------------ R09.3
    ctx.rule("R09.3", "read-only: (a) interpret installs _sessionid/_name through initialize_read_only; (b) initialize_read_only_arc, set_ioprocessors "
                      "and set_event store the value with set_readonly(true) on the very arc stored / writable(false) (+ Attribute::READONLY per "
                      "_event field); (c) DataStore.map is mutated only by DataStore::set_arc / set_undefined_arc (insert into an occupied entry "
                      "only under !is_readonly) and by set_event's removal of _event; (d) every write through a DataArc in an "
                      "Expression::execute implementation is guarded by !is_readonly() of that arc; (e) deep: an arc handed out by a member / "
                      "index access on the result of a sub-expression is refused or flagged when that container is read-only")

    def r3():
        for cname, val in sorted(SYSTEM_NAMES.items()):
            m = [p for p in F.consts if last_seg(p) == cname]
            v = F.const_value(m[0]) if len(m) == 1 else None
            ctx.ob("R09.3", "const|%s" % cname, v == val, "", "%s = %r (W3C: %r)" % (cname, v, val))
        # (a)
        it = F.fn(FSMP + "interpret")
        inst = [c for c in it.calls(DM + "initialize_read_only")]
        names = sorted(k for c in inst for k in const_refs(F, c["a"][0]))
        ctx.ob("R09.3", site_key(it, "_sessionid and _name installed read-only"), names == ["SESSION_ID_VARIABLE_NAME", "SESSION_NAME_VARIABLE_NAME"] and
               all(not hirq.guards(it, c) or all(g["how"].startswith("early-exit") for g in hirq.guards(it, c)) for c in inst), it.where,
               "initialize_read_only(%s)" % ", ".join(names))
        # names must not also be written through the writable API in interpret
        for c in it.calls(DM + "set") + it.calls(DM + "set_arc"):
            ks = [k for k in const_refs(F, c["a"][0]) if k in SYSTEM_NAMES]
            ctx.ob("R09.3", site_key(it, "system variable set through the writable API"), not ks, line_of(c), "set(%s)" % ks)
        dflt = F.fn(DM + "initialize_read_only")
        cs = dflt.calls(DM + "initialize_read_only_arc")
        ctx.ob("R09.3", site_key(dflt, "delegates to initialize_read_only_arc(name, arc(value))"), len(cs) == 1 and param_index(dflt, cs[0]["a"][0]) == 1 and
               depends_on(dflt, cs[0]["a"][1], {dflt.params[2]["b"]}), dflt.where, "%d delegation(s)" % len(cs))

        # (b) installation sites
        def stored_readonly(fn, arc_expr, what, key):
            """arc_expr is flagged by set_readonly(true) before it is stored."""
            b = local_of(arc_expr, NO_T)
            ok = False
            detail = "stored value %s is not a local" % describe(arc_expr)
            if b is not None:
                idx = hirq.order_index(fn)
                sets = [c for c in fn.walk() if c.get("k") == "mcall" and c["m"] == "set_readonly" and local_of(c["r"], NO_T) == b]
                good = [c for c in sets if const_eval(c["a"][0]) is True and not [g for g in hirq.guards(fn, c) if not g["how"].startswith("early-exit")]]
                bad = [c for c in sets if const_eval(c["a"][0]) is not True]
                ok = bool(good) and not bad and all(idx[id(c)] < idx[id(arc_expr)] for c in good)
                detail = "%d set_readonly(true) on the stored arc before the store, %d other set_readonly" % (len(good), len(bad))
            ctx.ob("R09.3", key, ok, line_of(arc_expr), "%s: %s" % (what, detail))

        def defined_nonwritable(fn, cname, key):
            cs = [c for c in call_named(fn, "define_property_or_throw")]
            hit = 0
            for c in cs:
                if cname is not None and cname not in const_refs(F, c["a"][0]):
                    continue
                if cname is None and param_index(fn, peel_js(c["a"][0])) is None and not depends_on(fn, c["a"][0], {fn.params[1]["b"]}):
                    continue
                hit += 1
                fl = builder_flags(c["a"][1])
                ctx.ob("R09.3", key, fl.get("writable") == [False], line_of(c), "property descriptor flags %s" % fl)
            return hit

        n_b = 0
        for t in sorted(F.impls.get(DM + "initialize_read_only_arc", ())):
            if t.startswith("<" + NULL_DM + " as "):
                continue
            fn = F.fns[t]
            n_b += 1
            stores = call_named(fn, "set_undefined_arc") + call_named(fn, "set_arc")
            if stores:
                for i, c in enumerate(stores):
                    same = param_index(fn, c["a"][0]) == 1 or depends_on(fn, c["a"][0], {fn.params[1]["b"]})
                    ctx.ob("R09.3", site_key(fn, "stores under the given name", i), same, line_of(c), "name argument %s" % describe(c["a"][0]))
                    stored_readonly(fn, c["a"][1], "value stored", site_key(fn, "stored arc is flagged read-only", i))
            else:
                hit = defined_nonwritable(fn, None, site_key(fn, "defined with writable(false)"))
                ctx.ob("R09.3", site_key(fn, "installs the variable"), hit == 1, fn.where, "%d define_property_or_throw(name, ..)" % hit)
        ctx.floor("R09.3", "initialize_read_only_arc implementations", n_b, 1)

        n_io = 0
        for t in sorted(F.impls.get(DM + "set_ioprocessors", ())):
            if t.startswith("<" + NULL_DM + " as "):
                continue
            fn = F.fns[t]
            n_io += 1
            stores = [c for c in call_named(fn, "set_arc") + call_named(fn, "set_undefined_arc") if "SYS_IO_PROCESSORS" in const_refs(F, c["a"][0])]
            if stores:
                for i, c in enumerate(stores):
                    stored_readonly(fn, c["a"][1], "_ioprocessors", site_key(fn, "_ioprocessors arc is flagged read-only", i))
            else:
                hit = defined_nonwritable(fn, "SYS_IO_PROCESSORS", site_key(fn, "_ioprocessors defined with writable(false)"))
                ctx.ob("R09.3", site_key(fn, "installs _ioprocessors"), hit == 1, fn.where, "%d define_property_or_throw(_ioprocessors, ..)" % hit)
        ctx.floor("R09.3", "set_ioprocessors implementations", n_io, 1)

        n_ev = 0
        for t in sorted(F.impls.get(DM + "set_event", ())):
            if t.startswith("<" + NULL_DM + " as "):
                continue
            fn = F.fns[t]
            n_ev += 1
            stores = [c for c in call_named(fn, "set_undefined_arc") + call_named(fn, "set_arc") + call_named(fn, "insert")
                      if len(c["a"]) == 2 and "EVENT_VARIABLE_NAME" in [k for k in const_refs(F, hirq.single_def(fn, local_of(c["a"][0], NO_T)) or c["a"][0])]]
            if stores:
                for i, c in enumerate(stores):
                    stored_readonly(fn, c["a"][1], "_event", site_key(fn, "_event arc is flagged read-only", i))
            else:
                hit = defined_nonwritable(fn, "EVENT_VARIABLE_NAME", site_key(fn, "_event defined with writable(false)"))
                ctx.ob("R09.3", site_key(fn, "installs _event"), hit == 1, fn.where, "%d define_property_or_throw(_event, ..)" % hit)
                props = [c for c in fn.walk() if c.get("k") == "mcall" and c["m"] == "property" and any(k in EVENT_FIELDS for k in const_refs(F, c["a"][0]))]
                ro = [c for c in props if len(c["a"]) == 3 and (hirq.def_path(c["a"][2]) or "").endswith("Attribute::READONLY")]
                ctx.ob("R09.3", site_key(fn, "every _event field is Attribute::READONLY"), len(props) == 7 and len(ro) == len(props), fn.where,
                       "%d of %d field properties are READONLY" % (len(ro), len(props)))
        ctx.floor("R09.3", "set_event implementations", n_ev, 1)

        # (c) the store
        muts = mutations_of_field(F, "DataStore", "map")
        ctx.floor("R09.3", "mutation sites of DataStore.map", len(muts), 3)
        for fn, n, kind, meth, par in muts:
            owner = fn.path
            if owner.startswith("datamodel::DataStore::"):
                ok = meth == "entry"
                detail = "DataStore method, via %s" % (meth or kind)
            else:
                # only: removal of `_event` by set_event before it installs the new one
                ok = False
                if meth == "remove" and fn.trait and fn.path.endswith("::set_event"):
                    d = hirq.single_def(fn, local_of(par["a"][0], NO_T)) if local_of(par["a"][0], NO_T) is not None else par["a"][0]
                    ok = d is not None and "EVENT_VARIABLE_NAME" in const_refs(F, d)
                detail = "%s of %s outside DataStore" % (meth or kind, describe(par["a"][0]) if par.get("a") else "?")
            ctx.ob("R09.3", "%s|DataStore.map.%s" % (owner, meth or kind), ok, line_of(n), detail)
        for name in ("set_arc", "set_undefined_arc"):
            fn = F.fn("datamodel::DataStore::" + name)
            ins = [c for c in fn.walk() if c.get("k") == "mcall" and c["m"] in ("insert", "insert_entry") and "OccupiedEntry" in (c.get("p") or "")]
            ctx.floor("R09.3", "occupied-entry inserts in DataStore::" + name, len(ins), 1)
            for i, c in enumerate(ins):
                eb = local_of(c["r"])
                ro = any(pol is False and isinstance(a, dict) and a.get("k") == "mcall" and a["m"] == "is_readonly" and depends_on(fn, a["r"], {eb})
                         for a, pol in hirq.guard_atoms(fn, c))
                ctx.ob("R09.3", site_key(fn, "occupied entry replaced only when not read-only", i), ro, line_of(c), "guarded by !entry.get().is_readonly(): %s" % ro)
            raw = [c for c in fn.walk() if c.get("k") == "mcall" and c["m"] in ("insert", "remove", "clear", "retain", "drain") and "HashMap" in (c.get("p") or "")]
            ctx.ob("R09.3", site_key(fn, "no unconditional HashMap write"), not raw, fn.where, "%d direct HashMap write(s)" % len(raw))

        # (d) + (e) expressions
        impls = sorted(F.impls.get(EXPR_EXECUTE, ()))
        ctx.floor("R09.3", "Expression::execute implementations", len(impls), 10)
        n_w = 0
        n_deep = 0
        for t in impls:
            fn = F.fns[t]
            for i, (c, tgt) in enumerate(write_sites(fn)):
                n_w += 1
                tb = local_of(tgt)
                ok = tb is not None and readonly_guard(fn, c, tb)
                ctx.ob("R09.3", site_key(fn, "write through a DataArc under !is_readonly()", i), ok, line_of(c),
                       "writes into %s; guarded by !%s.is_readonly(): %s" % (describe(tgt), describe(tgt), ok))
            # deep read-only
            bad, good = [], []
            for okc in fn.walk():
                if not is_ctor(okc, "Ok") or not okc["a"] or in_closure(fn, okc) is not None:
                    continue
                container = None
                reached = False
                last_ok_local = None
                first_local = None
                result_expr = okc["a"][0]
                inherit_from = None
                rc = peel(result_expr, NO_T)
                if rc.get("k") == "call" and len(rc.get("a", [])) == 2 and _is_inheriting_helper(F, rc.get("p")):
                    # Ok(helper(&container, member)) where helper copies the container's read-only flag onto the member it returns
                    inherit_from = local_of(rc["a"][0])
                    result_expr = rc["a"][1]
                for kind, x, info in provenance(fn, result_expr):
                    if kind == "local":
                        if first_local is None:
                            first_local = x
                        if info and any(last_seg(str(d[0])) == "Ok" for d in (info.get("destruct") or ())):
                            last_ok_local = x
                    elif x.get("k") == "mcall" and x.get("p") and path_matches(x["p"], EXPR_EXECUTE):
                        reached = True
                        break
                if not reached or last_ok_local is None:
                    continue
                container = last_ok_local
                # the container itself handed on unchanged keeps its own flag
                if local_of(okc["a"][0]) == container:
                    continue
                fine = readonly_guard(fn, okc, container) or (inherit_from is not None and inherit_from == container)
                if not fine and first_local is not None and first_local != container:
                    for s in fn.walk():
                        if s.get("k") == "mcall" and s["m"] == "set_readonly" and local_of(s["r"], NO_T) == first_local and \
                                (depends_on(fn, s["a"][0], {container}) or any(isinstance(a, dict) and a.get("k") == "mcall" and a["m"] == "is_readonly" and
                                                                              local_of(a["r"]) == container and pol is True for a, pol in hirq.guard_atoms(fn, s))):
                            fine = True
                if not fine and first_local is not None and first_local != container:
                    # `r.flags |= container.flags & READONLY`
                    for s in fn.walk():
                        if s.get("k") in ("assign", "assignop") and is_field_of(s["l"], "flags") and \
                                local_of(hirq.field_of(s["l"], NO_T)[0], NO_T) == first_local and depends_on(fn, s["r"], {container}):
                            fine = True
                (good if fine else bad).append(okc)
            if good or bad:
                n_deep += 1
                ctx.ob("R09.3", site_key(fn, "member of a read-only container is not handed out writable"), not bad, fn.where,
                       "%d of %d result(s) taken out of the sub-expression's value ignore its read-only flag: %s" % (
                           len(bad), len(good) + len(bad), ", ".join(line_of(x) for x in bad)))
        ctx.floor("R09.3", "writes through a DataArc in expressions", n_w, 2)
        ctx.floor("R09.3", "member / index access expressions", n_deep, 2)
    ctx.guard("R09.3", r3)

    # ------------------------------------------------------------------------------ R09.4
    ctx.rule("R09.4", "Fsm::interpret: initialize_read_only x2, add_functions, set_ioprocessors and initialize_data_models_recursive(pseudo_root, "
                      "binding == Early) each dominate executeGlobalScriptElement, which dominates enterStates, which dominates mainEventLoop; "
                      "initialize_data_models_recursive initialises its state unconditionally and recurses over getChildStates(state) with the same "
                      "flag; the default initializeDataModel passes the state's data and the flag to set_from_state_data, whose implementations "
                      "create every variable on both values of the flag")

    def r4():
        it = F.fn(FSMP + "interpret")

        def one(suffix, what=None):
            cs = it.calls(suffix)
            ctx.ob("R09.4", site_key(it, "calls " + (what or last_seg(suffix))), len(cs) >= 1, it.where, "%d call(s)" % len(cs))
            return cs
        pre = one(DM + "initialize_read_only") + one(DM + "add_functions") + one(DM + "set_ioprocessors") + one(FSMP + "initialize_data_models_recursive")
        script = one(FSMP + "executeGlobalScriptElement")
        enter = one(FSMP + "enterStates")
        loop = one(FSMP + "mainEventLoop")
        if script and enter and loop:
            ords = {}
            for p in pre:
                nm = last_seg(p["p"])
                i = ords.get(nm, 0)
                ords[nm] = i + 1
                ctx.ob("R09.4", site_key(it, "%s before the global script" % nm, i), dominates_hir(it, p, script[0]), line_of(p),
                       "%s dominates executeGlobalScriptElement" % nm)
            ctx.ob("R09.4", site_key(it, "global script before enterStates"), dominates_hir(it, script[0], enter[0]), line_of(script[0]), "dominance in the MIR CFG")
            ctx.ob("R09.4", site_key(it, "enterStates before mainEventLoop"), dominates_hir(it, enter[0], loop[0]), line_of(enter[0]), "dominance in the MIR CFG")
        for c in it.calls(FSMP + "initialize_data_models_recursive"):
            root = is_field_of(c["a"][1], "pseudo_root")
            e = peel(c["a"][2], NO_T)
            early = e.get("k") == "bin" and e["op"] == "Eq" and {True} == {True for x in (e["l"], e["r"]) if is_field_of(x, "binding")} and \
                any((hirq.def_path(x) or "").endswith("BindingType::Early") for x in (e["l"], e["r"]))
            ctx.ob("R09.4", site_key(it, "initialize_data_models_recursive(pseudo_root, binding == Early)"), root and early, line_of(c),
                   "state argument %s; flag %s" % (describe(c["a"][1]), describe(c["a"][2])))
        rec = F.fn(FSMP + "initialize_data_models_recursive")
        ps, pf = rec.params[2]["b"], rec.params[3]["b"]
        ini = rec.calls(DM + "initializeDataModel")
        ok = len(ini) == 1 and local_of(ini[0]["a"][1], NO_T) == ps and local_of(ini[0]["a"][2], NO_T) == pf and not hirq.guards(rec, ini[0]) and \
            not hirq.enclosing_loops(rec, ini[0])
        ctx.ob("R09.4", site_key(rec, "initializeDataModel(state, flag) unconditionally"), ok, rec.where, "%d call(s)" % len(ini))
        rc = rec.calls(FSMP + "initialize_data_models_recursive")
        okr = False
        if len(rc) == 1:
            lp = hirq.loop_var_of(rec, rc[0]["a"][1])
            if lp is not None:
                base, chain = method_chain(rec, lp["iter"])
                gcs = [n for m, n in chain if m == "getChildStates"]
                okr = bool(gcs) and local_of(gcs[0]["a"][0], NO_T) == ps and local_of(rc[0]["a"][2], NO_T) == pf and \
                    not [g for g in hirq.guards(rec, rc[0])]
        ctx.ob("R09.4", site_key(rec, "recurses over getChildStates(state) with the same flag"), okr, rec.where, "%d recursive call(s)" % len(rc))
        d = F.fn(DM + "initializeDataModel")
        cs = d.calls(DM + "set_from_state_data")
        st_b, fl_b = d.params[2]["b"], d.params[3]["b"]
        first = [c for c in cs if is_field_of(c["a"][0], "data") and depends_on(d, c["a"][0], {st_b}) and local_of(c["a"][1], NO_T) == fl_b and not hirq.guards(d, c)]
        ctx.ob("R09.4", site_key(d, "set_from_state_data(state.data, flag) unconditionally"), len(first) == 1, d.where, "%d matching call(s) of %d" % (len(first), len(cs)))
        n = 0
        for t in sorted(F.impls.get(DM + "set_from_state_data", ())):
            if t.startswith("<" + NULL_DM + " as "):
                continue
            fn = F.fns[t]
            n += 1
            pd, pfl = fn.params[1]["b"], fn.params[2]["b"]
            loops = [lp for lp in fn.nodes("for") if depends_on(fn, lp["iter"], {pd}) and len(hirq.enclosing_loops(fn, lp)) == 0]
            ctx.ob("R09.4", site_key(fn, "loops over the declared data"), len(loops) == 1, fn.where, "%d loop(s) over the data parameter" % len(loops))
            for lp in loops:
                lvars = set(pattern_bindings(lp["pat"]))
                iff = [x for x in hirq.walk(lp["body"]) if x.get("k") == "if" and local_of(x["c"], NO_T) == pfl and "e" in x]
                ok = False
                if len(iff) == 1:
                    def creates(root):
                        return [c for c in hirq.walk(root) if c.get("k") in ("call", "mcall") and c.get("p") and c["a"] and
                                last_seg(c["p"]) in ("set", "set_arc", "set_undefined", "set_undefined_arc", "set_js_property") and depends_on(fn, c["a"][0], lvars)]
                    ok = bool(creates(iff[0]["t"])) and bool(creates(iff[0]["e"]))
                ctx.ob("R09.4", site_key(fn, "variable created whether or not its value is bound now"), ok, line_of(lp),
                       "`if set_data {..} else {..}`: both branches create the variable: %s" % ok)
        ctx.floor("R09.4", "set_from_state_data implementations", n, 1)
    ctx.guard("R09.4", r4)

    # ------------------------------------------------------------------------------ R09.5
    ctx.rule("R09.5", "Fsm::enterStates: the only initializeDataModel call passes `true`, is reached exactly under `binding == Late && "
                      "state.isFirstEntry` of the state being entered, `isFirstEntry = false` is assigned under the same condition, the call "
                      "precedes the executeContent calls of the same loop iteration, and `binding` is Fsm.binding")

    def r5():
        en = F.fn(FSMP + "enterStates")
        cs = en.calls(DM + "initializeDataModel")
        ctx.exact("R09.5", "initializeDataModel calls in enterStates", len(cs), 1)
        for c in cs:
            loops = hirq.enclosing_loops(en, c)
            main = loops[-1] if loops else None
            lvars = set(pattern_bindings(main["pat"])) if main is not None and main.get("k") == "for" else set()
            atoms_ = list(hirq.guard_atoms(en, c))
            sb = local_of(c["a"][1], NO_T)
            state_ok = depends_on(en, c["a"][1], lvars) if lvars else False
            flag_asg = []
            if sb is not None and sb not in lvars:
                info = en.bindings().get(sb) or {}
                asg = en.assignments_to(sb)
                init0 = info.get("init") is not None and const_eval(info["init"]) == 0
                if init0 and len(asg) == 1 and depends_on(en, asg[0]["r"], lvars):
                    state_ok = True
                    flag_asg = asg
                    # the call itself must be under `flag != 0`
                    nz = any(isinstance(a, dict) and a.get("k") == "bin" and ((a["op"] == "Ne" and pol is True) or (a["op"] == "Eq" and pol is False) or (a["op"] == "Gt" and pol is True))
                             and local_of(a["l"], NO_T) == sb and const_eval(a["r"]) == 0 for a, pol in atoms_)
                    state_ok = state_ok and nz
                    atoms_ = [(a, p) for a, p in atoms_ if not (isinstance(a, dict) and a.get("k") == "bin" and local_of(a.get("l", {}), NO_T) == sb)]
                    atoms_ += list(hirq.guard_atoms(en, asg[0]))
                else:
                    state_ok = False
            ctx.ob("R09.5", site_key(en, "initialises the state being entered with set_data = true"), state_ok and const_eval(c["a"][2]) is True, line_of(c),
                   "state argument %s (loop state: %s), flag %s" % (describe(c["a"][1]), state_ok, describe(c["a"][2])))
            # condition
            late = first = False
            extra = []
            fe_base = None
            for a, pol in atoms_:
                if not isinstance(a, dict) or a.get("k") is None:
                    extra.append("match arm")
                    continue
                if a.get("k") == "bin" and a["op"] == "Eq" and pol is True and any((hirq.def_path(x) or "").endswith("BindingType::Late") for x in (a["l"], a["r"])):
                    other = a["l"] if (hirq.def_path(a["r"]) or "").endswith("BindingType::Late") else a["r"]
                    o = hirq.origin(en, other)
                    src = o.get("expr") if o.get("from") == "expr" else other
                    late = is_field_of(src, "binding") and owner_in_type(peel(src, NO_T).get("bty", ""), "Fsm")
                elif pol is True and is_field_of(a, "isFirstEntry"):
                    first = True
                    fe_base = hirq.field_of(a, NO_T)[0]
                else:
                    extra.append("%s:%s" % (describe(a), pol))
            fe_state = fe_base is not None and lvars and depends_on(en, fe_base, lvars)
            ctx.ob("R09.5", site_key(en, "exactly under binding == Late && isFirstEntry of that state"), late and first and bool(fe_state) and not extra, line_of(c),
                   "binding == Late (Fsm.binding): %s; isFirstEntry of the loop state: %s; other conditions: %s" % (late, bool(fe_state), extra))
            # isFirstEntry = false under the same condition
            clr = [a for a in en.nodes("assign") if is_field_of(a["l"], "isFirstEntry")]
            anchor = flag_asg[0] if flag_asg else c
            same = [a for a in clr if const_eval(a["r"]) is False and
                    [id(g["node"]) for g in hirq.guards(en, a)] == [id(g["node"]) for g in hirq.guards(en, anchor)] and
                    [g["pol"] for g in hirq.guards(en, a)] == [g["pol"] for g in hirq.guards(en, anchor)]]
            ctx.ob("R09.5", site_key(en, "isFirstEntry cleared on that path"), len(same) == 1 and len(clr) == 1, line_of(c),
                   "%d assignment(s) to isFirstEntry, %d `= false` under the same condition" % (len(clr), len(same)))
            # order within the iteration
            idx = hirq.order_index(en)
            ex = [x for x in en.calls(FSMP + "executeContent") if main is not None and any(y is main for y in en.ancestors(x))]
            before = bool(ex) and all(idx[id(c)] < idx[id(x)] for x in ex) and (main is not None) and \
                not [l for l in hirq.enclosing_loops(en, c) if l is not main]
            ctx.ob("R09.5", site_key(en, "before the onentry content of the same iteration"), before, line_of(c),
                   "%d executeContent call(s) in the state loop, all after the initialisation: %s" % (len(ex), before))
        # who else clears / sets isFirstEntry
        for fn, n, kind, meth, par in mutations_of_field(F, "State", "isFirstEntry"):
            ok = fn.path == FSMP + "enterStates" or not fn.path.startswith("fsm::Fsm::") or fn.path.endswith("::new")
            ctx.ob("R09.5", "%s|State.isFirstEntry.%s" % (fn.path, meth or kind), ok, line_of(n), "%s writes State.isFirstEntry" % fn.path)
    ctx.guard("R09.5", r5)

    # ------------------------------------------------------------------------------------------ R09.6
    ctx.rule("R09.6", "In() in <onexit> content sees the configuration of that moment: Fsm::exitStates removes each state from "
                      "GlobalData.configuration in the very loop iteration that runs the state's onexit content, after that content and "
                      "unconditionally (W3C: for s in statesToExit: run onexit; cancelInvoke; configuration.delete(s)) - not in a batch "
                      "afterwards")

    def r6():
        ex = F.fn(FSMP + "exitStates")
        dels = [par for fn, n, kind, meth, par in mutations_of_field(F, "GlobalData", "configuration")
                if (fn.path == ex.path or fn.parent_path == ex.path) and meth == "delete"]
        ctx.exact("R09.6", "configuration.delete sites in exitStates", len(dels), 1)
        execs = ex.calls(FSMP + "executeContent")
        ctx.floor("R09.6", "executeContent calls in exitStates", len(execs), 1)
        idx6 = hirq.order_index(ex)
        for d in dels:
            node = next((x for x in ex.walk() if x.get("k") == "mcall" and x.get("m") == "delete" and x.get("s") == d.get("s")), d)
            loops = hirq.enclosing_loops(ex, node)
            outer = loops[-1] if loops else None
            lv = [b for b, info in ex.bindings().items() if info.get("from") == "for" and info.get("node") is outer] if outer is not None else []
            arg_ok = len(loops) == 1 and local_of(hirq.peel(node["a"][0]), NO_T) in lv
            same_iter = bool(execs) and all(hirq.enclosing_loops(ex, c)[-1:] == [outer] and idx6[id(c)] < idx6[id(node)] for c in execs)
            gts = [g for g in hirq.guards(ex, node) if outer is not None and any(a is outer for a in ex.ancestors(g["node"]))]
            ctx.ob("R09.6", site_key(ex, "state leaves the configuration in its own exit iteration, after its onexit content"),
                   arg_ok and same_iter and not gts, line_of(node),
                   "delete(loop state) directly in the exit loop: %s; onexit content runs earlier in the same loop: %s; conditions inside the loop: %d" % (
                       arg_ok, same_iter, len(gts)))
    ctx.guard("R09.6", r6)


def table_lookup(x):
    """(Owner, field) if x is `<owner>.<field>.get(..)`."""
    if x.get("k") == "mcall" and x["m"] == "get":
        f = peel(x["r"], NO_T)
        if f.get("k") == "field":
            return (owner_of(f.get("bty")), f["n"])
    return None


def peel_js(e):
    """boa `js_string!(x)` expands around x: return the first local / field path inside."""
    for n in hirq.walk(e):
        if n.get("k") == "path" and n["r"].get("k") == "local":
            return n
    return e


def pattern_bindings(p):
    out = []
    if not isinstance(p, dict):
        return out
    k = p.get("k")
    if k == "bind":
        out.append(p["b"])
        if "sub" in p:
            out.extend(pattern_bindings(p["sub"]))
    elif k in ("pts", "ptup", "por", "pslice"):
        for s in p["a"]:
            out.extend(pattern_bindings(s))
    elif k == "pstruct":
        for _, s in p["f"]:
            out.extend(pattern_bindings(s))
    elif "e" in p and isinstance(p["e"], dict):
        out.extend(pattern_bindings(p["e"]))
    return out


_INHERIT_CACHE = {}


def _is_inheriting_helper(F, path):
    """fn h(container, member) -> DataArc that returns (a clone of) `member` and calls set_readonly(true) on it under
    `container.is_readonly()`."""
    if not path:
        return False
    if path in _INHERIT_CACHE:
        return _INHERIT_CACHE[path]
    _INHERIT_CACHE[path] = False
    fn = F.fns.get(path)
    if fn is None or fn.hir is None or len(fn.params) != 2:
        return False
    cb, mb = fn.params[0].get("b"), fn.params[1].get("b")
    sets = [s for s in fn.walk() if s.get("k") == "mcall" and s["m"] == "set_readonly" and s["a"] and const_eval(s["a"][0]) is True]
    ok = False
    for s in sets:
        tgt = hirq.origin(fn, s["r"])
        from_member = local_of(s["r"]) == mb or (tgt.get("from") == "expr" and hirq.mentions_local(tgt["expr"], mb)) or \
            (tgt.get("from") == "param" and tgt.get("index") == 1)
        guarded = any(pol is True and isinstance(a, dict) and a.get("k") == "mcall" and a["m"] == "is_readonly" and local_of(a["r"]) == cb
                      for a, pol in hirq.guard_atoms(fn, s))
        if from_member and guarded:
            ok = True
    # the result is the member (clone), never the container
    tail = fn.hir.get("tail") if fn.hir.get("k") == "block" else None
    if tail is not None:
        o = hirq.origin(fn, tail)
        if o.get("from") == "param" and o.get("index") != 1:
            ok = False
    _INHERIT_CACHE[path] = ok
    return ok
