"""C11 — expression parsing and evaluation always terminate with a value or an error.

Decided: (R11.1) every panic-capable edge reachable from the rfsm-expression entry points is an automatically recognised
harmless class, structurally discharged, audited with a reason, or a finding; (R11.2) only the three token kinds the
folding code understands are pushed as stack tokens; (R11.3) no second value lock is taken while one is held without a
ptr_eq guard; (R11.4) recursion cycles are listed (none is depth-bounded), the lexer's un-read is done only after a real
read, every loop of lexer and parser contains a consuming call.
Not decided: termination in general; time bounds.
"""
import json
import os
from collections import defaultdict

from common import *
import hirq
import extract
import panics
from locks import LockAnalysis
import C17


def c11_roots(cg):
    roots = [n for n in cg.local if ("expression_engine::parser::ExpressionParser::" in n and n.split("::")[-1] in ("parse", "execute", "execute_str", "parse_and_execute"))]
    roots += [n for n in cg.local if n.startswith("<expression_engine::expressions::") and n.endswith("::execute")]
    roots += [n for n in cg.local if n.startswith("<datamodel::expression_engine::RFsmExpressionDatamodel as datamodel::Datamodel>::")]
    roots += [n for n in cg.local if n.startswith("datamodel::operation_")]
    roots += [n for n in cg.local if n.startswith("<datamodel::expression_engine::") and n.endswith("Action as actions::Action>::execute")]
    return roots


def c11_stop(p):
    # the expression engine proper: tracing, the other data model, the XML reader, session start, I/O processors and the
    # executable-content interpreters (reached through executeContent) are other properties' regions
    return (p.startswith("tracer::") or "ecma_script" in p or p.startswith("scxml_reader::") or p.startswith("fsm::start_fsm")
            or p.startswith("event_io_processor::") or p.startswith("fsm_executor::") or p.startswith("<executable_content::"))


def audit_edges(ctx, rule, F, edges, table_name, region_name):
    """Shared K5 driver: classify every edge; unlisted ones are violations."""
    table = C17.load_table(table_name)
    audited = {e["key"]: e for e in table.get("entries", [])}
    counts = defaultdict(int)
    used = set()
    for e in edges:
        fn = F.fns[e.fn]
        if e.cls:
            counts[e.cls] += 1
            ctx.ob(rule, e.key, True, e.where, "%s: %s" % (e.cls, e.why), kind="auto")
            continue
        if e.kind == "assert" and e.detail == "overflow:Add" and _increment_by_one(fn, e):
            counts["counter-increment"] += 1
            ctx.ob(rule, e.key, True, e.where, "counter-increment: `x += 1` on an index/counter over in-memory data cannot wrap", kind="auto")
            continue
        d = panics.len_guard_discharge(fn, e)
        if d:
            counts["len-guard"] += 1
            ctx.ob(rule, e.key, True, e.where, "len-guard: " + d)
            continue
        a = audited.get(e.key)
        if a is not None:
            used.add(e.key)
            g = panics.guard_count(fn, e.block) + getattr(e, "extra_guards", 0)
            if g < a.get("min_guards", 0):
                counts["open"] += 1
                ctx.ob(rule, e.key, False, e.where, "audited edge lost a guard: %d controlling branch(es) now, %d when audited (%s)" % (
                    g, a["min_guards"], a["reason"]))
                continue
            counts["audited"] += 1
            ctx.ob(rule, e.key, True, e.where, "audited invariant (%d controlling branches, >= %d): %s" % (g, a.get("min_guards", 0), a["reason"]), kind="audited")
            continue
        counts["open"] += 1
        ctx.ob(rule, e.key, False, e.where, "panic-capable edge (%s %s) reachable from the %s entry points is neither a recognised harmless class "
               "nor audited" % (e.kind, e.detail, region_name))
    stale = sorted(set(audited) - used - {e.key for e in edges})
    ctx.extra.setdefault("audit_stale_entries", {})[table_name] = stale
    ctx.extra.setdefault("edge_classes", {})[rule] = dict(counts)
    return counts


def _increment_by_one(fn, e):
    blk = fn.blocks[e.block]
    cond = e.term["cond"]
    cl = cond.get("mv", cond.get("cp"))
    # the checked add: (_t) = AddWithOverflow(x, const 1); assert(!_t.1)
    for st in blk["st"]:
        if st["k"] == "assign" and st["rv"]["k"] == "bin" and "Add" in st["rv"]["op"]:
            ops = st["rv"]["ops"]
            if any(panics._const_of(o) == 1 for o in ops):
                tys = [o.get("ty", "") for o in ops if "c" in o]
                if any(t in ("usize", "u32", "u64", "i32") for t in tys):
                    return True
    return False


def run(ctx):
    F = ctx.facts
    cg = F.callgraph
    ctx.explanation = ("C11: diverging-edge audit of the rfsm-expression region (lexer, parser, expression tree, rfsm data model, predefined "
                       "actions, operation_*), stack-token kinds, same-value lock nesting, recursion cycles, lexer un-read discipline")
    ctx.assumptions += [
        "std operations panic only as documented (table STD_PANICKING in engine/py/panics.py); dependency crates are not analysed",
        "unwrap of a LockResult panics only after another panic (poisoning), which this very rule excludes for the region",
    ]
    seen = panics.region(F, c11_roots(cg), stop=c11_stop)
    bodies, edges = panics.collect(F, seen.keys())
    ctx.extra["region_functions"] = len(bodies)
    ctx.extra["panic_capable_edges"] = len(edges)
    ctx.floor("R11.1", "functions in the rfsm-expression region", len(bodies), 120)
    ctx.floor("R11.1", "panic-capable edges examined", len(edges), 60)

    # ---------------------------------------------------------------- R11.1
    ctx.rule("R11.1", "every panic-capable edge (diverging call, MIR Assert, std operation that panics on some input) reachable from the "
                      "rfsm-expression entry points is a recognised harmless class (lock poison, counter increment), structurally discharged "
                      "(constant index under a dominating length test), audited with a reason (tables/panic_audit_C11.json) or a finding")
    ctx.guard("R11.1", lambda: audit_edges(ctx, "R11.1", F, edges, "panic_audit_C11.json", "rfsm-expression"))

    # ---------------------------------------------------------------- R11.2
    ctx.rule("R11.2", "only Identifier, Operator and Separator('.') tokens are pushed onto the parser stack as SToken "
                      "(stack_to_expression panics with 'Internal error' on any other kind)")

    def r2():
        n = 0
        for fn in F.fn_list:
            if fn.hir is None or "expression_engine::parser" not in fn.path:
                continue
            for c in fn.walk():
                # ExpressionParserItem::SToken(<expr>)
                if c.get("k") == "call" and c.get("p") and c["p"].endswith("ExpressionParserItem::SToken"):
                    n += 1
                    a = peel(c["a"][0], NO_T)
                    ok, why = False, describe(a)
                    if a.get("k") == "call" and a.get("p") and a["p"].endswith("Token::Separator"):
                        ok = const_eval(a["a"][0]) == "."
                        why = "Token::Separator(%r)" % const_eval(a["a"][0])
                    else:
                        # a token variable bound in a match arm on Identifier / Operator
                        o = hirq.origin(fn, a)
                        arms = []
                        b = local_of(a)
                        if b is not None:
                            # every enclosing match arm whose pattern constrains this token (directly or its scrutinee)
                            for g in hirq.guards(fn, c):
                                if g["how"] == "arm" and local_of(g["cond"]) == b:
                                    arms.append(g)
                        kinds = set()
                        for g in arms:
                            kinds |= _token_kinds(g["pat"])
                        ok = bool(kinds) and kinds <= {"Identifier", "Operator"}
                        why = "token matched as %s" % sorted(kinds)
                    ctx.ob("R11.2", site_key(fn, "SToken push", n), ok, line_of(c), why)
        ctx.floor("R11.2", "SToken construction sites", n, 5)
    ctx.guard("R11.2", r2)

    # ---------------------------------------------------------------- R11.3
    ctx.rule("R11.3", "no value lock (Mutex<Data>) is taken while another is held, unless the very two arcs were found distinct by Arc::ptr_eq, "
                      "the operands are the same arc with one side cloned, or the nesting is audited structural descent (tables/lock_nesting.json)")

    def r3():
        L = LockAnalysis(F)
        audited = {(e["class"], e["holder"], e["via"]): e for e in C17.load_table("lock_nesting.json").get("entries", [])}
        counts = defaultdict(int)
        seen_sites = set()
        in_region = {cg.body_of.get(n, n) for n in seen}
        for (x, c, m), ws in sorted(L.edges.items()):
            if x != "V" or c != "V" or m != "block":
                continue
            for w in ws:
                if w["fn"] not in in_region:
                    continue
                fn = F.fns.get(w["fn"])
                via = w["chain"][1].split(" @")[0] if len(w["chain"]) > 1 else "direct"
                if (w["fn"], via, w["where"]) in seen_sites:
                    continue
                seen_sites.add((w["fn"], via, w["where"]))
                counts[(w["fn"], via)] += 1
                key = "nest V|%s|via %s|%d" % (w["fn"], via, counts[(w["fn"], via)])
                immediate = w.get("direct") or via == "datamodel::DataArc::lock"
                if fn is not None and immediate and C17.ptr_eq_guarded(fn, w.get("block")):
                    ctx.ob("R11.3", key, True, w["where"], "dominated by the false branch of Arc::ptr_eq on the two arcs")
                elif fn is not None and not immediate and C17.ptr_eq_guarded(fn, w.get("block"), branch="true"):
                    ctx.ob("R11.3", key, True, w["where"], "same arc on both sides (true branch of Arc::ptr_eq), one side cloned")
                elif (x, w["fn"], via) in audited:
                    a = audited[(x, w["fn"], via)]
                    ctx.ob("R11.3", key, True, w["where"], "audited (%s): %s" % (a["class_of_reason"], a["reason"]), kind="audited")
                else:
                    ctx.ob("R11.3", key, False, w["where"], "a second value lock is taken while one is held: " + " -> ".join(w["chain"]))
        ctx.floor("R11.3", "value-lock nesting sites in the region", sum(counts.values()), 5)
    ctx.guard("R11.3", r3)

    # ---------------------------------------------------------------- R11.4
    ctx.rule("R11.4", "recursion cycles reachable from the entry points must carry a depth bound (tables/recursion_bounds.json; none today); "
                      "ExpressionLexer::push_back() is called only after a character was really consumed; every loop of lexer and parser "
                      "contains a consuming call")

    def r4():
        bounds = {e["scc"]: e for e in C17.load_table("recursion_bounds.json").get("entries", [])}
        sccs = _sccs({n: [e["callee"] for e in cg.callees(n) if e["callee"] in seen] for n in seen})
        rec = []
        for comp in sccs:
            if len(comp) == 1:
                n = next(iter(comp))
                if not any(e["callee"] == n for e in cg.callees(n)):
                    continue
            # a cycle is named after its public / trait-method members: private helpers on the cycle (which a maintainer may
            # inline or extract at will) do not change the name a recorded finding is matched by
            def _is_api(n):
                f = cg.fn_of(n)
                return f is None or f.vis == "pub" or bool(f.trait)
            api = sorted({_method_name(cg.body_of.get(n, n)) for n in comp if _is_api(n)})
            names = api or sorted({_method_name(cg.body_of.get(n, n)) for n in comp})
            rec.append((",".join(names), comp))
        ctx.floor("R11.4", "recursion cycles found in the region", len(rec), 4)
        for name, comp in sorted(rec, key=lambda x: x[0]):
            key = "recursion|%s" % name
            sample = sorted(comp)[0]
            fn = cg.fn_of(sample)
            if name in bounds:
                ctx.ob("R11.4", key, True, fn.where if fn else "", "bounded: " + bounds[name]["reason"], kind="audited")
            else:
                ctx.ob("R11.4", key, False, fn.where if fn else "", "unbounded recursion over input-sized structure through %d function(s), e.g. %s" % (len(comp), sample))
        # un-read discipline of the lexer
        n = 0
        for fn in F.fn_list:
            if fn.hir is None or "expression_engine::lexer::ExpressionLexer" not in fn.path:
                continue
            for c in fn.calls("ExpressionLexer::push_back"):
                n += 1
                ats = hirq.guard_atoms(fn, c)
                ok = False
                why = []
                for a, pol in ats:
                    if pol is None:
                        # match arm on the state only says nothing about the character
                        continue
                    if a.get("k") == "bin" and a["op"] in ("Eq", "Ne"):
                        lit = const_eval(a["r"]) if const_eval(a["r"]) is not None else const_eval(a["l"])
                        if isinstance(lit, str) and len(lit) == 1:
                            if a["op"] == "Eq" and pol and lit != "\0":
                                ok = True
                                why.append("char == %r" % lit)
                            if a["op"] == "Ne" and pol and lit == "\0":
                                ok = True
                                why.append("char != NUL")
                            if a["op"] == "Eq" and pol is False and lit == "\0":
                                ok = True
                                why.append("!(char == NUL)")
                    if a.get("k") == "bin" and a["op"] == "Or" and pol:
                        # c == 'E' || c == 'e'
                        lits = [const_eval(x["r"]) for x in (a["l"], a["r"]) if x.get("k") == "bin" and x["op"] == "Eq"]
                        if len(lits) == 2 and all(isinstance(l, str) and l != "\0" for l in lits):
                            ok = True
                            why.append("char in %r" % lits)
                    if pol and a.get("k") in ("call", "mcall") and a.get("p") and a["p"].split("::")[-1] in ("is_digit", "is_whitespace"):
                        ok = True
                        why.append(a["p"].split("::")[-1])
                ctx.ob("R11.4", site_key(fn, "push_back after a real read", n), ok, line_of(c),
                       "un-read guarded by %s" % why if ok else "push_back() not guarded by a test that the character read was not the end-of-input marker: "
                       "at end of input next_char() returns NUL without advancing, so the un-read steps back over the previous character")
        ctx.floor("R11.4", "push_back call sites", n, 8)
        # loops contain a consuming call
        CONSUMERS = ("next_char", "next_token", "next_token_with_stop", "Iterator::next", "Vec::remove", "Vec::pop", "read_number", "read_string",
                     "read_operator", "parse_sub_expression", "fold_stack_at", "stack_to_expression", "Chars::next", "String::pop", "eat_space")
        nl = 0
        for fn in F.fn_list:
            if not ("expression_engine::lexer::" in fn.path or "expression_engine::parser::" in fn.path) or "::tests::" in fn.path:
                continue
            cfg = fn.cfg
            for comp in _sccs({b: cfg.succ[b] for b in range(cfg.n) if b in cfg.reach}):
                if len(comp) == 1 and next(iter(comp)) not in cfg.succ[next(iter(comp))]:
                    continue
                nl += 1
                cons = []
                incr = False
                for b in comp:
                    t = fn.blocks[b]["t"]
                    if t["k"] == "call" and any(path_matches(t["f"], c) or path_matches(t.get("raw", ""), c) for c in CONSUMERS):
                        cons.append(t["f"].split("::")[-1])
                    if t["k"] == "assert" and t["msg"].startswith("overflow:Add"):
                        incr = True
                head = min(comp)
                s = fn.blocks[head]["t"].get("s") or fn.span
                ctx.ob("R11.4", site_key(fn, "loop consumes input", nl), bool(cons) or incr, "%s:%d" % (s[6], s[3]),
                       "loop contains %s" % (sorted(set(cons)) or "an index increment") if (cons or incr) else "loop without a consuming call or index increment")
        ctx.floor("R11.4", "loops in lexer and parser", nl, 8)
    ctx.guard("R11.4", r4)


def _token_kinds(pat):
    """Token variant names a pattern (possibly nested SToken(...) / or-pattern) admits."""
    out = set()
    k = pat.get("k")
    if k in ("pts", "pstruct"):
        p = pat["r"].get("p", "")
        if "lexer::Token::" in p:
            out.add(p.split("::")[-1])
        subs = pat.get("a") or [f[1] for f in pat.get("f", [])]
        for s in subs:
            out |= _token_kinds(s)
    elif k == "por":
        for s in pat["a"]:
            out |= _token_kinds(s)
    elif k == "ppath":
        p = pat["r"].get("p", "")
        if "lexer::Token::" in p:
            out.add(p.split("::")[-1])
    elif k == "bind" and "sub" in pat:
        out |= _token_kinds(pat["sub"])
    return out


def _method_name(path):
    p = path.split("::{closure")[0]
    return p.split("::")[-1]


def _sccs(graph):
    """Tarjan (iterative); returns list of sets."""
    index = {}
    low = {}
    onstack = set()
    stack = []
    out = []
    idx = [0]
    for root in graph:
        if root in index:
            continue
        work = [(root, iter(graph.get(root, ())))]
        index[root] = low[root] = idx[0]
        idx[0] += 1
        stack.append(root)
        onstack.add(root)
        while work:
            v, it = work[-1]
            adv = False
            for w in it:
                if w not in graph:
                    continue
                if w not in index:
                    index[w] = low[w] = idx[0]
                    idx[0] += 1
                    stack.append(w)
                    onstack.add(w)
                    work.append((w, iter(graph.get(w, ()))))
                    adv = True
                    break
                elif w in onstack:
                    low[v] = min(low[v], index[w])
            if adv:
                continue
            work.pop()
            if work:
                u = work[-1][0]
                low[u] = min(low[u], low[v])
            if low[v] == index[v]:
                comp = set()
                while True:
                    w = stack.pop()
                    onstack.discard(w)
                    comp.add(w)
                    if w == v:
                        break
                out.append(comp)
    return out
