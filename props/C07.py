"""C07 — final states raise done events and a top-level final (or the cancel event) ends the session cleanly.

Decided: structural necessary conditions of the final-state branch of enterStates (who is named in
done.state.*, where the donedata comes from, the parallel completion test), the W3C vocabulary of
isInFinalState / exitInterpreter plus the order and guards inside exitInterpreter's exit loop, the
control flow of mainEventLoop around `running` (no work after it is cleared, exitInterpreter on every
return path), and the construction and addressing of done.invoke.
Not decided: counts over event histories ("exactly once" per entering).
"""
from common import *
import hirq
import speccov
import bflow
from bflow import term, show, guard_terms, under, call_named, call_args, same_elements, mentions, mentions_where

ALG = "fsm::Fsm::"
RUNNING = ".running#fsm::GlobalData"
S_ENT = ("elem", ("out", "computeEntrySet", 2))          # the state being entered in enterStates' loop
PARENT = ("field", "parent", S_ENT)
GRAND = ("field", "parent", PARENT)


def _owner(fn):
    return fn.path if fn.kind != "Closure" else fn.parent_path


def _is_final_call(t, who):
    return (call_named(t, "isFinalStateId") or call_named(t, "isFinalState")) and call_args(t) == (who,)


def run(ctx):
    F = ctx.facts
    ctx.explanation = ("C07: final-state branch of enterStates (names, donedata provenance, parallel completion test, one enqueue each), "
                       "W3C vocabulary of isInFinalState/exitInterpreter and order/guards of the exit loop, MIR control flow of mainEventLoop "
                       "around GlobalData.running, construction and addressing of done.invoke in returnDoneEvent")
    ctx.assumptions += [
        "the W3C algorithm raises each done event once per entering when its steps are implemented as written",
        "rustc's HIR/MIR and type resolution for the analysed configuration",
        "Datamodel::send(type, target, event) hands the event to the I/O processor registered for `type` (C15)",
    ]

    # ---------------------------------------------------------------- R07.1 final branch of enterStates
    ctx.rule("R07.1", "enterStates, for an entered final state s: s.parent is the <scxml> root => running = false; else enqueue "
                      "done.state.<name of s.parent> carrying evaluate_params/evaluate_content of s.donedata, and iff "
                      "isParallelState(grandparent) && getChildStates(grandparent).every(isInFinalState) enqueue done.state.<name of grandparent>; "
                      "one enqueue site each, inside no loop but the entry loop; Event::new(prefix, id, params, content) builds name = prefix+id")

    def r1():
        en = F.fn(ALG + "enterStates")
        fin = lambda t, p: p is True and _is_final_call(t, S_ENT)
        root = lambda pol: (lambda t, p: p is pol and call_named(t, "isSCXMLElement") and call_args(t) == (PARENT,))
        # running = false
        ws = [n for n in en.walk() if n.get("k") == "assign" and global_field_expr(n["l"], "running")]
        ctx.exact("R07.1", "assignments to running in enterStates", len(ws), 1)
        for w in ws:
            ok = const_eval(w["r"]) is False and under(en, w, fin) and under(en, w, root(True))
            ctx.ob("R07.1", site_key(en, "running cleared iff top-level final"), ok, line_of(w),
                   "value %s; guards %s" % (const_eval(w["r"]), [(show(t), p) for t, p, _ in guard_terms(en, w)]))
            extra = [(show(t), p) for t, p, _ in guard_terms(en, w) if not (fin(t, p) or root(True)(t, p))]
            ctx.ob("R07.1", site_key(en, "no further condition on ending the session"), not extra, line_of(w), "other guards: %s" % extra)
        muts = mutations_of_field(F, "GlobalData", "running")
        owners = sorted({_owner(fn) for fn, *_ in muts})
        ctx.ob("R07.1", "writers of running", set(owners) == {ALG + "enterStates", ALG + "interpret", ALG + "mainEventLoop"}, "",
               "GlobalData.running is assigned in: %s" % owners)
        # interpret switches running on once, before the initial states are entered: an initial configuration that already contains
        # a top-level <final> clears it in enterStates, and nothing may set it again
        it = F.fn(ALG + "interpret")
        on = [n for n in it.walk() if n.get("k") == "assign" and hirq.field_of(n["l"], NO_T) and hirq.field_of(n["l"], NO_T)[1] == "running"]
        ctx.exact("R07.1", "assignments to running in interpret", len(on), 1)
        ent = it.calls(ALG + "enterStates")
        ctx.floor("R07.1", "enterStates calls in interpret", len(ent), 1)
        idx_i = hirq.order_index(it)
        for w in on:
            ok = const_eval(w["r"]) is True and bool(ent) and all(idx_i[id(w)] < idx_i[id(c)] for c in ent) and not hirq.enclosing_loops(it, w)
            ctx.ob("R07.1", site_key(it, "running = true precedes the entry of the initial states"), ok, line_of(w),
                   "value %s; before every enterStates call of interpret: %s" % (const_eval(w["r"]), bool(ent) and all(idx_i[id(w)] < idx_i[id(c)] for c in ent)))
        # enqueue sites
        enq = en.calls(ALG + "enqueue_internal")
        ctx.exact("R07.1", "enqueue_internal sites in enterStates", len(enq), 2)
        entry_loops = None
        adds = [c for c in en.calls("OrderedSet::add") if global_field_expr(c["r"], "configuration")]
        if adds:
            entry_loops = [id(x) for x in hirq.enclosing_loops(en, adds[0])]
        seen = set()
        for c in enq:
            ev = peel(c["a"][1], NO_T)
            if ev.get("k") != "call" or not path_matches(ev.get("p") or "", "fsm::Event::new"):
                o = hirq.origin(en, c["a"][1])
                ev = peel(o.get("expr", {"k": "?"}), NO_T) if o.get("from") == "expr" else ev
            if ev.get("k") != "call" or not path_matches(ev.get("p") or "", "fsm::Event::new"):
                ctx.ob("R07.1", site_key(en, "done event built with Event::new", len(seen)), False, line_of(c), "event argument is %s" % describe(c["a"][1]))
                continue
            prefix, name, params, content = [term(en, a) for a in ev["a"][:4]]
            okp = const_eval(ev["a"][0], F) == "done.state."
            par_guard = under(en, c, lambda t, p: p is True and call_named(t, "isParallelState") and call_args(t) == (GRAND,))
            which = "grandparent" if (name == ("field", "name", GRAND) or par_guard) else "parent"
            seen.add(which)
            base_ok = okp and under(en, c, fin) and under(en, c, root(False))
            loops_ok = entry_loops is not None and [id(x) for x in hirq.enclosing_loops(en, c)] == entry_loops
            if which == "parent":
                ok = base_ok and name == ("field", "name", PARENT)
                ctx.ob("R07.1", site_key(en, "done.state.<parent> enqueued"), ok, line_of(c),
                       "prefix %r; id %s; guards %s" % (const_eval(ev["a"][0], F), show(name), [(show(t), p) for t, p, _ in guard_terms(en, c)][:4]))
                dd = ("field", "donedata", S_ENT)
                okd = mentions_where(params, lambda x: x[0] == "out" and x[1] == "evaluate_params") and \
                    mentions_where(content, lambda x: x[0] == "m" and x[1] == "evaluate_content" and mentions(x, dd))
                # evaluate_params reads the same donedata
                eps = [e for e in en.calls("evaluate_params")]
                okd = okd and any(mentions(term(en, e["a"][0]), dd) for e in eps)
                ctx.ob("R07.1", site_key(en, "done.state.<parent> carries s.donedata"), okd, line_of(c),
                       "params %s; content %s" % (show(params, 90), show(content, 90)))
                # nothing but the final/root tests decides this enqueue
                extra = [(show(t), p) for t, p, _ in guard_terms(en, c) if not (fin(t, p) or root(False)(t, p))]
                ctx.ob("R07.1", site_key(en, "done.state.<parent> unconditional for a nested final"), not extra, line_of(c), "other guards: %s" % extra)
            else:
                every = under(en, c, lambda t, p: p is True and t[0] == "m" and t[1] == "every" and call_named(t[2], "getChildStates") and
                              call_args(t[2]) == (GRAND,) and _every_is_in_final(en, c))
                ok = base_ok and name == ("field", "name", GRAND) and par_guard and every
                ctx.ob("R07.1", site_key(en, "done.state.<grandparent> enqueued iff all regions final"), ok, line_of(c),
                       "prefix %r; id %s; isParallelState(grandparent): %s; every(isInFinalState): %s" % (const_eval(ev["a"][0], F), show(name), par_guard, every))
            ctx.ob("R07.1", site_key(en, "done.state.<%s> not in a loop of its own" % which), loops_ok, line_of(c), "enclosing loops equal the entry loop")
        ctx.ob("R07.1", site_key(en, "both done.state events present"), seen == {"parent", "grandparent"}, en.where, "enqueue sites: %s" % sorted(seen))
        # the parent event precedes the grandparent event
        if len(enq) == 2:
            idx = hirq.order_index(en)
            a, b = sorted(enq, key=lambda c: idx[id(c)])
            first_is_parent = term(en, peel(a["a"][1], NO_T)["a"][1]) == ("field", "name", PARENT) if peel(a["a"][1], NO_T).get("k") == "call" else False
            ctx.ob("R07.1", site_key(en, "done.state.<parent> before done.state.<grandparent>"), first_is_parent, line_of(a), "evaluation order of the two enqueues")
        # Event::new: name = prefix + id, params, content
        evn = F.fn("fsm::Event::new")
        st = [n for n in evn.walk() if n.get("k") == "struct"]
        ok = False
        detail = "no struct literal"
        if len(st) == 1:
            fields = {f[0]: f[1] for f in st[0]["f"]}
            fa = bflow.format_args(evn, fields.get("name", {"k": "?"}))
            ok = fa == [("param", 0), ("param", 1)] and term(evn, fields["param_values"]) == ("param", 2) and term(evn, fields["content"]) == ("param", 3)
            detail = "name interpolates %s; param_values %s; content %s" % ([show(x) for x in fa], show(term(evn, fields["param_values"])), show(term(evn, fields["content"])))
        ctx.ob("R07.1", site_key(evn, "name = prefix + id"), ok, evn.where, detail)
        # enqueue_internal puts its argument on the internal queue
        ei = F.fn(ALG + "enqueue_internal")
        qs = [c for c in ei.calls("Queue::<T>::enqueue") if global_field_expr(c["r"], "internalQueue")]
        ctx.ob("R07.1", site_key(ei, "enqueues on internalQueue"), len(qs) == 1 and term(ei, qs[0]["a"][0]) == ("param", 2), ei.where,
               "%d internalQueue.enqueue site(s)" % len(qs))
    ctx.guard("R07.1", r1)

    # ---------------------------------------------------------------- R07.2 vocabulary + exit loop
    ctx.rule("R07.2", "isInFinalState and exitInterpreter make every algorithm-vocabulary call of their W3C pseudo-code; exitInterpreter iterates "
                      "configuration.toList().sort(state_exit_order), runs s.onexit, then configuration.delete(s), then returnDoneEvent only under "
                      "isFinalState(s) && isSCXMLElement(s.parent); returnDoneEvent has no other caller; isInFinalState tests "
                      "isFinalState(c) && configuration.isMember(c) over getChildStates(s) for compound s, every(isInFinalState) for parallel s")
    ctx.guard("R07.2", lambda: speccov.check(ctx, "R07.2", ["isInFinalState", "exitInterpreter"]))

    def r2():
        xi = F.fn(ALG + "exitInterpreter")
        S = ("elem", ("global", "configuration"))
        dels = [c for c in xi.calls("OrderedSet::delete") if global_field_expr(c["r"], "configuration")]
        ctx.exact("R07.2", "configuration.delete sites in exitInterpreter", len(dels), 1)
        execs = xi.calls(ALG + "executeContent")
        ctx.floor("R07.2", "executeContent sites in exitInterpreter", len(execs), 1)
        rde = xi.calls(ALG + "returnDoneEvent")
        ctx.exact("R07.2", "returnDoneEvent sites in exitInterpreter", len(rde), 1)
        for d in dels:
            lp = hirq.loop_var_of(xi, d["a"][0])
            ok = lp is not None
            detail = "delete argument is not a loop variable"
            if ok:
                base, chain = method_chain(xi, lp["iter"])
                srt = [n for m, n in chain if m == "sort"]
                cmp_name, order = comparator_of(xi, srt[0]) if srt else (None, None)
                ok = global_field_expr(base, "configuration") and cmp_name == "state_exit_order" and order == (0, 1) and term(xi, d["a"][0]) == S
                detail = "iterates %s via %s; comparator %s%s" % (describe(base), ".".join(m for m, _ in chain), cmp_name, order)
            ctx.ob("R07.2", site_key(xi, "exit loop over the configuration in exit order"), ok, line_of(d), detail)
            if lp is None:
                continue
            body = lp["body"]
            pos = lambda n: hirq.stmt_index(body, n, xi)
            for i, e in enumerate(execs):
                ok = term(xi, e["a"][1]) == ("elem", ("field", "onexit", S)) and pos(e) is not None and pos(e) < pos(d)
                ctx.ob("R07.2", site_key(xi, "onexit of s runs before s is removed", i), ok, line_of(e), "content %s; statement %s before delete %s" % (show(term(xi, e["a"][1])), pos(e), pos(d)))
            for r in rde:
                g_fin = under(xi, r, lambda t, p: p is True and _is_final_call(t, S))
                g_root = under(xi, r, lambda t, p: p is True and call_named(t, "isSCXMLElement") and call_args(t) == (("field", "parent", S),))
                okp = pos(r) is not None and pos(r) > pos(d)
                ctx.ob("R07.2", site_key(xi, "returnDoneEvent only for a top-level final state"), g_fin and g_root, line_of(r),
                       "guards %s" % [(show(t), p) for t, p, _ in guard_terms(xi, r)])
                ctx.ob("R07.2", site_key(xi, "returnDoneEvent after the state is removed"), okp, line_of(r), "statement %s after delete %s" % (pos(r), pos(d)))
                ctx.ob("R07.2", site_key(xi, "returnDoneEvent gets s.donedata"), term(xi, r["a"][0]) == ("field", "donedata", S), line_of(r), show(term(xi, r["a"][0])))
        callers = sorted({c for c, e in F.callgraph.callers_of(ALG + "returnDoneEvent")})
        ctx.ob("R07.2", "callers of returnDoneEvent", callers == [ALG + "exitInterpreter"], "", "called from %s" % callers)
        callers = sorted({c for c, e in F.callgraph.callers_of(ALG + "exitInterpreter")})
        ctx.ob("R07.2", "callers of exitInterpreter", callers == [ALG + "mainEventLoop"], "", "called from %s" % callers)

        # isInFinalState
        fi = F.fn(ALG + "isInFinalState")
        s = ("param", 2)
        somes = [c for c in fi.calls("List::<T>::some")]
        everys = [c for c in fi.calls("List::<T>::every")]
        ctx.exact("R07.2", "some() sites in isInFinalState", len(somes), 1)
        ctx.exact("R07.2", "every() sites in isInFinalState", len(everys), 1)
        for c in somes:
            cl = peel(c["a"][0], NO_T)
            ok = cl.get("k") == "closure" and term(fi, c["r"]) == ("call", "getChildStates", s) and \
                under(fi, c, lambda t, p: p is True and call_named(t, "isCompoundState") and call_args(t) == (s,))
            got = set()
            if cl.get("k") == "closure":
                p0 = ("cparam", cl.get("p"), 0)
                for a, pol in hirq.atoms(cl["body"], True):
                    t = term(fi, a)
                    if _is_final_call(t, p0) and pol:
                        got.add("final")
                    elif t == ("m", "isMember", ("global", "configuration"), p0) and pol:
                        got.add("active")
                    else:
                        got.add("other:" + show(t))
            ctx.ob("R07.2", site_key(fi, "compound: some child is final and active"), ok and got == {"final", "active"}, line_of(c), "predicate atoms %s" % sorted(got))
        for c in everys:
            cl = peel(c["a"][0], NO_T)
            ok = cl.get("k") == "closure" and term(fi, c["r"]) == ("call", "getChildStates", s) and \
                under(fi, c, lambda t, p: p is True and call_named(t, "isParallelState") and call_args(t) == (s,)) and \
                under(fi, c, lambda t, p: p is False and call_named(t, "isCompoundState") and call_args(t) == (s,))
            if ok:
                p0 = ("cparam", cl.get("p"), 0)
                ats = [(term(fi, a), pol) for a, pol in hirq.atoms(cl["body"], True)]
                ok = len(ats) == 1 and ats[0][1] is True and call_named(ats[0][0], "isInFinalState") and call_args(ats[0][0])[-1] == p0
            ctx.ob("R07.2", site_key(fi, "parallel: every child is in a final state"), ok, line_of(c), "every(isInFinalState) over getChildStates(s)")
        # neither compound nor parallel: false
        tails = _result_exprs(fi)
        lits = [const_eval(x) for x in tails if x.get("k") == "lit"]
        ctx.ob("R07.2", site_key(fi, "atomic states are never 'in final state'"), lits == [False] and len(tails) == 3, fi.where, "result expressions: %d, literal results %s" % (len(tails), lits))
    ctx.guard("R07.2", r2)

    # ---------------------------------------------------------------- R07.3 running / cancel
    ctx.rule("R07.3", "mainEventLoop: both while conditions read GlobalData.running; running is cleared only under isCancelEvent(<received event>); "
                      "from every running==false outcome of a test, from the cancel assignment and from the return of every microstep no "
                      "select*/microstep/invoke/recv/set_event/executeContent call is reachable without another test of running; exitInterpreter is "
                      "outside every loop and on every path to return; isCancelEvent compares the name with EVENT_CANCEL_SESSION, the name cancelInvoke sends")

    def r3():
        ml = F.fn(ALG + "mainEventLoop")
        cfg = ml.cfg
        reads = bflow.field_reads(ml, RUNNING)
        ctx.floor("R07.3", "tests of running in mainEventLoop", len(reads), 3)
        read_blocks = {b for b, f, t, rb in reads}
        work = ("selectEventlessTransitions", "selectTransitions", "microstep", "invoke")
        forbidden = {}
        for nm in work:
            for b, t in ml.mir_calls(ALG + nm):
                forbidden[b] = nm
        for b, t in ml.mir_calls("Receiver::<T>::recv"):
            forbidden[b] = "recv"
        for b, t in ml.mir_calls("Datamodel::set_event"):
            forbidden[b] = "set_event"
        for b, t in ml.mir_calls(ALG + "executeContent"):
            forbidden[b] = "executeContent"
        ctx.floor("R07.3", "work call sites in mainEventLoop", len(forbidden), 9)
        xi = [b for b, t in ml.mir_calls(ALG + "exitInterpreter")]
        ctx.exact("R07.3", "exitInterpreter calls in mainEventLoop", len(xi), 1)

        def after(start):
            r = cfg.reachable_from(start, avoiding=read_blocks - {start}) if start is not None else set()
            return sorted({forbidden[b] for b in r if b in forbidden and b != start})
        for i, (b, f, t, rb) in enumerate(sorted(reads)):
            bad = after(f) if f is not None else ["no false edge"]
            if rb != b:
                # the value was read earlier (hoisted let): nothing may run between the read and the test
                stale = sorted({forbidden[x] for x in cfg.reachable_from(rb, avoiding={b}) if x in forbidden})
                bad = bad + ["stale:" + x for x in stale]
            reaches_exit = f is not None and any(x in cfg.reachable_from(f) for x in xi)
            ctx.ob("R07.3", site_key(ml, "running==false leads to no further work", i), not bad and reaches_exit, _mir_where(ml, b),
                   "work reachable from the false edge before the next test: %s; exitInterpreter reachable: %s" % (bad, reaches_exit))
        writes = bflow.field_writes(ml, RUNNING)
        ctx.exact("R07.3", "assignments to running in mainEventLoop", len(writes), 1)
        for i, (b, op) in enumerate(writes):
            bad = after(b)
            okv = op is not None and op.get("v") in ("0", 0)
            ctx.ob("R07.3", site_key(ml, "after cancel no further work", i), not bad and okv, _mir_where(ml, b),
                   "assigned constant false: %s; work reachable before the next test: %s" % (okv, bad))
        for i, (b, t) in enumerate(ml.mir_calls(ALG + "microstep")):
            bad = after(t["t"]) if t.get("t") is not None else []
            ctx.ob("R07.3", site_key(ml, "after a microstep running is tested before further work", i), not bad, _mir_where(ml, b),
                   "work reachable after microstep before the next test: %s" % bad)
        for b in xi:
            ok = cfg.every_path_to_return_passes([b]) and not cfg.in_cycle(b)
            ctx.ob("R07.3", site_key(ml, "exitInterpreter on every path to return, outside every loop"), ok, _mir_where(ml, b),
                   "post-dominates entry: %s; in a cycle: %s" % (cfg.every_path_to_return_passes([b]), cfg.in_cycle(b)))
        # HIR side: loop conditions and the cancel guard
        whiles = ml.nodes("while")
        ctx.floor("R07.3", "while loops in mainEventLoop", len(whiles), 2)
        for i, w in enumerate(whiles):
            ok = any(pol is True and term(ml, a) == ("global", "running") for a, pol in hirq.atoms(w["cond"], True))
            ctx.ob("R07.3", site_key(ml, "loop condition requires running", i), ok, line_of(w), "condition %s" % show(term(ml, w["cond"])))
        EV = ("m", "recv", ("field", "receiver", ("global", "externalQueue")))
        ws = [n for n in ml.walk() if n.get("k") == "assign" and global_field_expr(n["l"], "running")]
        for i, w in enumerate(ws):
            ok = under(ml, w, lambda t, p: p is True and call_named(t, "isCancelEvent") and call_args(t) == (EV,))
            ctx.ob("R07.3", site_key(ml, "running cleared under isCancelEvent(received event)", i), ok, line_of(w),
                   "guards %s" % [(show(t), p) for t, p, _ in guard_terms(ml, w) if t != ("global", "running")])
        # the cancel test precedes the processing of the event
        ice = ml.calls(ALG + "isCancelEvent")
        ctx.exact("R07.3", "isCancelEvent sites in mainEventLoop", len(ice), 1)
        for c in ice:
            for nm, lst in (("set_event", [x for x in ml.calls("Datamodel::set_event") if term(ml, x["a"][0]) == EV]),
                            ("selectTransitions", [x for x in ml.calls(ALG + "selectTransitions") if term(ml, x["a"][1]) == EV])):
                ctx.ob("R07.3", site_key(ml, "cancel test dominates %s(external event)" % nm), bool(lst) and all(dominates_hir(ml, c, x) for x in lst), line_of(c),
                       "%d %s site(s) for the external event" % (len(lst), nm))
        # the cancel event's name
        ic = F.fn(ALG + "isCancelEvent")
        res = _result_exprs(ic)
        ok = False
        if len(res) == 1:
            t = term(ic, res[0])
            ok = t[0] in ("m", "bin") and mentions(t, ("field", "name", ("param", 1))) and mentions(t, ("def", "fsm::EVENT_CANCEL_SESSION")) and \
                ((t[0] == "m" and t[1] == "eq") or (t[0] == "bin" and t[1] == "Eq"))
        ctx.ob("R07.3", site_key(ic, "cancel event recognised by name"), ok, ic.where, "result: %s" % (show(term(ic, res[0])) if res else "?"))
        for fname in ("cancelInvoke", "exitInterpreter"):
            fn = F.fn(ALG + fname)
            sends = [c for c in fn.calls("Datamodel::send")]
            ctx.floor("R07.3", "cancel sends in " + fname, len(sends), 1)
            for i, c in enumerate(sends):
                ev = term(fn, c["a"][2])
                ok = ev == ("call", "new_simple", ("def", "fsm::EVENT_CANCEL_SESSION"))
                ctx.ob("R07.3", site_key(fn, "sends the cancel event", i), ok, line_of(c), "event %s" % show(ev))
        ns = F.fn("fsm::Event::new_simple")
        st = [n for n in ns.walk() if n.get("k") == "struct"]
        ok = len(st) == 1 and term(ns, dict((f[0], f[1]) for f in st[0]["f"])["name"]) == ("param", 0)
        ctx.ob("R07.3", site_key(ns, "new_simple(name) names the event"), ok, ns.where, "name field is the parameter")
    ctx.guard("R07.3", r3)

    # ---------------------------------------------------------------- R07.4 done.invoke
    ctx.rule("R07.4", "returnDoneEvent sends Event::new(EVENT_DONE_INVOKE_PREFIX, <caller_invoke_id>) with invoke_id = Some(<caller_invoke_id>) "
                      "to '#_scxml_'+<parent_session_id> through the SCXML processor, only when a parent session exists; "
                      "exitInterpreter fills final_configuration from the configuration before any state is removed")

    def r4():
        rd = F.fn(ALG + "returnDoneEvent")
        sends = rd.calls("Datamodel::send")
        ctx.exact("R07.4", "send sites in returnDoneEvent", len(sends), 1)
        CID = ("pat", (), ("global", "caller_invoke_id"))
        for c in sends:
            typ = const_eval(peel(c["a"][0], NO_T), F)
            fa = bflow.format_args(rd, c["a"][1])
            evb = local_of(c["a"][2], NO_T)
            ev = term(rd, c["a"][2])
            cid = [x for x in bflow.subterms(ev) if isinstance(x, tuple) and x and x[0] == "pat" and mentions(x, ("global", "caller_invoke_id"))]
            ok_ev = call_named(ev, "new") and len(ev) >= 4 and ev[2] == ("def", "fsm::EVENT_DONE_INVOKE_PREFIX") and \
                mentions(ev[3], ("global", "caller_invoke_id")) and ev[3][0] == "pat"
            ctx.ob("R07.4", site_key(rd, "event is done.invoke.<caller invoke id>"), ok_ev and F.const_value("fsm::EVENT_DONE_INVOKE_PREFIX") == "done.invoke.", line_of(c),
                   "event %s" % show(ev))
            ok_t = typ == "scxml" and len(fa) == 2 and fa[0] == ("def", "event_io_processor::scxml_event_io_processor::SCXML_TARGET_SESSION_ID_PREFIX") and \
                fa[1][0] == "pat" and mentions(fa[1], ("global", "parent_session_id")) and F.const_value("SCXML_TARGET_SESSION_ID_PREFIX") == "#_scxml_"
            ctx.ob("R07.4", site_key(rd, "addressed to #_scxml_<parent session id> via the scxml processor"), ok_t, line_of(c),
                   "type %r; target interpolates %s" % (typ, [show(x) for x in fa]))
            # event.invoke_id = Some(caller invoke id), assigned before the send
            asg = [n for n in rd.walk() if n.get("k") == "assign" and hirq.field_of(n["l"], NO_T) and hirq.field_of(n["l"], NO_T)[1] == "invoke_id" and
                   local_of(hirq.field_of(n["l"], NO_T)[0], NO_T) == evb and evb is not None]
            idx = hirq.order_index(rd)
            ok_i = len(asg) == 1 and ok_ev and term(rd, asg[0]["r"]) == ("ctor", "Some", ev[3]) and idx[id(asg[0])] < idx[id(c)] and \
                [g for g in hirq.guards(rd, asg[0])] == [g for g in hirq.guards(rd, c)]
            ctx.ob("R07.4", site_key(rd, "invoke_id of the event is the caller invoke id"), ok_i, line_of(c),
                   "%d assignment(s) to event.invoke_id before the send: %s" % (len(asg), show(term(rd, asg[0]["r"])) if asg else "-"))
            ok_g = under(rd, c, lambda t, p: t[0] == "arm" and t[1] == "Some" and t[2] == ("global", "parent_session_id"))
            ctx.ob("R07.4", site_key(rd, "only when a parent session exists"), ok_g, line_of(c), "guards %s" % [(show(t), p) for t, p, _ in guard_terms(rd, c)])
        # final_configuration
        xi = F.fn(ALG + "exitInterpreter")
        fcw = [par for fn, n, kind, meth, par in mutations_of_field(F, "GlobalData", "final_configuration") if _owner(fn) == xi.path]
        ctx.exact("R07.4", "final_configuration writes in exitInterpreter", len(fcw), 1)
        removals = [c for c in xi.calls("OrderedSet::delete") if global_field_expr(c["r"], "configuration")] + xi.calls(ALG + "executeContent")
        cfg = xi.cfg
        for w in fcw:
            bw = bflow.call_blocks(xi, w)
            if not bw:
                raise AnchorMissing("final_configuration write has no MIR block")
            back = any(x in cfg.reachable_from(y) for r in removals for y in bflow.call_blocks(xi, r) for x in bw)
            val = term(xi, w["a"][0]) if w.get("a") else ("?", "noarg", 0)
            names = val == ("coll", frozenset({("field", "name", ("elem", ("global", "configuration")))}))
            ctx.ob("R07.4", site_key(xi, "final configuration reported before states are exited"), not back and names, line_of(w),
                   "value %s; reachable after a removal: %s" % (show(val), back))
            # every path to the exit loop on which reporting is requested passes the write: the write's guard is is_some() only
            gs = [(t, p) for t, p, _ in guard_terms(xi, w)]
            okg = len(gs) == 1 and gs[0][1] is True and gs[0][0] == ("m", "is_some", ("global", "final_configuration"))
            ctx.ob("R07.4", site_key(xi, "reported whenever the host asked for it"), okg, line_of(w), "guards %s" % [(show(t), p) for t, p in gs])
        allw = sorted({(_owner(fn), meth) for fn, n, kind, meth, par in mutations_of_field(F, "GlobalData", "final_configuration")})
        ok = all(o in (ALG + "exitInterpreter", "fsm::start_fsm_with_data_and_finish_mode") for o, m in allw)
        ctx.ob("R07.4", "writers of final_configuration", ok, "", "written by %s" % allw)
    ctx.guard("R07.4", r4)


# ------------------------------------------------------------------------------------------ helpers

def _every_is_in_final(fn, site):
    """the every(...) predicate guarding site calls isInFinalState on its own parameter."""
    for a, pol in hirq.guard_atoms(fn, site):
        if pol is True and isinstance(a, dict) and a.get("k") == "mcall" and a["m"] == "every":
            cl = peel(a["a"][0], NO_T)
            if cl.get("k") != "closure":
                continue
            p0 = ("cparam", cl.get("p"), 0)
            ats = [(term(fn, x), p) for x, p in hirq.atoms(cl["body"], True)]
            if len(ats) == 1 and ats[0][1] is True and call_named(ats[0][0], "isInFinalState") and call_args(ats[0][0])[-1] == p0:
                return True
    return False


def _result_exprs(fn):
    """leaf expressions that produce fn's value (tail of the body, through if/else/match/blocks, plus `return e`)."""
    out = []

    def leaf(n):
        n0 = n
        while n.get("k") == "block":
            if "tail" not in n:
                return
            n = n["tail"]
        k = n.get("k")
        if k == "if" and "e" in n:
            leaf(n["t"])
            leaf(n["e"])
        elif k == "match":
            for a in n["arms"]:
                leaf(a["body"])
        else:
            # `let r; if .. {r = a} else {r = b}; r` : follow the assignments of a deferred local
            b = local_of(n, NO_T)
            if b is not None and fn.bindings().get(b, {}).get("from") == "let":
                defs = bflow.all_defs(fn, b)
                if defs:
                    for d in defs:
                        leaf(d)
                    return
            out.append(n)
    if fn.hir is not None:
        leaf(fn.hir)
        for r in fn.nodes("ret"):
            if "e" in r and hirq.enclosing_closure(fn, r) is None:
                leaf(r["e"])
    return out


def _mir_where(fn, b):
    s = fn.blocks[b]["t"].get("s")
    return "%s:%d" % (s[6], s[3]) if s else fn.where
