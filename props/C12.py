"""C12 — no accepted document or event sequence can crash or wedge its session.

Decided: (R12.1) every panic-capable edge reachable from the platform threads (session thread, delayed-send timer closure, HTTP
handlers) is a recognised harmless class, structurally discharged, audited with a reason, or a finding; the XML reader must not be
reachable from a session thread (it reports errors by panicking); (R12.2) in the send / invoke failure surface every path that
reports failure passes an error-event enqueue or an error-level log; (R12.3) no document parsing or file/network I/O while the
session's GlobalData lock is held.
Not decided: liveness of arbitrary documents (an eventless loop is legal SCXML); host-supplied actions and processors.
"""
from collections import defaultdict

from common import *
import hirq
import panics
from locks import LockAnalysis
import C11
import C17

REGION_STOPS = ("tracer::", "scxml_reader::", "test::", "remote_tracer::", "serializer::")


def c12_stop(p):
    return any(p.startswith(s) or ("<" + s) in p[:40] for s in REGION_STOPS)


def run(ctx):
    F = ctx.facts
    cg = F.callgraph
    ctx.explanation = ("C12: diverging-edge audit of everything reachable from the session thread, the delayed-send timer closure and the HTTP "
                       "handlers (rfsm-expression region: see C11; .rfsm reader: see C18); reachability of the panicking XML reader from a "
                       "session thread; error reporting on every failure path of send / invoke; I/O under the session lock")
    ctx.assumptions += [
        "std operations panic only as documented (table STD_PANICKING); boa, rocket, ureq, timer are not analysed",
        "ids stored in a model are valid (C04 R04.5 for the reader, C05 W1 for the deserializer)",
        "host-supplied Actions / EventIOProcessors / Datamodels are outside the analysis",
    ]
    roots = C17.role_roots(F)
    thread_roots = set(roots.get("session", ())) | set(roots.get("timer", ())) | set(roots.get("http", ())) | set(roots.get("tokio", ()))
    ctx.floor("R12.1", "platform thread roots", len(thread_roots), {"default": 4, "minimal": 2, "all": 4})   # minimal: no HTTP processor
    seen = panics.region(F, thread_roots, stop=c12_stop)
    c11 = set(panics.region(F, C11.c11_roots(cg), stop=C11.c11_stop).keys())
    nodes = set(seen.keys()) - c11
    bodies, edges = panics.collect(F, nodes)
    ctx.extra["region_functions"] = len(bodies)
    ctx.extra["region_functions_covered_by_C11"] = len(set(seen.keys()) & c11)
    ctx.extra["panic_capable_edges"] = len(edges)
    ctx.floor("R12.1", "functions reachable from the platform threads", len(bodies), {"default": 250, "minimal": 200, "all": 250})
    ctx.floor("R12.1", "panic-capable edges examined", len(edges), {"default": 100, "minimal": 95, "all": 100})

    # ---------------------------------------------------------------- R12.1
    ctx.rule("R12.1", "every panic-capable edge reachable from a platform thread is a recognised harmless class (lock poison, counter increment), "
                      "structurally discharged, audited with a reason (tables/panic_audit_C12.json) or a finding; the XML reader, whose error "
                      "channel is panic!, is not reachable from a session thread")
    ctx.guard("R12.1", lambda: C11.audit_edges(ctx, "R12.1", F, edges, "panic_audit_C12.json", "platform-thread"))

    def audit_premises():
        # the audited `executableContent.get(&id).unwrap()` edges of the data models rest on "callers filter the null id 0": the one
        # caller that hands an id through unchecked by its own callers (finalize, transition content) is Fsm::executeContent
        fe = F.fn("fsm::Fsm::executeContent")
        calls = fe.calls("datamodel::Datamodel::executeContent")
        ctx.exact("R12.1", "Datamodel::executeContent calls in Fsm::executeContent", len(calls), 1)
        for c in calls:
            ok = False
            for a, pol in hirq.guard_atoms(fe, c):
                if pol is None or not isinstance(a, dict) or a.get("k") != "bin":
                    continue
                if param_index(fe, a["l"]) == 2 and const_eval(a["r"]) == 0 and ((a["op"] in ("Ne", "Gt") and pol) or (a["op"] == "Eq" and not pol)):
                    ok = True
            ctx.ob("R12.1", "premise|Fsm::executeContent filters the null content id", ok, line_of(c),
                   "datamodel.executeContent(self, contentId) is %sguarded by contentId != 0" % ("" if ok else "NOT "))
    ctx.guard("R12.1", audit_premises)

    def xml_region():
        full = cg.reachable(set(roots.get("session", ())) | set(roots.get("timer", ())))
        entries = defaultdict(list)
        for n, par in full.items():
            if n.startswith("scxml_reader::") and par is not None and not par[0].startswith("scxml_reader::"):
                entries[cg.body_of.get(par[0], par[0])].append(n)
        # report per in-crate function through which the session thread enters the reader
        tops = set()
        for caller, ns in entries.items():
            chain = cg.witness(full, ns[0])
            # the first platform (non-reader) function on the chain that is an fsm:: procedure
            top = next((c.split(" @")[0] for c in reversed(chain) if c.startswith("fsm::Fsm::")), caller)
            tops.add((top, caller, ns[0], " -> ".join(x.split(" @")[0].split("::")[-1] for x in chain[-5:])))
        n_reader = len({n for n in full if n.startswith("scxml_reader::")})
        ctx.extra["xml_reader_functions_reachable_from_session_thread"] = n_reader
        seen_tops = set()
        for top, caller, entry, chain in sorted(tops):
            if top in seen_tops:
                continue
            seen_tops.add(top)
            fn = F.fns.get(top)
            ctx.ob("R12.1", "xml reader on session thread|%s" % top, False, fn.where if fn else "",
                   "%d functions of the XML reader (which rejects documents by panic!) are reachable from the session thread through %s: ... %s -> %s" % (
                       n_reader, top, chain, entry))
        if not tops:
            ctx.ob("R12.1", "xml reader on session thread|none", True, "", "the XML reader is not reachable from a session thread")
    ctx.guard("R12.1", xml_region)

    # ---------------------------------------------------------------- R12.2
    ctx.rule("R12.2", "in the send / invoke failure surface every exit that reports failure (false / Err / early return) is preceded on its path by an "
                      "error-event enqueue (internal_error_*, enqueue_internal(Event::error_*)) or an error-level log; exits that merely hand "
                      "on the failure of an expression evaluation are C08 R08.3's")
    SURFACE = [
        ("SendParameters::execute", "bool"),
        ("ScxmlEventIOProcessor::send", "bool"),
        ("ScxmlEventIOProcessor::send_to_session", "bool"),
        ("fsm::Fsm::invoke", "unit"),
        ("Cancel::execute", "bool"),
        ("datamodel::Datamodel::send", "bool"),
    ]

    def r2():
        total = 0
        for suffix, kind in SURFACE:
            fn = F.fn(suffix)
            exits = failure_exits(fn, kind)
            for i, (node, how) in enumerate(exits):
                total += 1
                ok, why = accounted(fn, node)
                if not ok and is_evaluation_error_exit(fn, node):
                    ctx.ob("R12.2", site_key(fn, "failure exit " + how, i), True, line_of(node),
                           "hands on the Err of an expression evaluation (error.execution discipline: C08 R08.3)", kind="delegated")
                    continue
                if not ok and suffix == "datamodel::Datamodel::send":
                    # the only caller that can see this `false` is SendParameters::execute, which raises error.execution on !result
                    sp = F.fn("SendParameters::execute")
                    handled = any(hirq.is_call(c, "internal_error_execution_for_event") for c in sp.walk())
                    ok, why = handled, "returned to SendParameters::execute, which raises error.execution when the send reports failure"
                ctx.ob("R12.2", site_key(fn, "failure exit " + how, i), ok, line_of(node), why)
        ctx.floor("R12.2", "failure exits examined", total, 12)
        # the unknown-session arm of the executor must be reported to its caller, which turns Err into error.communication
        fx = F.fn("fsm_executor::FsmExecutor::send_to_session")
        arms = [a for m in fx.nodes("match") for a in m["arms"]]
        none_arm = [a for a in arms if a["pat"].get("k") in ("ppath", "pts", "pstruct") and a["pat"]["r"].get("p", "").endswith("::None")]
        ok = bool(none_arm) and not hirq.diverges(none_arm[0]["body"]) and "Err" in describe(none_arm[0]["body"])
        ctx.ob("R12.2", site_key(fx, "unknown session is reported as Err"), ok, fx.where,
               "the None arm of get_session_sender %s" % ("returns Err" if ok else "does not return an error to the caller (it diverges or swallows the miss)"))
        st = F.fn("ScxmlEventIOProcessor::send_to_session")
        errs = [c for c in st.calls("enqueue_internal") if any(hirq.is_call(x, "Event::error_communication") for x in hirq.walk(c))]
        ctx.ob("R12.2", site_key(st, "Err of the executor becomes error.communication"), len(errs) >= 1, st.where,
               "%d enqueue_internal(Event::error_communication(..)) on the Err arm" % len(errs))
    ctx.guard("R12.2", r2)

    # ---------------------------------------------------------------- R12.3
    ctx.rule("R12.3", "no document parsing and no file / network I/O while the session's GlobalData lock is held (a panic there poisons the session "
                      "lock; a slow fetch stalls every thread that needs it)")

    def r3():
        L = LockAnalysis(F)
        n = 0
        for (x, what), ws in sorted(L.held_blocking.items()):
            if x != "G" or what in ("channel recv", "thread join", "sleep", "block_on"):
                continue
            seen_f = set()
            for w in ws:
                if w["fn"] in seen_f:
                    continue
                seen_f.add(w["fn"])
                n += 1
                ctx.ob("R12.3", "%s under G|%s" % (what.split(" (")[0], w["fn"]), False, w["where"], "%s while holding the session lock: %s" % (
                    what, " -> ".join(x.split(" @")[0].split("::")[-1] + "@" + x.rsplit(":", 1)[1] for x in w["chain"][:6])))
        ctx.ob("R12.3", "lock analysis ran", len(L.direct) > 50, "", "%d functions with direct acquisitions analysed" % len(L.direct), kind="floor")
    ctx.guard("R12.3", r3)


# ------------------------------------------------------------------------------------------

def leaves(e):
    """Result leaves of an expression (through blocks, if/else, match arms)."""
    k = e.get("k")
    if k == "block":
        if "tail" in e:
            return leaves(e["tail"])
        return []
    if k == "if":
        out = leaves(e["t"])
        if "e" in e:
            out += leaves(e["e"])
        return out
    if k == "match":
        out = []
        for a in e["arms"]:
            out += leaves(a["body"])
        return out
    return [e]


def failure_exits(fn, kind):
    out = []
    if kind == "bool":
        for l in leaves(fn.hir):
            if const_eval(l) is False:
                out.append((l, "false"))
        for r in fn.nodes("ret"):
            if hirq.enclosing_closure(fn, r) is None and "e" in r and const_eval(r["e"]) is False:
                out.append((r, "return false"))
    else:
        for r in fn.nodes("ret"):
            if hirq.enclosing_closure(fn, r) is None and "e" not in r:
                out.append((r, "return"))
        # Err arms of the final match that only report
        for m in fn.nodes("match"):
            for a in m["arms"]:
                p = a["pat"]
                if p.get("k") in ("pts", "pstruct") and p["r"].get("p", "").endswith("::Err") and fn.parent(m) is not None:
                    if hirq.local_name(m["e"]) == "result":
                        out.append((a["body"], "Err arm"))
    return out


REPORTERS = ("internal_error_execution", "internal_error_execution_for_event", "internal_error_execution_with_event",
             "internal_error_communication", "enqueue_internal")


def _reports(n):
    for x in hirq.walk(n):
        if x.get("k") in ("call", "mcall") and x.get("p") and x["p"].split("::")[-1] in REPORTERS:
            return "raises " + x["p"].split("::")[-1]
        if x.get("k") in ("call", "mcall", "block", "match", "if") and any(m in ("error", "warn") for m in macros_of(x)):
            return "error-level log"
    return None


def accounted(fn, node):
    """An error event or error-level log is executed on the path to `node` inside its own branch."""
    r = _reports(node)
    if r:
        return True, r
    cur = node
    for anc in fn.ancestors(node):
        if anc.get("k") == "block":
            seq = list(anc["st"]) + ([anc["tail"]] if "tail" in anc else [])
            for s in seq:
                if s is cur:
                    break
                if s.get("k") in ("if", "match", "for", "while", "loop"):
                    continue   # conditional statements do not report on every path
                r = _reports(s)
                if r:
                    return True, r + " earlier in the same branch"
        if anc.get("k") in ("closure",):
            break
        cur = anc
    return False, "no error event and no error-level log on this failure path"


EVAL_APIS = ("get_expression_alternative_value", "get_by_location", "execute", "evaluate_content", "evaluate_params", "execute_condition")


def is_evaluation_error_exit(fn, node):
    """node sits in the Err arm of a match on the result of an expression-evaluation API."""
    for g in hirq.guards(fn, node):
        if g["how"] == "let-else":
            # `let Ok(v) = api(..) else { <node> }`
            p = g["cond"]["pat"]
            if p.get("k") in ("pts", "pstruct") and p["r"].get("p", "").endswith("::Ok"):
                e = hirq.resolve(fn, g["cond"]["init"], NO_T)
                if e.get("k") in ("call", "mcall") and e.get("p") and e["p"].split("::")[-1] in EVAL_APIS:
                    return True
        if g["how"] == "arm":
            p = g["pat"]
            if p.get("k") in ("pts", "pstruct") and p["r"].get("p", "").endswith("::Err"):
                scr = peel(g["cond"], NO_T)
                o = hirq.origin(fn, scr)
                e = o.get("expr", scr)
                if e.get("k") in ("call", "mcall") and e.get("p") and e["p"].split("::")[-1] in EVAL_APIS:
                    return True
    return False
